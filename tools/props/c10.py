"""C10 — the FQN scope provider resolves only genuine qualified names.

translate (providers.py FQN.__call__ -> Gen/SrcFqn.v) -> prove (Props/C10.v) -> correspond (real
provider vs Coq model on dumped object graphs) -> observe (property oracle on the implementation's
answers) -> decide.
"""
import glob
import json
import os
import time

from vt import core
from vt.main import decide
from translate import fqn_tr

CLASSES = ["Model", "Package", "Class", "Alias", "Use", "Elem", "Ref", "Import", "PyObj"]
CID = {c: i for i, c in enumerate(CLASSES)}

GRAMMARS = {
    # references declared before the contained objects
    "A": """
Model: elems*=Elem refs*=Ref;
Elem: Package | Class;
Package: 'package' name=ID ('owner' owner=[Class:FQN])? '{' ('main' main=Class)? elems*=Elem refs*=Ref '}';
Class: 'class' name=ID ('extends' base=[Class:FQN])? ('uses' uses+=[Elem:FQN][','])? ('{' members*=Elem '}' | ';');
Ref: Alias | Use;
Alias: 'alias' name=ID '=' target=[Elem:FQN] ';';
Use: 'use' target=[Elem:FQN] ';';
FQN: ID('.'ID)*;
""",
    # contained objects declared before the references (different __dict__ and resolution order)
    "B": """
Model: elems*=Elem refs*=Ref;
Elem: Package | Class;
Package: 'package' name=ID '{' elems*=Elem refs*=Ref ('main' main=Class)? '}' ('owner' owner=[Class:FQN])?;
Class: 'class' name=ID ('{' members*=Elem '}')? ('extends' base=[Class:FQN])? ('uses' uses+=[Elem:FQN][','])? ';';
Ref: Alias | Use;
Alias: 'alias' name=ID '=' target=[Elem:FQN] ';';
Use: 'use' target=[Elem:FQN] ';';
FQN: ID('.'ID)*;
""",
}
# C: grammar A with user-supplied Python classes for Package and Class (their attributes live in
# _tx_obj_attrs while the model is being built, i.e. while references are resolved)
GRAMMARS["C"] = GRAMMARS["A"]
USER_CLASSES = {"C": ["Package", "Class"]}
# D: grammar A plus import statements (several files; FQNImportURI with/without importAs, FQNGlobalRepo)
GRAMMARS["D"] = GRAMMARS["A"].replace("Model: elems*=Elem refs*=Ref;",
                                      "Model: imports*=Import elems*=Elem refs*=Ref;\nImport: 'import' importURI=STRING ('as' name=ID)? ';';")
LAYOUT = {"A": "A", "B": "B", "C": "A", "D": "A"}
# containment slots in declaration (= textual = pre-order) order
SLOTS = {
    "A": {"Model": ["elems", "refs"], "Package": ["main", "elems", "refs"], "Class": ["members"], "Alias": [], "Use": []},
    "B": {"Model": ["elems", "refs"], "Package": ["elems", "refs", "main"], "Class": ["members"], "Alias": [], "Use": []},
}
SLOTS["C"] = SLOTS["A"]
SLOTS["D"] = dict(SLOTS["A"], Model=["imports", "elems", "refs"], Import=[])
NAMES = ["a", "b", "c", "p", "q", "x1"]
REF_T = {"base": "Class", "owner": "Class", "uses": "Elem", "target": "Elem"}


def py_conf(kind, T):
    return kind == T or (T == "Elem" and kind in ("Package", "Class")) or (T == "Ref" and kind in ("Alias", "Use"))


# ---------------------------------------------------------------- abstract trees
class Node:
    def __init__(self, kind, name=None):
        self.kind, self.name, self.parent, self.id = kind, name, None, None
        self.kids = {}          # slot -> [Node]
        self.refs = {}          # attr -> [text]   (base/owner/target: 0 or 1 entry)

    def children(self, gid):
        return [c for s in SLOTS[gid][self.kind] for c in self.kids.get(s, [])]


def gen_tree(r, gid, pool, unique, size_hint, imports=()):
    budget = [size_hint]

    def pick_names(k):
        if unique:
            return r.sample(pool, min(k, len(pool)))
        return [r.choice(pool) for _ in range(k)]

    def fill(node, depth):
        if node.kind in ("Model", "Package"):
            n_el = r.weighted([(0, 1), (1, 3), (2, 4), (3, 2)]) if depth else r.range(1, 3)
            has_main = node.kind == "Package" and r.chance(0.25)
            n_rf = r.weighted([(0, 5), (1, 3), (2, 1)])
            kinds = []
            if has_main:
                kinds.append(("main", "Class"))
            kinds += [("elems", "Package" if (depth < 3 and r.chance(0.5)) else "Class") for _ in range(n_el)]
            kinds += [("refs", "Alias" if r.chance(0.4) else "Use") for _ in range(n_rf)]
        else:
            n_mem = r.weighted([(0, 6), (1, 3), (2, 1)]) if depth < 4 else 0
            kinds = [("members", "Class" if r.chance(0.8) else "Package") for _ in range(n_mem)]
        named = [k for k in kinds if k[1] != "Use"]
        names = pick_names(len(named))
        kinds = [k for k in kinds if k[1] == "Use"] + named[:len(names)] if unique else kinds
        it = iter(names)
        # keep slot order stable
        order = SLOTS[gid][node.kind]
        kinds.sort(key=lambda k: order.index(k[0]))
        for slot, kind in kinds:
            if budget[0] <= 0:
                break
            budget[0] -= 1
            c = Node(kind, None if kind == "Use" else next(it))
            c.parent = node
            node.kids.setdefault(slot, []).append(c)
        for c in node.children(gid):
            if c.kind in ("Package", "Class"):
                fill(c, depth + 1)

    root = Node("Model")
    fill(root, 0)
    for uri, alias in imports:
        n = Node("Import", alias or "")
        n.parent, n.uri = root, uri
        root.kids.setdefault("imports", []).append(n)
    nodes = []

    def number(n):
        n.id = len(nodes)
        nodes.append(n)
        for c in n.children(gid):
            number(c)
    number(root)
    return nodes


def first_match(nodes, gid, r_node, parts, T):
    """Generation-time resolver (first sibling wins); equals the specification on unique trees."""
    s = r_node
    while s is not None:
        cur = s
        for nm in parts:
            cur = next((c for c in cur.children(gid) if c.name == nm), None)
            if cur is None:
                break
        if cur is not None and py_conf(cur.kind, T):
            return cur
        s = s.parent
    return None


def path_names(n):
    out = []
    while n.parent is not None:
        out.append(n.name)
        n = n.parent
    return out[::-1]


def add_refs(r, nodes, gid):
    for h in nodes:
        slots = {"Class": [("base", 0.5), ("uses", 0.4)], "Package": [("owner", 0.3)], "Alias": [("target", 1)], "Use": [("target", 1)]}.get(h.kind, [])
        for attr, p in slots:
            if not r.chance(p):
                continue
            T = REF_T[attr]
            cands = [n for n in nodes if n.name is not None and py_conf(n.kind, T) and n is not h]
            texts = []
            for _ in range(r.range(1, 3) if attr == "uses" else 1):
                for t in r.sample(cands, 4):
                    pn = path_names(t)
                    if None in pn:
                        continue
                    sufs = [pn[i:] for i in range(len(pn))]
                    ok = [s for s in r.shuffle(sufs) if first_match(nodes, gid, h, s, T) is not None]
                    if ok:
                        texts.append(".".join(ok[0]))
                        break
            if texts:
                h.refs[attr] = texts
            elif attr == "target":
                h.refs[attr] = None   # unrenderable reference object: dropped by render


def render(nodes, gid, override=None):
    """Text of the model; returns (text, sites) with sites[(holder id, attr, index)] = offset of the reference text."""
    override = override or {}
    buf, sites = [], {}
    pos = [0]

    def w(s):
        buf.append(s)
        pos[0] += len(s)

    def ref(h, attr, i, text):
        text = override.get((h.id, attr, i), text)
        sites[(h.id, attr, i)] = pos[0]
        w(text)

    def refs_of(h, attr):
        lst = list(h.refs.get(attr) or [])
        if not lst and (h.id, attr, 0) in override:
            lst = [None]
        return lst

    def cls_refs(n):
        b = refs_of(n, "base")
        if b:
            w(" extends ")
            ref(n, "base", 0, b[0])
        u = refs_of(n, "uses")
        if u:
            w(" uses ")
            for i, t in enumerate(u):
                if i:
                    w(", ")
                ref(n, "uses", i, t)

    def emit(n, ind):
        pad = "  " * ind
        if n.kind == "Model":
            for c in n.children(gid):
                emit(c, ind)
        elif n.kind == "Package":
            w(pad + "package " + n.name)
            o = refs_of(n, "owner")
            if LAYOUT[gid] == "A" and o:
                w(" owner ")
                ref(n, "owner", 0, o[0])
            w(" {\n")
            for slot in SLOTS[gid]["Package"]:
                for c in n.kids.get(slot, []):
                    if slot == "main":
                        w(pad + "  main\n")
                    emit(c, ind + 1)
            w(pad + "}")
            if LAYOUT[gid] == "B" and o:
                w(" owner ")
                ref(n, "owner", 0, o[0])
            w("\n")
        elif n.kind == "Class":
            w(pad + "class " + n.name)
            mem = n.kids.get("members", [])
            if LAYOUT[gid] == "A":
                cls_refs(n)
                if mem:
                    w(" {\n")
                    for c in mem:
                        emit(c, ind + 1)
                    w(pad + "}\n")
                else:
                    w(";\n")
            else:
                if mem:
                    w(" {\n")
                    for c in mem:
                        emit(c, ind + 1)
                    w(pad + "}")
                cls_refs(n)
                w(";\n")
        elif n.kind == "Import":
            w(pad + 'import "%s"%s;\n' % (n.uri, (" as " + n.name) if n.name else ""))
        elif n.kind == "Alias":
            w(pad + "alias " + n.name + " = ")
            ref(n, "target", 0, n.refs["target"][0])
            w(";\n")
        elif n.kind == "Use":
            w(pad + "use ")
            ref(n, "target", 0, n.refs["target"][0])
            w(";\n")
    emit(nodes[0], 0)
    return "".join(buf), sites


def prune_unrenderable(nodes, gid):
    """Alias/Use objects for which no resolvable target text exists are removed (then renumber)."""
    for n in nodes:
        for slot, lst in n.kids.items():
            n.kids[slot] = [c for c in lst if not (c.kind in ("Alias", "Use") and not c.refs.get("target"))]
    out = []

    def number(n):
        n.id = len(out)
        out.append(n)
        for c in n.children(gid):
            number(c)
    number(nodes[0])
    return out


# ---------------------------------------------------------------- the specification on a dumped graph
def d_children(dump, o):
    out = []
    for k, decl, cont, call, val in dump[o]["attrs"]:
        # what C10 calls contained: a declared containment attribute, or (objects that are not textX objects,
        # attributes added by user code) any public, non-callable attribute that is not the parent link
        if (decl and cont) or (not decl and not call and k != "parent" and not k.startswith("__") and not k.startswith("_tx_")):
            if val[0] == "o" and val[1] is not None:
                out.append(val[1])
            elif val[0] == "m":
                out += val[1]
    return out


def d_parent(dump, o):
    for k, decl, cont, call, val in dump[o]["attrs"]:
        if k == "parent":
            return val[1] if val[0] == "o" else None
    return None


def spec(dump, conf, r, parts, T):
    """(index of the nearest scope with a well-typed chain, list of chain ends) or (None, [])."""
    s, i = r, 0
    while s is not None:
        cur = [s]
        for nm in parts:
            cur = [c for o in cur for c in d_children(dump, o) if dump[c]["name"] is not None and dump[c]["name"] == nm]
        ends = [t for t in cur if (dump[t]["cls"], T) in conf]
        if ends:
            return i, ends
        s, i = d_parent(dump, s), i + 1
    return None, []


def unique_on(dump, parts):
    for o in range(len(dump)):
        names = [dump[c]["name"] for c in d_children(dump, o)]
        for nm in set(parts):
            if names.count(nm) > 1:
                return False
    return True


def walk_resolve(dump, conf, r, parts, T, keep):
    """Python mirror of the Coq model with an arbitrary attribute filter (used for statistics and
    for generating names that a looser walk would resolve; never as the oracle)."""
    def find_obj(p, nm):
        for k, decl, cont, call, val in dump[p]["attrs"]:
            if not keep(k, decl, cont, call):
                continue
            if val[0] == "m":
                for c in val[1]:
                    if dump[c]["name"] == nm:
                        return c
            elif val[0] == "o" and val[1] is not None and dump[val[1]]["name"] == nm:
                return val[1]
        return None
    s = r
    while s is not None:
        cur = s
        for nm in parts:
            cur = find_obj(cur, nm)
            if cur is None:
                break
        if cur is not None and (dump[cur]["cls"], T) in conf:
            return cur
        s = d_parent(dump, s)
    return None


def loose(k, decl, cont, call):
    return not k.startswith("__") and not k.startswith("_tx_") and not call


# ---------------------------------------------------------------- Coq side
IMPORTS = """From TxV Require Import Core.Base Core.Show Model.FqnDefs Gen.SrcFqn Model.Fqn Model.FqnExt.
Open Scope string_scope.
Fixpoint s2l (s : string) : list N := match s with EmptyString => [] | String c s' => Ascii.N_of_ascii c :: s2l s' end.
Definition show_res (r : result) : string := match r with Found t => "F" ++ show_nat t | Unknown => "U" | OutOfFuel => "X" end.
Definition mkconf (ps : list (nat * nat)) (c T : nat) : bool := existsb (fun p => (Nat.eqb (fst p) c && Nat.eqb (snd p) T)%bool) ps.
Definition A (n : string) (d c k : bool) (v : aval) : attr := {| a_name := s2l n; a_decl := d; a_cont := c; a_call := k; a_val := v |}.
Definition O (c : nat) (n : option string) (l : list attr) : obj := {| o_cls := c; o_name := option_map s2l n; o_attrs := l |}.
(* the object graph at the moment a probe reference is resolved: of the listed reference attributes
   (object, key) only the first n values are resolved yet *)
Definition cut_attr (i : nat) (cuts : list (nat * string * nat)) (a : attr) : attr :=
  match find (fun c => (Nat.eqb (fst (fst c)) i && str_eqb (a_name a) (s2l (snd (fst c))))%bool) cuts with
  | Some c => {| a_name := a_name a; a_decl := a_decl a; a_cont := a_cont a; a_call := a_call a;
                 a_val := match a_val a with
                          | VPrim => VPrim
                          | VOne o => match snd c with 0%nat => VOne None | _ => VOne o end
                          | VMany l => VMany (firstn (snd c) l)
                          end |}
  | None => a
  end.
Definition cut_model (cuts : list (nat * string * nat)) (m : list obj) : list obj :=
  map (fun io => {| o_cls := o_cls (snd io); o_name := o_name (snd io);
                    o_attrs := map (cut_attr (fst io) cuts) (o_attrs (snd io)) |}) (combine (seq 0 (List.length m)) m).
Definition show_case (ps : list (nat * nat)) (m : list obj) (rs : list nat) (qs : list (string * nat))
           (probes : list (list (nat * string * nat) * nat * string * nat)) : string :=
  show_bool (wf_model m) ++ show_bool (unique_b m) ++ show_bool (parents_decrease m) ++ "|" ++
  sjoin "," (flat_map (fun r => map (fun q => show_res (fqn_resolve (mkconf ps) m r (s2l (fst q)) (snd q))) qs) rs)
  ++ "|" ++
  sjoin "," (map (fun p => let '(cuts, r, tx, T) := p in
                           show_res (fqn_resolve (mkconf ps) (cut_model cuts m) r (s2l tx) T)) probes).
Definition show_x (r : xresult) : string :=
  match r with XFound t => "F" ++ show_nat t | XUnknown => "U" | XPostponed => "P" | XOutOfFuel => "X" end.
Definition mkredir (ps : list (nat * list nat)) (p : nat) : rres :=
  match find (fun q => Nat.eqb (fst q) p) ps with Some q => RList (snd q) | None => RList [] end.
(* several models in one table; every query carries the local models of the referrer's model *)
Definition show_multi (use_redir : bool) (ps : list (nat * nat)) (m : list obj) (rd : list (nat * list nat)) (bs : list nat)
           (qs : list (nat * list nat * string * nat)) : string :=
  show_bool (wf_model m) ++ show_bool (parents_decrease m) ++ "|" ++
  sjoin "," (map (fun q => let '(r, locals, tx, T) := q in
                           if use_redir then show_x (fqn_import_resolve_r (mkconf ps) (mkredir rd) 3 m r locals bs (s2l tx) T)
                           else show_x (lift_result (fqn_import_resolve (mkconf ps) m r locals bs (s2l tx) T))) qs).
Definition mkredir_p (rd : list (nat * list nat)) (post : list nat) (p : nat) : rres :=
  if existsb (Nat.eqb p) post then RPost else mkredir rd p.
(* a callback that answers Postponed for the objects in `post` *)
Definition show_post (ps : list (nat * nat)) (m : list obj) (rd : list (nat * list nat)) (qs : list (nat * string * nat * list nat)) : string :=
  "|" ++ sjoin "," (map (fun q => let '(r, tx, T, post) := q in show_x (fqn_resolve_r (mkconf ps) (mkredir_p rd post) 3 m r (s2l tx) T)) qs).
Definition show_redir (ps : list (nat * nat)) (m : list obj) (rd : list (nat * list nat)) (qs : list (nat * string * nat)) : string :=
  "|" ++ sjoin "," (map (fun q => let '(r, tx, T) := q in show_x (fqn_resolve_r (mkconf ps) (mkredir rd) 3 m r (s2l tx) T)) qs).
Open Scope nat_scope."""


def coq_s(t):
    """ASCII text -> Coq string literal (the generated names and attribute keys are printable ASCII)."""
    if not all(32 <= ord(ch) < 127 for ch in t):
        raise ValueError("non-ASCII text in a generated case: %r" % t)
    return '"%s"%%string' % t.replace('"', '""')


def coq_val(val):
    if val[0] == "p":
        return "VPrim"
    if val[0] == "o":
        return "(VOne %s)" % ("None" if val[1] is None else "(Some %d)" % val[1])
    return "(VMany [%s])" % ";".join("%d" % x for x in val[1])


def coq_tbl(dump):
    objs = []
    for o in dump:
        attrs = ["A %s %s %s %s %s" % (coq_s(k), core.coq_bool(d), core.coq_bool(c), core.coq_bool(cl), coq_val(v))
                 for k, d, c, cl, v in o["attrs"]]
        nm = "None" if o["name"] is None else "(Some %s)" % coq_s(o["name"])
        objs.append("O %d %s [%s]" % (CID[o["cls"]], nm, "; ".join(attrs)))
    return "[" + ";\n ".join(objs) + "]"


def coq_conf(conf):
    return "[" + "; ".join("(%d, %d)" % (CID[c], CID[T]) for c, T in sorted(conf)) + "]"


def cuts_for(dump, probe):
    """[(object, key, n)]: of that reference attribute only the first n values are resolved when the probe is."""
    st = state_at(dump, probe)
    cuts = []
    for i, (o, o2) in enumerate(zip(dump, st)):
        for a, a2 in zip(o["attrs"], o2["attrs"]):
            if a[4] != a2[4]:
                if a[4][0] == "o":
                    cuts.append((i, a[0], 0))
                else:
                    n = len(a2[4][1])
                    if a[4][1][:n] != a2[4][1]:
                        raise RuntimeError("resolved references are not a textual prefix: %r %r" % (a, a2))
                    cuts.append((i, a[0], n))
    return cuts


def coq_case(dump, conf, referrers, names, probes=()):
    qs = "; ".join("(%s, %d)" % (coq_s(t), CID[T]) for t, T in names)
    ps = "; ".join("([%s], %d, %s, %d)" % ("; ".join("(%d, %s, %d)" % (i, coq_s(k), n) for i, k, n in cuts_for(dump, p)),
                                            p["holder"], coq_s(p["probe"]), CID[p["T"]]) for p in probes)
    return "show_case %s %s [%s] [%s] [%s]" % (coq_conf(conf), coq_tbl(dump), ";".join("%d" % r for r in referrers), qs, ps)


def compress(exprs):
    """Name the attribute literals that occur repeatedly (shared definitions keep the case files small)."""
    import re
    pat = re.compile(r'A "[^"]*"%string (?:true|false) (?:true|false) (?:true|false) (?:VPrim|\(VOne None\)|\(VOne \(Some \d+\)\)|\(VMany \[\]\))')
    freq = {}
    for e in exprs:
        for m in pat.findall(e):
            freq[m] = freq.get(m, 0) + 1
    names = {m: "k%d" % i for i, m in enumerate(sorted(k for k, v in freq.items() if v >= 3))}
    defs = "\n".join("Definition %s := %s." % (n, m) for m, n in sorted(names.items(), key=lambda kv: int(kv[1][1:])))
    return [pat.sub(lambda m: names.get(m.group(0), m.group(0)), e) for e in exprs], defs


# ---------------------------------------------------------------- case generation
MALFORMED = ["", ".", "a.", ".a", "a..b", "zz", "a.zz", "zz.a", "parent", "a.parent", "base", "a.base.b", "name", "_tx_position"]


def gen_case(r, idx, thorough):
    gid = r.weighted([("A", 5), ("B", 3), ("C", 2)])
    pool = r.sample(NAMES, r.weighted([(2, 3), (3, 4), (4, 2)]))
    unique = r.chance(0.8)
    nodes = gen_tree(r.split("t"), gid, pool, unique, r.range(4, 16))
    add_refs(r.split("r"), nodes, gid)
    nodes = prune_unrenderable(nodes, gid)
    text, sites = render(nodes, gid)
    return {"gid": gid, "nodes": nodes, "text": text, "sites": sites, "pool": pool, "unique": unique, "idx": idx}


def gen_queries(r, case, dump, conf, thorough):
    pool = case["pool"]
    n = len(dump)
    texts = list(pool) + ["%s.%s" % (a, b) for a in pool for b in pool]
    three = ["%s.%s.%s" % (a, b, c) for a in pool for b in pool for c in pool]
    texts += three if (thorough or len(pool) <= 2) else r.sample(three, 10)
    # names that exist (full paths and their suffixes) and deeper ones
    for o in range(1, n):
        pn, s = [], o
        while s is not None and dump[s]["name"] is not None:
            pn.append(dump[s]["name"])
            s = d_parent(dump, s)
        pn = pn[::-1]
        if len(pn) > 3:
            texts.append(".".join(pn))
            texts.append(".".join(pn[1:]))
    # names that a walk through `parent` and reference attributes would accept
    for _ in range(10 if thorough else 6):
        cur = r.below(n)
        parts = []
        for _step in range(r.range(2, 5)):
            nxt = []
            for k, decl, cont, call, val in dump[cur]["attrs"]:
                if k.startswith("_tx_"):
                    continue
                if val[0] == "o" and val[1] is not None:
                    nxt.append(val[1])
                elif val[0] == "m":
                    nxt += val[1]
            nxt = [x for x in nxt if dump[x]["name"]]
            if not nxt:
                break
            cur = r.choice(nxt)
            parts.append(dump[cur]["name"])
        if parts:
            texts.append(".".join(parts))
    texts += r.sample(MALFORMED, 4)
    texts = sorted(set(texts))
    deep = sorted(range(n), key=lambda o: (-len(path_ids(dump, o)), o))
    refs = [0] + deep[:2] + r.sample(list(range(n)), 3 if thorough else 1)
    refs = sorted(set(refs))
    names = [[t, r.weighted([("Class", 4), ("Elem", 4), ("Package", 2), ("Alias", 1), ("Ref", 1), ("Model", 1)])] for t in texts]
    return refs, names


def path_ids(dump, o):
    out = []
    while o is not None:
        out.append(o)
        o = d_parent(dump, o)
    return out


def gen_probes(r, case, dump, conf, thorough):
    """e2e probes: one reference of the text is replaced by (or a class gets an extra `extends`) the probe text."""
    nodes, gid = case["nodes"], case["gid"]
    holders = [(h, "base", "Class") for h in nodes if h.kind == "Class"] + [(h, "target", "Elem") for h in nodes if h.kind == "Use"]
    probes = []
    if not holders:
        return probes
    pool = case["pool"]
    for _ in range(4 if thorough else 2):
        h, attr, T = r.choice(holders)
        mode = r.weighted([("genuine", 4), ("loose", 4), ("random", 2)])
        parts = None
        if mode == "genuine":
            t = r.choice([x for x in range(1, len(dump)) if dump[x]["name"]] or [None])
            if t is not None:
                pn = [dump[x]["name"] for x in path_ids(dump, t)[:-1]][::-1]
                if None not in pn:
                    k = r.below(len(pn))
                    parts = pn[k:]
        elif mode == "loose":
            cur, parts = h.id, []
            for _step in range(r.range(2, 4)):
                nxt = []
                for k, decl, cont, call, val in dump[cur]["attrs"]:
                    if k.startswith("_tx_"):
                        continue
                    if val[0] == "o" and val[1] is not None:
                        nxt.append(val[1])
                    elif val[0] == "m":
                        nxt += val[1]
                nxt = [x for x in nxt if dump[x]["name"]]
                if not nxt:
                    break
                cur = r.choice(nxt)
                parts.append(dump[cur]["name"])
        if not parts:
            parts = [r.choice(pool) for _ in range(r.range(1, 3))]
        text = ".".join(parts)
        t1, sites = render(nodes, gid, {(h.id, attr, 0): text})
        off = sites[(h.id, attr, 0)]
        line = t1.count("\n", 0, off) + 1
        col = off - (t1.rfind("\n", 0, off) + 1) + 1
        probes.append({"text": t1, "holder": h.id, "attr": attr, "index": 0, "probe": text, "T": T, "line": line, "col": col,
                       "off": off, "sites": {"%d %s %d" % k: v for k, v in sites.items()}})
    return probes


def state_at(dump, probe):
    """The object graph at the moment the probe reference is resolved: references whose text lies
    before the probe are resolved (textual order), the others are still None / absent."""
    sites = {tuple(k.split()): v for k, v in probe["sites"].items()}
    out = []
    for i, o in enumerate(dump):
        attrs = []
        for k, decl, cont, call, val in o["attrs"]:
            if decl and not cont:
                if val[0] == "o":
                    off = sites.get((str(i), k, "0"))
                    keep = off is not None and off < probe["off"] and not (i == probe["holder"] and k == probe["attr"])
                    val = val if keep else ["o", None]
                elif val[0] == "m":
                    kept = []
                    for j, x in enumerate(val[1]):
                        off = sites.get((str(i), k, str(j)))
                        if off is not None and off < probe["off"]:
                            kept.append(x)
                    val = ["m", kept]
            attrs.append([k, decl, cont, call, val])
        out.append({"cls": o["cls"], "name": o["name"], "attrs": attrs})
    return out


def load_corpus():
    out = []
    d = os.path.join(core.VERIF, "corpus", "C10")
    for f in sorted(glob.glob(os.path.join(d, "*.json"))):
        c = json.load(open(f))
        c["corpus"] = os.path.basename(f)
        out.append(c)
    return out


def owner_redir(dump):
    """redirection used by the runner's FQN(scope_redirection_logic=...): package -> [its resolved owner class]"""
    rd = {}
    for i, o in enumerate(dump):
        if o["cls"] == "Package":
            for k, decl, cont, call, val in o["attrs"]:
                if k == "owner" and val[0] == "o" and val[1] is not None:
                    rd[i] = [val[1]]
    return rd


def redir_queries(r, c):
    dump = c["dump"]
    texts = set()
    for p, (cl,) in c["redir"].items():
        pn = [dump[x]["name"] for x in path_ids(dump, p)[:-1]][::-1]
        kids = [dump[k]["name"] for k in d_children(dump, cl) + d_children(dump, p) if dump[k]["name"]]
        for k in kids + c["pool"]:
            texts.add(".".join(pn + [k]))
            texts.add(".".join(pn[-1:] + [k]))
            for k2 in r.sample(c["pool"], 1):
                texts.add(".".join(pn[-1:] + [k, k2]))
    texts |= {t for t, _ in r.sample(c["names"], min(12, len(c["names"])))}
    refs = sorted(set(c["referrers"][:2] + list(c["redir"])[:1]))
    return [[ref, t, r.weighted([("Class", 4), ("Elem", 4), ("Package", 2)])] for ref in refs for t in sorted(texts)]


def queries_of(c):
    return [[r, t, T] for r in c["referrers"] for t, T in c["names"]]


def eval_ext(chk, X, pycases, mlive, vals, failures, disagreements):
    """Plain-Python-object cases and several-file cases: model vs implementation, and the property oracle."""
    for c, mv in zip(pycases, vals[:len(pycases)]):
        dump, conf = c["py_dump"], c["py_conf"]
        queries = [[r, t, T] for r in c["py_refs_abs"] for t, T in c["py_names"]]
        chk.stat("trees with plain Python objects")
        chk.stat("plain Python objects", sum(1 for o in dump if o["cls"] == "PyObj"))
        manswers = mv.split("|")[1].split(",") if mv is not None else [None] * len(queries)
        if mv is not None and mv.split("|")[0][2] != "T":
            disagreements.append({"case": {"grammar": c["gid"], "text": c["text"], "py": c["py"]}, "model": "parents_decrease fails: " + mv.split("|")[0]})
        for (r, text, T), ia, ma in zip(queries, c["py_answers"], manswers):
            parts = text.split(".")
            i, ends = spec(dump, conf, r, parts, T)
            applies = unique_on(dump, parts)
            want = "U" if not ends else "F%d" % ends[0]
            chk.count(("py", c["text"], json.dumps(c["py"]), r, text, T), nontrivial=len(parts) >= 2)
            chk.stat("plain-object queries: " + ("resolved" if ia.startswith("F") else "unknown" if ia == "U" else "exception"))
            case = {"grammar": c["gid"], "text": c["text"], "py": c["py"], "referrer": r, "name": text, "target_class": T, "kind": "plain Python objects"}
            if ma is not None and ia != ma:
                disagreements.append({"case": case, "impl": ia, "model": ma})
            if (applies and ia != want) or ia.startswith("E:"):
                failures.append({"case": case, "impl": ia, "model": ma, "tags": [],
                                 "what": "FQN answers %s for %r from object %d; the chains over walked attributes give %s" % (ia, text, r, want)})
    for c, mv in zip(mlive, vals[len(pycases):]):
        o = c["out"]
        world, conf = o["world"], {tuple(p) for p in o["conf"]}
        locals_ = {int(k): v for k, v in o["locals"].items()}
        redir = {int(k): v for k, v in o["redir"].items()}
        chk.stat("several files: provider " + c["provider"])
        chk.stat("several files: models", len(o["roots"]))
        if o.get("builtins"):
            chk.stat("several files: cases with builtin models")
        names = [(x["cls"], x["name"]) for x in world[:len(c["nodes"])]]
        if names != [(nd.kind, nd.name) for nd in c["nodes"]]:
            raise RuntimeError("object numbering of the main file differs: %r" % (names,))
        manswers = mv.split("|")[1].split(",") if mv is not None and mv.split("|")[1] else [None] * len(c["queries"])
        if mv is not None and mv.split("|")[0] != "TT":
            disagreements.append({"case": {"files": c["files"]}, "model": "wf/parents flags " + mv.split("|")[0]})
        case0 = {"grammar": "D", "provider": c["provider"], "files": c["files"], "text": c["files"]["main.m"], "model_order": o.get("files")}
        # references of the main file, as resolved while parsing
        for h, attr, idx, text, T in X.main_refs(c):
            val = next(v for k, d_, c_, cl, v in world[h]["attrs"] if k == attr)
            got = val[1] if val[0] == "o" else (val[1][idx] if idx < len(val[1]) else None)
            parts = text.split(".")
            k, i, ends = X.spec_multi(world, conf, locals_, redir, h, parts, T, o.get("builtins", []))
            chk.count(("mref", json.dumps(c["files"], sort_keys=True), h, attr, idx), nontrivial=True)
            chk.stat("several files: parsed references resolved in " + ("own model" if k == 0 else "another model" if k else "?"))
            if X.unique_multi(world, redir, parts) and (not ends or got != ends[0]):
                failures.append({"case": dict(case0, holder=h, attr=attr, name=text, kind="reference resolved while parsing"), "impl": got, "tags": [],
                                 "what": "reference %r of object %d resolved to %s; the first model with a containment chain gives %s" % (text, h, got, ends[:1])})
        for (r, text, T), ia, ma in zip(c["queries"], o["answers"], manswers):
            parts = text.split(".")
            k, i, ends = X.spec_multi(world, conf, locals_, redir, r, parts, T, o.get("builtins", []))
            if k is not None and k > len(locals_.get(X.root_of(world, r), [])):
                chk.stat("several files: resolved in a builtin model")
            applies = X.unique_multi(world, redir, parts)
            want = "U" if not ends else "F%d" % ends[0]
            chk.count(("multi", json.dumps(c["files"], sort_keys=True), c["provider"], r, text, T), nontrivial=len(parts) >= 2 or bool(k))
            chk.stat("several files: " + ("resolved in own model" if ia.startswith("F") and k == 0 else "resolved in another model" if ia.startswith("F")
                                          else "unknown" if ia == "U" else "other"))
            case = dict(case0, referrer=r, name=text, target_class=T, kind="direct provider call (several files)")
            if ma is not None and ia != ma:
                disagreements.append({"case": case, "impl": ia, "model": ma})
            if (applies and ia != want) or ia.startswith("E:") or ia == "P":
                failures.append({"case": case, "impl": ia, "model": ma, "tags": [],
                                 "what": "provider answers %s for %r from object %d; the first model (own, then local models in order) with a chain gives %s" % (ia, text, r, want)})


def run(chk):
    t0 = time.time()
    chk.prove([fqn_tr.translate])
    ph = chk.cov.setdefault("phase_s", {})
    ph["prove"] = round(time.time() - t0, 1)
    t0 = time.time()
    thorough = chk.thorough
    n_trees = 600 if thorough else 64
    cases = []
    for c in load_corpus():
        cases.append({"gid": c["gid"], "text": c["text"], "referrers": c["referrers"], "names": c["names"], "probes": c.get("e2e", []),
                      "corpus": c["corpus"], "nodes": None, "pool": c.get("pool", ["a", "b"]), "idx": c["corpus"]})
    for i in range(n_trees):
        cases.append(gen_case(chk.rng.split(i), i, thorough))
    from props import c10_ext as X
    small = X.small_trees(4 if thorough else 2, ["a", "b"])
    for k, t in enumerate(small):
        n_obj = t.count("package ") + t.count("class ")
        ts = ["Class", "Elem", "Package"]
        cases.append({"gid": "A", "text": t, "referrers": [0, n_obj], "nodes": None, "pool": ["a", "b"], "idx": "s%d" % k, "probes": [],
                      "names": [[nm, ts[(k + j) % 3]] for j, nm in enumerate(X.all_names(["a", "b"], 3))], "exhaustive": True})
    multi = [X.gen_multi_case(chk.rng.split("m%d" % i), i) for i in range(120 if thorough else 16)]
    mchunks = [multi[i::core.NPROC] for i in range(core.NPROC)]
    # pass 1: parse and dump every tree
    chunks = [cases[i::core.NPROC] for i in range(core.NPROC)]
    chunks += [[] for _ in range(core.NPROC - len(chunks))]

    def payload(chunk, with_queries, mchunk=()):
        return {"grammars": GRAMMARS, "classes": CLASSES, "user_classes": USER_CLASSES,
                "cases": [{"gid": c["gid"], "text": c["text"], "queries": queries_of(c) if with_queries else [],
                           "py": c.get("py") if with_queries else None,
                           "redir_queries": c.get("redir_queries", []) if with_queries else [],
                           "post_queries": c.get("post_queries", []) if with_queries else [],
                           "py_queries": [[r, t, T] for r in c["py_refs"] for t, T in c["py_names"]] if with_queries and c.get("py") else [],
                           "e2e": [{"text": p["text"], "holder": p["holder"], "attr": p["attr"], "index": p.get("index", 0)}
                                   for p in c.get("probes", [])] if with_queries else []} for c in chunk],
                "multi": [{"gid": c["gid"], "provider": c["provider"], "files": c["files"], "main": c["main"], "builtins": c.get("builtins", []),
                           "queries": c.get("queries", []) if with_queries else []} for c in mchunk]}
    outs = core.run_impl_parallel("c10", [payload(ch, False, mch) for ch, mch in zip(chunks, mchunks)])
    for mch, o in zip(mchunks, outs):
        for c, x in zip(mch, o[len(o) - len(mch):]):
            c["out"] = x
    failures, disagreements = [], []
    ph["parse+dump"] = round(time.time() - t0, 1)
    t0 = time.time()
    for ch, o in zip(chunks, outs):
        for c, x in zip(ch, o):
            c["dump"], c["conf"], c["base_error"] = x["dump"], {tuple(p) for p in x["conf"]}, x["error"]
            c["foreign"] = x["foreign"]
    live = []
    for c in cases:
        if c["dump"] is None:
            # the generated references were chosen to be resolvable
            what = "a model whose references all name existing objects is rejected: %s" % (c["base_error"],)
            if c.get("unique", True):
                failures.append({"case": {"grammar": c["gid"], "text": c["text"]}, "what": what, "tags": [], "impl": c["base_error"]})
            else:
                disagreements.append({"case": {"grammar": c["gid"], "text": c["text"]}, "impl": c["base_error"],
                                      "model": "first-match resolver accepted every reference"})
            continue
        if c["nodes"] is not None:
            got = [(o["cls"], o["name"]) for o in c["dump"]]
            want = [(nd.kind, nd.name) for nd in c["nodes"]]
            if got != want:
                raise RuntimeError("object numbering of the runner differs from the generator's: %r vs %r" % (got, want))
            r = chk.rng.split("q%s" % c["idx"])
            c["referrers"], c["names"] = gen_queries(r, c, c["dump"], c["conf"], thorough)
            c["probes"] = gen_probes(r.split("p"), c, c["dump"], c["conf"], thorough)
            if isinstance(c["idx"], int) and c["idx"] % 4 != 0:
                c["redir"] = owner_redir(c["dump"])
                if c["redir"]:
                    c["redir_queries"] = redir_queries(r.split("rd"), c)
                    rp = r.split("post")
                    n_obj = len(c["dump"])
                    c["post_queries"] = [[q[0], q[1], q[2], sorted(set(rp.sample(list(c["redir"]), 1) + rp.sample(list(range(1, n_obj)), rp.range(0, 2))))]
                                         for q in rp.sample(c["redir_queries"], min(12, len(c["redir_queries"])))]
            if isinstance(c["idx"], int) and c["idx"] % 4 == 0 and c["gid"] in ("A", "B"):
                c["py"], c["py_refs"], c["py_names"] = X.gen_py(r.split("py"), c, c["dump"])
        live.append(c)
    mlive = []
    for c in multi:
        if c["out"]["world"] is None:
            failures.append({"case": {"grammar": "D", "provider": c["provider"], "files": c["files"], "text": c["files"]["main.m"]}, "tags": [],
                             "impl": c["out"]["error"],
                             "what": "files whose references all name existing objects (own file, imported files, aliases) are rejected: %s" % (c["out"]["error"],)})
            continue
        c["queries"] = X.multi_queries(chk.rng.split("mq%d" % c["idx"]), c, c["out"])
        mlive.append(c)
    # pass 2: queries and probes
    chunks = [live[i::core.NPROC] for i in range(core.NPROC)]
    mchunks = [mlive[i::core.NPROC] for i in range(core.NPROC)]
    outs = core.run_impl_parallel("c10", [payload(ch, True, mch) for ch, mch in zip(chunks, mchunks)])
    for ch, mch, o in zip(chunks, mchunks, outs):
        for c, x in zip(ch, o):
            if x["dump"] != c["dump"]:
                raise RuntimeError("the runner is not deterministic on %r" % c["text"])
            c["answers"], c["e2e_out"] = x["answers"], x["e2e"]
            c["py_dump"], c["py_answers"] = x.get("py_dump"), x.get("py_answers")
            c["redir_answers"] = x.get("redir_answers")
            c["post_answers"] = x.get("post_answers")
            c["py_conf"] = {tuple(p) for p in x.get("py_conf") or []}
        for c, x in zip(mch, o[len(o) - len(mch):]):
            if x["world"] != c["out"]["world"] or x["locals"] != c["out"]["locals"]:
                raise RuntimeError("the runner is not deterministic on %r" % c["files"])
            c["out"] = x
    ph["queries"] = round(time.time() - t0, 1)
    t0 = time.time()
    # the model on the same cases
    for c in live:
        c["queries"] = queries_of(c)
    exprs = [coq_case(c["dump"], c["conf"], c["referrers"], c["names"], c["probes"]) for c in live]
    pycases = [c for c in live if c.get("py_dump")]
    for c in pycases:
        c["py_refs_abs"] = [r if r >= 0 else len(c["py_dump"]) + r for r in c["py_refs"]]
        exprs.append(coq_case(c["py_dump"], c["py_conf"], c["py_refs_abs"], c["py_names"]))
    for c in mlive:
        exprs.append(X.coq_multi(c, c["out"], c["queries"]))
    rcases = [c for c in live if c.get("redir_queries")]
    for c in rcases:
        rd = "; ".join("(%d, [%s])" % (k, ";".join("%d" % x for x in v)) for k, v in sorted(c["redir"].items()))
        qs = "; ".join("(%d, %s, %d)" % (r, coq_s(t), CID[T]) for r, t, T in c["redir_queries"])
        exprs.append("show_redir %s %s [%s] [%s]" % (coq_conf(c["conf"]), coq_tbl(c["dump"]), rd, qs))
    pcases = [c for c in rcases if c.get("post_answers")]
    for c in pcases:
        rd = "; ".join("(%d, [%s])" % (k, ";".join("%d" % x for x in v)) for k, v in sorted(c["redir"].items()))
        c["post_rounds"] = [(q, before, a) for q, rounds in zip(c["post_queries"], c["post_answers"]) for before, a in rounds]
        qs = "; ".join("(%d, %s, %d, [%s])" % (q[0], coq_s(q[1]), CID[q[2]], ";".join("%d" % x for x in before)) for q, before, a in c["post_rounds"])
        exprs.append("show_post %s %s [%s] [%s]" % (coq_conf(c["conf"]), coq_tbl(c["dump"]), rd, qs))
    allx, defs = compress(exprs)
    # interleave so that the shards are balanced
    order = sorted(range(len(allx)), key=lambda i: (i % core.NPROC, i))
    svals, errs = core.coq_eval("C10", IMPORTS, [allx[i] for i in order], shard=400, defs=defs)
    vals = [None] * len(allx)
    for i, v in zip(order, svals):
        vals[i] = v
    pidx, pvals = [], []
    for ci, c in enumerate(live):
        pv = vals[ci].split("|")[2].split(",") if vals[ci] is not None and vals[ci].count("|") == 2 else []
        for pi, p in enumerate(c["probes"]):
            pidx.append((ci, pi))
            pvals.append(pv[pi] if pi < len(pv) and len(pv) == len(c["probes"]) else None)
    if errs:
        disagreements.append({"case": "coq evaluation", "model": errs[:2]})
    ph["coq_eval"] = round(time.time() - t0, 1)
    n_sens = 0
    eval_ext(chk, X, pycases, mlive, vals[len(live):], failures, disagreements)
    for c, mv in zip(pcases, vals[len(live) + len(pycases) + len(mlive) + len(rcases):]):
        manswers = mv.split("|")[1].split(",") if mv is not None else [None] * len(c["post_rounds"])
        for (q, before, ia), ma in zip(c["post_rounds"], manswers):
            chk.count(("post", c["gid"], c["text"], q[0], q[1], q[2], tuple(before)), nontrivial=ia == "P")
            chk.stat("Postponed callback rounds: " + ("postponed" if ia == "P" else "answered"))
            case = {"grammar": c["gid"], "text": c["text"], "referrer": q[0], "name": q[1], "target_class": q[2], "callback_postpones": before,
                    "kind": "FQN(scope_redirection_logic answering Postponed once for some objects)"}
            if ma is not None and ia != ma:
                disagreements.append({"case": case, "impl": ia, "model": ma})
        for q, rounds in zip(c["post_queries"], c["post_answers"]):
            parts = q[1].split(".")
            k, i, ends = X.spec_multi(c["dump"], c["conf"], {}, c["redir"], q[0], parts, q[2])
            want = "U" if not ends else "F%d" % ends[0]
            last = rounds[-1][1]
            if last == "P" or last.startswith("E:") or (X.unique_multi(c["dump"], c["redir"], parts) and last != want):
                failures.append({"case": {"grammar": c["gid"], "text": c["text"], "referrer": q[0], "name": q[1], "target_class": q[2], "callback_postpones": q[3],
                                          "kind": "FQN(scope_redirection_logic answering Postponed once for some objects)"}, "impl": rounds, "tags": [],
                                 "what": "after the postponed rounds %r the provider answers %s for %r; chains over contained and stand-in objects give %s" % (rounds, last, q[1], want)})
    for c, mv in zip(rcases, vals[len(live) + len(pycases) + len(mlive):]):
        manswers = mv.split("|")[1].split(",") if mv is not None else [None] * len(c["redir_queries"])
        chk.stat("trees queried with a scope_redirection_logic")
        for (r, text, T), ia, ma in zip(c["redir_queries"], c["redir_answers"], manswers):
            parts = text.split(".")
            k, i, ends = X.spec_multi(c["dump"], c["conf"], {}, c["redir"], r, parts, T)
            plain = spec(c["dump"], c["conf"], r, parts, T)[1]
            want = "U" if not ends else "F%d" % ends[0]
            chk.count(("redir", c["gid"], c["text"], r, text, T), nontrivial=ends != plain)
            chk.stat("redirection queries: " + ("resolved only through a stand-in object" if ends and not plain else "resolved" if ends else "unknown"))
            case = {"grammar": c["gid"], "text": c["text"], "referrer": r, "name": text, "target_class": T,
                    "kind": "FQN(scope_redirection_logic: the owner class stands in for its package)"}
            if ma is not None and ia != ma:
                disagreements.append({"case": case, "impl": ia, "model": ma})
            if (X.unique_multi(c["dump"], c["redir"], parts) and ia != want) or ia.startswith("E:") or ia == "P":
                failures.append({"case": case, "impl": ia, "model": ma, "tags": [],
                                 "what": "with redirection the provider answers %s for %r from object %d; chains over contained and stand-in objects give %s" % (ia, text, r, want)})
    for c, mv in zip(live, vals):
        dump, conf = c["dump"], c["conf"]
        uniq_all = all(unique_on(dump, [nm]) for nm in {o["name"] for o in dump if o["name"] is not None})
        chk.stat("trees grammar %s" % c["gid"])
        chk.stat("trees with unique sibling names" if uniq_all else "trees with duplicate sibling names")
        chk.stat("objects", len(dump))
        if c["foreign"]:
            chk.stat("foreign named values", c["foreign"])
        if mv is None:
            continue
        flags, body = mv.split("|")[0], mv.split("|")[1]
        manswers = body.split(",") if body else []
        if flags != "T" + ("T" if uniq_all else "F") + "T":
            disagreements.append({"case": {"grammar": c["gid"], "text": c["text"]}, "impl": "wf=T unique=%s" % uniq_all,
                                  "model": "wf/unique flags " + flags})
        if len(manswers) != len(c["queries"]):
            disagreements.append({"case": {"grammar": c["gid"], "text": c["text"]}, "model": "answer count %d" % len(manswers)})
            continue
        for (r, text, T), ia, ma in zip(c["queries"], c["answers"], manswers):
            parts = text.split(".")
            i, ends = spec(dump, conf, r, parts, T)
            applies = unique_on(dump, parts)
            lo = walk_resolve(dump, conf, r, parts, T, loose)
            want = "U" if not ends else "F%d" % ends[0]
            sens = applies and (("U" if lo is None else "F%d" % lo) != want)
            n_sens += sens
            chk.count((c["gid"], c["text"], r, text, T), nontrivial=len(parts) >= 2 or (i or 0) > 0)
            chk.stat("queries %d part(s)" % min(len(parts), 4))
            chk.stat("direct: " + ("resolved" if ia.startswith("F") else "unknown" if ia == "U" else "exception"))
            case = {"grammar": c["gid"], "text": c["text"], "referrer": r, "name": text, "target_class": T, "kind": "direct provider call"}
            if ia != ma:
                disagreements.append({"case": case, "impl": ia, "model": ma})
            if applies and ia != want:
                failures.append({"case": case, "impl": ia, "model": ma, "tags": [],
                                 "what": "FQN answers %s for %r from object %d; the containment chains give %s (nearest scope index %s)" % (ia, text, r, want, i)})
            elif ia.startswith("E:"):
                failures.append({"case": case, "impl": ia, "model": ma, "tags": [], "what": "provider raised " + ia})
        if c["queries"] and len(chk.cov["samples"]) < 3:
            k = next((j for j, a in enumerate(c["answers"]) if a.startswith("F") and "." in c["queries"][j][1]), 0)
            chk.sample({"grammar": c["gid"], "text": c["text"], "query": c["queries"][k], "impl": c["answers"][k]})
    for (ci, pi), mv in zip(pidx, pvals):
        c = live[ci]
        p, o = c["probes"][pi], c["e2e_out"][pi]
        dump, conf = c["dump"], c["conf"]
        parts = p["probe"].split(".")
        i, ends = spec(dump, conf, p["holder"], parts, p["T"])
        applies = unique_on(dump, parts)
        want = "U" if not ends else "F%d" % ends[0]
        if o["ok"]:
            ia = "F%s" % o["target"]
        elif o["type"] == "TextXSemanticError" and o["msg"] == 'Unknown object "%s" of class "%s"' % (p["probe"], p["T"]) \
                and (o["line"], o["col"]) == (p["line"], p["col"]):
            ia = "U"
        else:
            ia = "E:%s %s at %s:%s" % (o["type"], o["msg"], o["line"], o["col"])
        ma = mv
        chk.count((c["gid"], p["text"]), nontrivial=True)
        chk.stat("e2e: " + ("resolved" if ia.startswith("F") else "unknown object error" if ia == "U" else "other"))
        case = {"grammar": c["gid"], "text": p["text"], "probe": p["probe"], "holder": p["holder"], "attr": p["attr"],
                "target_class": p["T"], "kind": "model_from_str", "expected_error_at": [p["line"], p["col"]]}
        if mv is not None and ia != ma:
            disagreements.append({"case": case, "impl": ia, "model": ma})
        if (applies and ia != want) or ia.startswith("E:"):
            failures.append({"case": case, "impl": ia, "model": ma, "tags": [],
                             "what": "parsing gives %s for reference %r of object %d; the containment chains give %s" % (ia, p["probe"], p["holder"], want)})
    chk.stat("queries whose answer a walk through parent/reference attributes would change", n_sens)
    chk.cov["disagreements_checked"] = sum(len(c["queries"]) + len(c["probes"]) for c in live)
    chk.cov["rule"] = ("generated models of nested packages/classes (grammars A/B with different attribute orders, C = A with user classes; single and list containment; "
                       "named non-target objects (alias) and unnamed ones (use); 2-4 names reused at all depths; ~20% trees with duplicate sibling names; "
                       "resolved base/uses/owner/target references) parsed by textX with the FQN provider; per tree the provider is called directly from the root, the "
                       "deepest objects and random objects with every 1-2 part name over the names present, 3-part names, existing long paths, names obtained by walking parent and "
                       "reference attributes, malformed texts, against varying target classes; plus end-to-end parses with one reference replaced by a probe name. "
                       "Also: several-file models (grammar D with imports; FQNImportURI, importAs aliases, FQNGlobalRepo): parsed references and direct calls; a custom scope_redirection_logic (owner class stands in for its package); "
                       "plain Python object graphs hung into parsed models; exhaustive small trees (<= 2 objects quick, <= 4 thorough, names a/b, all dotted names <= 3 parts). "
                       "non-trivial = name with >= 2 parts or resolved from an ancestor scope / another model / through a stand-in; distinct by (text, referrer, name, class)")
    chk.assumptions += ["translator fqn_tr.py: the attribute filter of find_obj is translated; the remaining statements of FQN.__call__ are compared with the transcribed shape (fail closed)",
                        "several files: the content and order of local_models is observed (dumped by the runner), not derived; redirection callbacks used: importAs (loaded models) and owner class of a package; none returns Postponed",
                        "object tables are dumped through __dict__, type(obj)._tx_attrs and callable() by tools/impl/c10.py",
                        "textx_isinstance is an oracle (conf) in the model; its table is read from the implementation per case"]
    # smallest inputs first: the replay files then show the simplest failing model
    failures.sort(key=lambda f: (len(f["case"].get("text", "")) if isinstance(f["case"], dict) else 0))
    disagreements.sort(key=lambda f: (len(f["case"].get("text", "")) if isinstance(f["case"], dict) else 0))
    decide(chk, failures, disagreements)


def replay(rep):
    case = rep.get("case")
    print(json.dumps(rep, indent=1))
    if not isinstance(case, dict) or "text" not in case:
        return 0
    if case.get("kind") == "direct provider call":
        pl = {"grammars": GRAMMARS, "classes": CLASSES, "user_classes": USER_CLASSES, "cases": [{"gid": case["grammar"], "text": case["text"],
              "queries": [[case["referrer"], case["name"], case["target_class"]]], "e2e": []}]}
        out = core.run_impl("c10", pl)[0]
        print("implementation now answers:", out["answers"] or out["error"])
    else:
        pl = {"grammars": GRAMMARS, "classes": CLASSES, "user_classes": USER_CLASSES, "cases": [{"gid": case["grammar"], "text": case["text"], "queries": [], "e2e": []}]}
        out = core.run_impl("c10", pl)[0]
        print("implementation now:", "parsed" if out["dump"] is not None else out["error"])
    return 0
