"""C20 - ignore_case makes grammar literals case-insensitive.

Pipeline: translator kw_tr (textx/lang.py -> Gen/SrcKw.v) -> Props/C20.v (terminal congruence of the
interpreter model, case invariance, case-blind literal terminals, values are input slices, refutation for
case-sensitive built-ins) -> generated grammars with keyword and regex literals, ignore_case=True, x accepted
inputs x case variations of the characters matched by literal terminals (tools/impl/c20.py on the real
textX) -> correspondence (Coq interpreter on the dumped parser model vs the real parser, on originals and
variants; decidable instance of the theorem's hypotheses evaluated in Coq) -> property oracle on the
implementation (same outcome, same model structure, values keep their case; every literal terminal of the
dumped parser model is case-insensitive) -> decide.
"""
import json
import os
import re

from vt import core
from vt.main import decide
from translate import kw_tr
import pegdump
from props import kw_common as K
from props import build_common as B
import mmdump

CORPUS_DIR = os.path.join(core.VERIF, "corpus", "C20")


def corpus_cases():
    cases = []
    if os.path.isdir(CORPUS_DIR):
        for f in sorted(os.listdir(CORPUS_DIR)):
            if f.endswith(".json"):
                c = json.load(open(os.path.join(CORPUS_DIR, f)))
                c["tag"] = "corpus:" + f
                cases.append(c)
    return cases


def gen_cases(chk, n, per):
    G = K.gen("c20")
    cases = corpus_cases()
    for i in range(n):
        r = chk.rng.split("g%d" % i)
        style = r.weighted([("plain", 5), ("ctx", 3)])
        feats = {"plain": dict(modifiers=False, eolterm=False, comment=r.chance(0.25)), "ctx": dict()}[style]
        g = G.gen_grammar(r, feats)
        opts = {"ignore_case": True}
        if r.chance(0.4):
            opts["autokwd"] = True
        if r.chance(0.1):
            opts["skipws"] = False
        if r.chance(0.1):
            opts["ws"] = r.choice([" ", " \t", "\n "])
        if r.chance(0.15):
            opts["use_regexp_group"] = True
        inputs = []
        for k in range(per):
            ri = r.split("i%d" % k)
            t = G.gen_input(ri, g, opts)
            if ri.chance(0.35):          # the writer's own casing
                t = "".join(c.swapcase() if ri.chance(0.4) else c for c in t)
            inputs.append(t)
        cases.append({"grammar": G.grammar_text(g), "opts": opts, "inputs": inputs, "tag": style,
                      "masks": [r.below(1 << 30) for _ in range(3)]})
    return cases


def literal_flags(dump):
    """(nodes that must be case-insensitive but are not, description)"""
    bad = []
    for nid, n in enumerate(dump["nodes"]):
        if n["kind"] == "KStr":
            if n["oid"] is None:
                bad.append("StrMatch %r (node %d) is case sensitive" % (n["text"], nid))
        elif n["kind"] == "KRegex" and not dump["builtin"][nid]:
            o = dump["oracles"][n["oid"]]
            if not (o[2] & re.IGNORECASE):
                bad.append("RegExMatch %r (node %d) compiled without IGNORECASE" % (o[1], nid))
    return bad


def table_diff_oids(t1, t2):
    a = {}
    for o, p, l in t1:
        a.setdefault(o, set()).add((p, l))
    b = {}
    for o, p, l in t2:
        b.setdefault(o, set()).add((p, l))
    return sorted(o for o in set(a) | set(b) if a.get(o, set()) != b.get(o, set()))


def oid_nodes(dump):
    m = {}
    for nid, n in enumerate(dump["nodes"]):
        if n["oid"] is not None:
            m.setdefault(n["oid"], []).append(nid)
    return m


def run(chk):
    chk.prove([kw_tr.translate])
    n, per = (400, 4) if chk.thorough else (90, 3)
    cases = gen_cases(chk, n, per)
    for c in cases:
        c.setdefault("masks", [5, 11, 1023])
    all_upto, maxv = (5, 40) if chk.thorough else (3, 9)
    idx = [list(range(i, len(cases), core.NPROC)) for i in range(core.NPROC)]
    idx = [ix for ix in idx if ix]
    outs = core.run_impl_parallel("c20", [{"mode": "c20", "cases": [
        {"grammar": cases[i]["grammar"], "opts": cases[i]["opts"], "inputs": cases[i]["inputs"], "masks": cases[i]["masks"],
         "all_upto": all_upto, "max_variants": maxv} for i in ix]} for ix in idx])
    results = [None] * len(cases)
    for ix, o in zip(idx, outs):
        for i, x in zip(ix, o):
            results[i] = x

    # ---------------------------------------------------------------- Coq side
    per_case = []
    nbuild, build_budget = [0], (300 if chk.thorough else 45)
    for ci, (case, res) in enumerate(zip(cases, results)):
        d = res.get("dump")
        if d is None:
            continue
        texts = list(case["inputs"]) + K.literal_texts(d) + [v["input"] for r_ in res["runs"] for v in r_.get("variants", [])]
        _, _, lo = K.class_extras(texts)
        lets = [("g", pegdump.coq_grammar(d)), ("c", pegdump.coq_config(d)), ("lo", "lower_of %s" % K.coq_pairs(lo))]
        if res.get("mm") is not None:
            lets.append(("m", mmdump.coq_mm(res["mm"])))
        parts, keys = [], []
        for ii, (text, run_) in enumerate(zip(case["inputs"], res["runs"])):
            if run_.get("timeout") or run_.get("unsupported"):
                continue
            parts.append("show_outcome g (run g c (orc_of %s) false %d %s)" % (pegdump.coq_table(run_["table"]), K.FUEL, pegdump.coq_str(text)))
            keys.append((ci, ii, -1))
            for vi, v in enumerate(run_.get("variants", [])):
                parts.append("show_bool (c20_hyp_b lo g c %s %s %s %s) ++ \"|\" ++ show_outcome g (run g c (orc_of %s) false %d %s)" % (
                    pegdump.coq_table(run_["table"]), pegdump.coq_table(v["table"]), pegdump.coq_str(text), pegdump.coq_str(v["input"]),
                    pegdump.coq_table(v["table"]), K.FUEL, pegdump.coq_str(v["input"])))
                keys.append((ci, ii, vi))
            # model level, on a sample: parse + Model/Build.v on the original and on (at most two of) its variants
            if res.get("mm") is not None and run_.get("variants") and nbuild[0] < build_budget and (case.get("tag", "").startswith("corpus") or (ci + ii) % 2 == 0):
                nbuild[0] += 1
                parts.append(K.build_part("g", "c", "m", run_, res, text))
                keys.append((ci, ii, "b", -1))
                for vi, v in enumerate(run_["variants"][:2]):
                    parts.append(K.build_part("g", "c", "m", v, res, v["input"]))
                    keys.append((ci, ii, "b", vi))
        if parts:
            per_case.append((lets, parts, keys))
    mvals, errs = K.eval_cases("C20", per_case)
    disagreements, failures = [], []
    if errs:
        disagreements.append({"case": "coq evaluation", "model": errs[:2]})
        chk.notes.append("coq evaluation errors: " + " || ".join(e[-600:] for e in errs[:3]))

    nvar = nhyp = 0
    nmodel = [0]
    for ci, (case, res) in enumerate(zip(cases, results)):
        if res["grammar_error"]:
            chk.stat("grammar rejected: " + res["grammar_error"].split(":")[0])
            continue
        d = res["dump"]
        ginfo = {"grammar": case["grammar"], "opts": case["opts"], "tag": case.get("tag")}
        chk.stat("grammars: autokwd=%s" % bool(case["opts"].get("autokwd")))
        # ---- property (compile part): every literal terminal of the real parser model is case-insensitive
        bad = literal_flags(d)
        if bad:
            failures.append({"case": ginfo, "what": "ignore_case=True but " + "; ".join(bad[:3]), "tags": []})
        onodes = oid_nodes(d)
        for ii, (text, run_) in enumerate(zip(case["inputs"], res["runs"])):
            if run_.get("timeout") or run_.get("unsupported"):
                chk.stat("input skipped (timeout/unsupported)")
                continue
            cinfo = dict(ginfo, input=text)
            t0, m0 = run_["tree"], run_["model"]
            chk.stat("inputs: %s" % t0[:1])
            mv = mvals.get((ci, ii, -1))
            if not K.model_equiv_impl(mv, t0):
                disagreements.append({"case": cinfo, "impl": t0, "model": mv})
            if t0.startswith("P:") and not m0["ok"] and m0["err"] == "syntax":
                disagreements.append({"case": cinfo, "impl": [t0, m0], "model": "textX-level syntax error but Arpeggio-level accept"})
            if t0.startswith("E:") and (m0["ok"] or m0["err"] != "syntax" or "E:%s" % m0["pos"] != t0):
                disagreements.append({"case": cinfo, "impl": [t0, m0], "model": "textX-level outcome differs from Arpeggio-level error"})
            if not t0.startswith("P:"):
                chk.count(json.dumps([case["grammar"], case["opts"], text]), nontrivial=False)
                continue
            if not run_.get("values_ok", True):
                failures.append({"case": cinfo, "what": "a terminal's value is neither the grammar literal (StrMatch) nor the input slice (RegExMatch)", "tags": []})
            chk.stat("literal-matched cased letters: %s" % (min(len(run_["lit_pos"]), 8)))
            if not run_["variants"]:
                chk.count(json.dumps([case["grammar"], case["opts"], text]), nontrivial=False)
            # ---- model level (sample): Coq Build vs the implementation's model; original vs variants related
            b0 = mvals.get((ci, ii, "b", -1))
            if b0 is not None:
                mo0 = B.model_outcome(b0)
                if mo0.get("err") in ("unsup",) or str(mo0.get("err", "")).startswith("eval:"):
                    chk.stat("model level: outside the fragment of Model/Build.v")
                else:
                    chk.stat("model level: originals built in Coq")
                    if res.get("use_grp"):
                        chk.stat("model level: ... of which with use_regexp_group")
                    if not B.outcomes_agree(mo0, run_["model01"]):
                        disagreements.append({"case": cinfo, "impl": run_["model01"], "model": mo0, "what": "Model/Build.v vs model_from_str"})
                    for vi, v in enumerate(run_["variants"][:2]):
                        bv = mvals.get((ci, ii, "b", vi))
                        if bv is None:
                            continue
                        mov = B.model_outcome(bv)
                        nmodel[0] += 1
                        if not B.outcomes_agree(mov, v["model01"]):
                            disagreements.append({"case": dict(cinfo, variant=v["input"]), "impl": v["model01"], "model": mov, "what": "Model/Build.v vs model_from_str"})
                        # C20_model_structure instance (evaluated): the two Coq object graphs are related up to case
                        same = (mo0["ok"] and mov["ok"] and K.shape_rel(mo0["value"], mov["value"], False)) or (not mo0["ok"] and mo0 == mov)
                        hypv = (mvals.get((ci, ii, vi)) or "?").startswith("T")
                        if hypv and not same:
                            disagreements.append({"case": dict(cinfo, variant=v["input"]), "impl": None, "model": [mo0, mov], "what": "C20_model_structure instance contradicted by evaluation"})
                        # and on the implementation (C01/C06 dump format: positions, locations, parents)
                        i0, iv = run_["model01"], v["model01"]
                        same_i = (i0["ok"] and iv["ok"] and K.shape_rel(B.strip_impl(i0["value"]), B.strip_impl(iv["value"]), False)) or (not i0["ok"] and i0.get("err") == iv.get("err"))
                        if hypv and not same_i:
                            failures.append({"case": dict(cinfo, variant=v["input"]), "what": "object graph changes beyond the letter case of strings", "tags": [], "impl": [i0, iv]})
            for vi, v in enumerate(run_["variants"]):
                nvar += 1
                t1, m1, text1 = v["tree"], v["model"], v["input"]
                vinfo = dict(cinfo, variant=text1)
                chk.count(json.dumps([case["grammar"], case["opts"], text, text1]), nontrivial=True)
                mv1 = mvals.get((ci, ii, vi))
                hyp, _, mo1 = (mv1 or "?|").partition("|")
                if mv1 is None or not K.model_equiv_impl(mo1, t1):
                    disagreements.append({"case": vinfo, "impl": t1, "model": mv1})
                # which oracles answer differently on the two texts
                diff = table_diff_oids(run_["table"], v["table"])
                tags = []
                for o in diff:
                    nids = onodes.get(o, [])
                    if nids and all(d["builtin"][x] for x in nids):
                        tags.append("case_sensitive_builtin")
                    else:
                        # a terminal flagged case-insensitive that looks at case: the assumption about re / str.lower is broken
                        if not bad:
                            disagreements.append({"case": vinfo, "impl": "oracle %d (%r) answers differently on the case variant" % (o, d["oracles"][o]),
                                                  "model": "IGNORECASE terminals are case blind"})
                hyp_expected = all(n_["kind"] != "KStr" or n_["oid"] is not None for n_ in d["nodes"]) and not diff
                if hyp == "T":
                    nhyp += 1
                    chk.stat("variants: hypotheses of C20_invariant hold")
                    # theorem instance: the model outcome on the variant equals the one on the original
                    if mv is not None and mo1 != mv:
                        disagreements.append({"case": vinfo, "impl": None, "model": [mv, mo1], "what": "theorem instance contradicted by evaluation"})
                else:
                    chk.stat("variants: outside the hypotheses (%s)" % ("case-sensitive built-in" if tags else "other"))
                if (hyp == "T") != hyp_expected and mv1 is not None:
                    disagreements.append({"case": vinfo, "impl": {"literal_flags": bad, "tables_differ_on": diff}, "model": "c20_hyp_b = " + hyp})
                # ---- property oracle on the implementation
                what = None
                notes = []
                if t1 != t0:
                    what = "parse outcome changes with the letter case of literal-matched text: %s -> %s" % (t0[:160], t1[:160])
                elif not (m0["ok"] and m1["ok"]):
                    if m0 != m1:
                        what = "model_from_str outcome changes: %r -> %r" % (m0, m1)
                elif not K.model_struct_equal(m0["model"], m1["model"], text, text1, notes):
                    what = "model structure / values change: %s" % ("; ".join(notes) or "structures differ")
                if what:
                    chk.stat("impl: case variant changes the outcome")
                    failures.append({"case": vinfo, "what": what, "tags": tags, "impl": [t0, t1], "model": [mv, mv1]})
                if nvar % 97 == 5:
                    chk.sample({"grammar": case["grammar"], "opts": case["opts"], "input": text, "variant": text1, "outcome": t1[:100]})
    chk.cov["variants"] = nvar
    chk.cov["variants_built_in_coq"] = nmodel[0]
    chk.cov["variants_under_hypotheses"] = nhyp
    chk.cov["rule"] = ("generated textX grammars (2-6 rules; sequences, choices, repetitions with keyword/symbol/regex separators, predicates, "
                       "assignments, base types incl. BOOL, user regexes with letter classes, keyword literals in mixed case, literals with "
                       "non-ASCII letters, optional Comment rule, rule modifiers) built with ignore_case=True (40%% also autokwd; skipws/ws "
                       "options) x inputs derived from the grammar (35%% re-cased by the writer) x case variations of the cased letters matched by "
                       "literal terminals of the accepting parse (all subsets up to %d letters, else all-swapped, each single letter, random "
                       "subsets); every original and variant parsed by the real textX and by the Coq interpreter on the dumped parser model; "
                       "non-trivial = a variant of an accepted input; distinct by (grammar, options, input, variant)" % all_upto)
    chk.assumptions += ["tools/pegdump.py dumps the live Arpeggio parser model faithfully (fail closed on unknown node types)",
                        "Python's re with re.IGNORECASE and str.lower() comparison do not depend on the case of (single-character-folding) letters: "
                        "checked on every variant by comparing the oracle tables of original and variant",
                        "Arpeggio (StrMatch._parse, RegExMatch.compile flags, the interpreter) is modelled, validated by this correspondence, not verified",
                        "model structure at textX level (objects, attributes, positions, values) is compared on the implementation, not derived in Coq"]
    failures.sort(key=lambda f: 0 if isinstance(f.get("case"), dict) and "variant" in f["case"] else 1)   # concrete failing inputs first
    decide(chk, failures, disagreements)
