"""C17 — multi-file models load each file once and share element identity."""
from vt import core
from vt.main import decide
from props import repo_common as rc
from translate import repo_tr

replay = rc.replay


def run(chk):
    chk.prove([repo_tr.translate])
    cases = rc.corpus_cases("C17")
    # small import graphs, exhaustively: every digraph (with self imports) on 2 files, and on 3 files in the thorough tier
    for prov in rc.PROVIDERS:
        for g in (True, False):
            for edges in rc.all_graphs(2):
                cases.append(rc.graph_case(2, edges, prov, g))
    if chk.thorough:
        for k, edges in enumerate(rc.all_graphs(3)):
            cases.append(rc.graph_case(3, edges, rc.PROVIDERS[k % 3], k % 2 == 0))
    for edges in [[], [(0, 1), (1, 0)], [(0, 0), (0, 1)]]:
        for prov in ("plain_grepo", "fqn_grepo"):
            for g in (True, False):
                c = rc.str_case(2, edges, prov, g, "unres")
                c["ops"] = [o for o in c["ops"] if not (o["op"] == "loadstr" and o["str"] == 0 and o["version"] == 0)] + [{"op": "loadstr", "str": 0, "version": 1}]
                cases.append(c)
    # several registered languages, each metamodel with its own global repository or none: every digraph on 2 files of
    # different languages (3 files in 2 languages in the thorough tier); earlier direct load of the imported file
    for globs in ([True, True], [False, True], [True, False]):
        for edges in rc.all_graphs(2):
            cases.append(rc.ml_case(2, edges, [0, 1], globs, provider=rc.PROVIDERS[len(cases) % 2]))
    for k, edges in enumerate(rc.all_graphs(3, self_edges=False)):
        if chk.thorough or k % 8 == 3:
            cases.append(rc.ml_case(3, edges, [0, 1, 0] if k % 2 else [0, 0, 1], [True, True] if k % 3 else [True, False], provider=rc.PROVIDERS[k % 2]))
    # search-path providers: cycles through the main model, no global repository (and with one)
    for g in (False, True):
        for edges in rc.all_graphs(2):
            c = rc.graph_case(2, edges, rc.PROVIDERS[len(cases) % 2], g)
            c["search_path"] = ["."]
            cases.append(c)
    n = 1500 if chk.thorough else 200
    for i in range(n):
        r = chk.rng.split(i)
        cases.append(rc.gen_case(r, fail="random" if i % 4 == 3 else None))
    outs, vals, errs = rc.run_cases(chk, cases, "C17")
    failures, disagreements = rc.evaluate(chk, "C17", cases, outs, vals, errs)
    chk.cov["rule"] = ("every import digraph (self imports included) on 2 files%s x 5 providers x global repository on/off, plus %d random directories "
                       "(1-6 files in 3 layouts with sub-directories; explicit, self, odd-spelled, glob and recursive-glob imports, search paths; PlainNameImportURI, "
                       "FQNImportURI, RREL +m:, PlainNameGlobalRepo, FQNGlobalRepo; 0-2 builtin models; shared element names) each with a history of 2-6 loads "
                       "(repeated loads, a quarter with failing files and rewrites); non-trivial = some load reads >= 2 files; distinct by (files, config, history)"
                       % (" and on 3 files" if chk.thorough else "", n))
    chk.assumptions += ["glob.glob / os.path.exists are oracles: the expansion of every import statement is computed by the runner with the real glob (sorted) and given to the model",
                        "Model/Repo.v is hand-written; tied to the source by Gen/SrcRepo.v (translator repo_tr.py) and by this correspondence",
                        "single-model name lookup (PlainName / FQN / RREL on a flat model) is abstracted to 'first element with that name'; element names are unique within a file"]
    decide(chk, failures, disagreements)
