"""C23 — invalid grammars are always reported as textX errors.

translate (front_tr) -> prove (Props/C23.v) -> correspond (Model/Front.v vs metamodel_from_str on
generated grammar texts and their mutations) -> observe (property oracle on every implementation
outcome) -> decide."""
import json
import os
import re

from vt import core
from vt.main import decide
from translate import front_tr, kinds_tr
from props import c23_gen

CORPUS = os.path.join(core.VERIF, "corpus", "C23")

IMPORTS = """From TxV Require Import Core.Base Core.Show Gen.SrcFront Model.FrontDefs Model.Front Model.FrontShow.
Open Scope string_scope."""

FUEL_MARGIN = 3
KIND_LETTER = {"match": "m", "abstract": "a", "common": "c"}


# ------------------------------------------------------------------ Coq terms
def cs(s):
    return core.coq_str(s) if s else "(@nil N)"


def q_smatch(m):
    return "(%s %s)" % ("SStr" if m["k"] == "str" else "SRe", cs(m["s"]))


def q_mods(ms):
    if ms is None:
        return "None"
    return "(Some [%s])" % "; ".join("MEol" if m["k"] == "eol" else "(MSep %s)" % q_smatch(m) for m in ms)


def q_rhs(r):
    if r["k"] in ("str", "re"):
        return "(ASimple %s)" % q_smatch(r)
    if r["k"] == "rule":
        return "(ARef (RRule %s))" % cs(r["name"])
    return "(ARef (RObj %s %s %s))" % (cs(r["cls"]), "None" if r["rule"] is None else "(Some %s)" % cs(r["rule"]), core.coq_bool(r["rrel"]))


AOP = {"=": "OpEq", "*=": "OpStar", "+=": "OpPlus", "?=": "OpOpt"}
ROP = {"*": "RStar", "?": "ROpt", "+": "RPlus", "#": "RHash"}


def q_expr(e):
    k = e["k"]
    if k == "asg":
        return "(EAsg %s %s %s %s)" % (cs(e["attr"]), AOP[e["op"]], q_rhs(e["rhs"]), q_mods(e["mods"]))
    p = core.coq_bool(e["pred"] is not None)
    if k in ("str", "re"):
        return "(EMatch %s %s)" % (p, q_smatch(e))
    if k == "ref":
        return "(ERef %s %s)" % (p, cs(e["name"]))
    return "(EGroup %s %s)" % (p, q_choice(e["c"]))


def q_rexpr(r):
    rep = "None" if r["rep"] is None else "(Some (%s, %s))" % (ROP[r["rep"]["op"]], q_mods(r["rep"]["mods"]))
    return "(RX %s %s %s)" % (q_expr(r["e"]), rep, core.coq_bool(r["sup"]))


def q_choice(c):
    return "[%s]" % "; ".join("[%s]" % "; ".join(q_rexpr(r) for r in s) for s in c)


def q_rule(r):
    if r["params"] is None:
        ps = "None"
    else:
        ps = "(Some [%s])" % "; ".join("(%s, %s)" % (cs(n), "None" if v is None else "(Some %s)" % cs(v)) for n, v in r["params"])
    return "{| r_name := %s; r_params := %s; r_body := %s |}" % (cs(r["name"]), ps, q_choice(r["body"]))


def q_exc(e):
    return "{| x_name := %s; x_mro := [%s] |}" % (cs(e["name"]), "; ".join(cs(n) for n in e["mro"]))


def q_input(ast):
    ss = "; ".join("SImport" if s["k"] == "import" else "(SReference %s %s)" % (cs(s["lang"]), "None" if s["alias"] is None else "(Some %s)" % cs(s["alias"]))
                   for s in ast["stmts"])
    return "(GTree {| t_stmts := [%s]; t_rules := [%s] |})" % (ss, "; ".join(q_rule(r) for r in ast["rules"]))


def q_oracles(orc):
    """returns (coq term, list of violated oracle assumptions = the hypotheses oracle_wf of the theorems)"""
    bad = []
    re_t, dec_t, ext_t = [], [], []
    for s, v in orc["re"]:
        if v is not None:
            if "Exception" not in v["mro"]:
                bad.append("regex oracle: %r raises %s, not an Exception subclass" % (s, v["name"]))
            re_t.append("(%s, Some %s)" % (cs(s), q_exc(v)))
    for s, v in orc["dec"]:
        if v is not None:
            if "UnicodeDecodeError" not in v["mro"] and "IndexError" not in v["mro"]:
                bad.append("decode oracle: %r raises %s" % (s, v["name"]))
            dec_t.append("(%s, Some %s)" % (cs(s), q_exc(v)))
    for l, n, v in orc["ext"]:
        k = v["k"]
        if k == "raises":
            if "TextXError" not in v["exc"]["mro"]:
                bad.append("registry oracle: language %s raises %s" % (l, v["exc"]["name"]))
            t = "(ExtLangRaises %s)" % q_exc(v["exc"])
        elif k == "builtin":
            t = "(ExtBuiltin %s)" % core.coq_bool(v["found"])
        elif k in ("found", "missing"):
            t = "ExtFound" if k == "found" else "ExtMissing"
        else:
            bad.append("registry oracle: %s.%s lookup raises %s" % (l, n, v.get("exc", {}).get("name")))
            continue
        ext_t.append("(%s, %s, %s)" % (cs(l), cs(n), t))
    return "(orc_of [%s] [%s] [%s])" % ("; ".join(re_t), "; ".join(dec_t), "; ".join(ext_t)), bad


def q_user(case):
    return "[%s]" % "; ".join(cs(n) for n in (case.get("user") or []))


def coq_case(case, res):
    if "parse_exc" in res:
        return "show_case_kinds src_cfg (orc_of [] [] []) %s 1 (GParseRaises %s)" % (q_user(case), q_exc(res["parse_exc"])), []
    ast = res["ast"]
    o, bad = q_oracles(res["oracle"])
    return "show_case_kinds src_cfg %s %s %d %s" % (o, q_user(case), len(ast["rules"]) + FUEL_MARGIN, q_input(ast)), bad


# ------------------------------------------------------------------ canonical implementation outcome
CLS = {"TextXSyntaxError": "SYN", "TextXSemanticError": "SEM", "TextXError": "PLAIN", "TextXRegistrationError": "REG"}
WHY = [
    ("SYN", r"Expected ", "parse"),
    ("SYN", r"Invalid rule param ", "param"),
    ("SYN", r"Rule param ws requires", "wsparam"),
    ("SYN", r'Modifiers are not allowed for "\?" operator', "optmods"),
    ("SYN", r'Modifiers are not allowed for "\??=" operator', "asgmods"),
    ("SYN", r"Invalid escape sequence", "escape"),
    ("SEM", r"Unexisting rule ", "ruleref"),
    ("SEM", r"Circular definition of rule ", "ruleref"),
    ("SEM", r"Unknown class/rule ", "clsref"),
    ("SEM", r'Cannot use "\?=" operator on multiple', "multibool"),
    ("SEM", r"Primitive type instances can not be referenced", "primref"),
    ("SEM", r"Can't use bool assignment inside repetition", "boolrep"),
    ("SEM", r'assigned by "\?=" in rule .* can collect multiple values', "boolmany"),
    ("PLAIN", r"param split requires", "split"),
    ("REG", r"not registered", "registration"),
    ("SEM", r"redefined imported rule .* cannot be replaced by a user class", "userredef"),
    ("SEM", r"class is not used in the grammar", "userunused"),
]


def canon_impl(impl):
    if impl["cls"] == "OK":
        return "OK"
    if not impl.get("tx"):
        return "CRASH:" + impl["cls"]
    c = CLS.get(impl["cls"], "TX(" + impl["cls"] + ")")
    msg = impl.get("msg") or ""
    for cc, pat, w in WHY:
        if cc == c and re.search(pat, msg):
            return c + ":" + w
    if c == "SYN" and impl.get("where", "").startswith("lang.py") and impl.get("cause") not in (None, "NoMatch", "UnicodeDecodeError", "KeyError"):
        return "SYN:regex"
    return c + ":?"


def nesting(text):
    d = m = 0
    for ch in text:
        if ch in "([":
            d += 1
            m = max(m, d)
        elif ch in ")]":
            d = max(0, d - 1)
    return m


def classify(text):
    """classifier of the known finding: sizes at which CPython's recursion limit is reached inside Arpeggio's
    recursive-descent parser / the recursive visitors (not modelled; the theorem is about the visitor logic)."""
    tags = []
    if nesting(text) >= 40 or text.count(";") >= 200:
        tags.append("interp-recursion-limit")
    return tags


def property_verdict(case, res):
    """The property itself on the implementation outcome; returns None or a description of the failure."""
    impl = res["impl"]
    if impl["cls"] == "OK":
        return None
    if impl.get("tx"):
        if not isinstance(impl.get("msg"), str) or not impl["msg"].strip():
            return "%s raised without a message" % impl["cls"]
        return None
    # the one documented exception: an import statement in a grammar given as a string
    ast = res.get("ast") or {}
    if impl["cls"] == "AssertionError" and any(s["k"] == "import" for s in ast.get("stmts", [])) and "import" in (impl.get("msg") or ""):
        return None
    return "metamodel_from_str raised %s (%s) at %s" % (impl["cls"], (impl.get("msg") or "")[:120], impl.get("where"))


def load_corpus():
    cases = []
    if os.path.isdir(CORPUS):
        for f in sorted(os.listdir(CORPUS)):
            if f.endswith(".tx"):
                with open(os.path.join(CORPUS, f), encoding="utf-8") as fh:
                    cases.append({"text": fh.read(), "kind": "corpus:" + f, "kwargs": {}})
    return cases


def gen_cases(chk, n):
    cases = []
    for i in range(n):
        r = chk.rng.split(i)
        c = c23_gen.gen_case(r)
        kw = {}
        k = r.below(10)
        if k == 0:
            kw = {"autokwd": True}
        elif k == 1:
            kw = {"ignore_case": True}
        elif k == 2:
            kw = {"memoization": True}
        elif k in (3, 4):
            # user classes (classes=[...]): for some of the rules, sometimes one that no rule uses
            names = re.findall(r"^\s*(\w+)\s*(?:\[[^\]]*\])?\s*:", c["text"], re.M)
            pool = sorted(set(names)) or ["A"]
            user = r.sample(pool, r.range(1, min(2, len(pool))))
            if r.chance(0.25):
                user.append(r.choice(["Ghost", "ID", "B2"]))
            c["user"] = user
        c["kwargs"] = kw
        cases.append(c)
    return cases


def run_impl(cases):
    chunks = [cases[i::core.NPROC] for i in range(core.NPROC)]
    chunks = [c for c in chunks if c]
    outs = core.run_impl_parallel("c23", [{"cases": [{"text": c["text"], "kwargs": c["kwargs"], "user": c.get("user")} for c in ch]} for ch in chunks])
    for ch, o in zip(chunks, outs):
        for c, x in zip(ch, o):
            c["res"] = x


def evaluate(chk, cases, tag="C23"):
    """model evaluation + comparison + property oracle; returns (failures, disagreements)"""
    failures, disagreements = [], []
    exprs, owners = [], []
    for c in cases:
        res = c["res"]
        c["tags"] = classify(c["text"])
        if res.get("parse_exc", {}).get("name") == "RecursionError":
            # the parser input of the model is "raises RecursionError": the hypothesis parse_wf of C23_total fails
            c["tags"] = c["tags"] + ["interp-recursion-limit"]
        if "ast" in res or "parse_exc" in res:
            e, bad = coq_case(c, res)
            for b in bad:
                disagreements.append({"case": c["text"], "impl": res["impl"], "model": "oracle assumption violated: " + b})
            exprs.append(e)
            owners.append(c)
        elif not c["tags"]:
            disagreements.append({"case": c["text"], "impl": res["impl"], "model": "no abstract syntax: " + res.get("ast_error", "?")})
    vals, errs = core.coq_eval(tag, IMPORTS, exprs, shard=250)
    if errs:
        disagreements.append({"case": "coq evaluation", "model": errs[:2]})
    for c, v in zip(owners, vals):
        c["model"] = v
    for c in cases:
        res = c["res"]
        impl = res["impl"]
        ci = canon_impl(impl)
        mv = c.get("model")
        kind = c["kind"].split("+")[0].split(":")[0]
        ast = res.get("ast") or {}
        nontrivial = bool(ast)
        chk.count(json.dumps([c["text"], c["kwargs"], c.get("user")], sort_keys=True), nontrivial=nontrivial)
        if c.get("user"):
            chk.stat("with user classes")
        chk.stat("impl " + ci)
        chk.stat("kind " + kind)
        if mv is not None:
            m_out, m_cls, m_kinds = (mv.split("|") + ["", ""])[:3]
            ok = (m_out == ci)
            if not ok and m_cls and m_out in m_cls.split(","):
                # the last phase (_resolve_cls_refs walks the class graph depth-first) is modelled up to the
                # order of its lookups: when several class references fail, any of the failures may come first
                if ci in m_cls.split(","):
                    ok = True
                    chk.stat("order-abstracted class-reference error")
            if not ok:
                disagreements.append({"case": c["text"], "kwargs": c["kwargs"], "kind": c["kind"], "impl": impl, "impl_canon": ci, "model": mv})
            elif ci == "OK":
                # rule kinds: Kinds.determine_types on to_kinds(grammar) vs cls._tx_type of every class of the namespace.
                # Not comparable: rules of referenced languages (their kind is not an input of the model) and the
                # __base__ class OBJECT (created abstract; Kinds starts every rule as match).
                if "kinds" not in res:
                    disagreements.append({"case": c["text"], "impl": impl, "model": "rule kinds not readable: " + str(res.get("kinds_error"))})
                elif res["oracle"]["ext"] or re.search(r"\bOBJECT\b", c["text"]):
                    chk.stat("rule kinds not compared (foreign rule / OBJECT)")
                else:
                    ik = "".join(KIND_LETTER.get(k, "?") for _, k in res["kinds"])
                    chk.stat("rule kinds compared")
                    if ik != m_kinds:
                        disagreements.append({"case": c["text"], "kwargs": c["kwargs"], "kind": c["kind"], "impl": res["kinds"], "impl_canon": "kinds " + ik, "model": "kinds " + m_kinds})
        bad = property_verdict(c, res)
        if bad:
            failures.append({"case": {"text": c["text"], "kwargs": c["kwargs"], "user": c.get("user"), "kind": c["kind"]}, "impl": impl, "model": mv, "what": bad, "tags": c["tags"]})
        if chk.cov["evaluations"] % 97 == 5:
            chk.sample({"text": c["text"], "kind": c["kind"], "impl": ci, "model": mv})
    return failures, disagreements


def run(chk):
    chk.prove([front_tr.translate, kinds_tr.translate])   # Model/Front.v runs C03's Model/Kinds.v (Gen/SrcKinds.v)
    n = 6000 if chk.thorough else 640
    cases = load_corpus() + gen_cases(chk, n)
    if chk.thorough:
        cases += exhaustive_token_edits(chk)
    run_impl(cases)
    failures, disagreements = evaluate(chk, cases)
    chk.cov["rule"] = ("grammar texts given to metamodel_from_str: corpus (finding witnesses, pre-fix crash inputs) + generated grammars "
                       "(1-5 rules; assignments, matches, references, groups, predicates, repetitions with modifiers, rule params, object "
                       "references with RREL) ~35% unmutated, the rest mutated (token drop/dup/swap/insert, undefined rule, invalid regex, bad "
                       "escape, bad/valueless rule params, misplaced modifiers, bool assignments, alias cycles/chains, `#` on references, bad "
                       "object references/RREL, reference statements to registered/unregistered/builtin languages, import, duplicate rules, "
                       "truncation/garbage/unicode); 30% with autokwd/ignore_case/memoization; non-trivial = the text parses as a grammar "
                       "(the visitor runs); distinct by (text, kwargs)")
    chk.assumptions += [
        "translator front_tr.py (ast patterns over textx/lang.py, textx/metamodel.py; fails closed)",
        "the parse of the grammar text is an input of the model: the runner extracts it from the live grammar-language parser "
        "(ParserPython(textx_model)); Arpeggio itself is not modelled here",
        "oracles: re.compile through RegExMatch.compile raises only Exception subclasses; codecs unicode-escape decoding raises only "
        "UnicodeDecodeError; registered languages are TextXMetaModel or TextXMetaMetaModel instances (checked per case by the runner)",
        "_resolve_rule_refs / _resolve_cls_refs are modelled up to the order in which they visit references (all their errors are "
        "TextXSemanticError resp. Semantic/Registration; the order only selects which one is reported)",
        "CPython recursion limit inside the Arpeggio parser and the recursive visitors is outside the model (known finding interp-recursion-limit)",
    ]
    decide(chk, failures, disagreements)


# ------------------------------------------------------------------ thorough: all single-token drops/duplications
def exhaustive_token_edits(chk):
    out = []
    for gi in range(24):
        r = chk.rng.split("exh%d" % gi)
        g = c23_gen.G(r, nrules=r.range(1, 3))
        toks = c23_gen.tokens(g.text())
        for i in range(len(toks)):
            out.append({"text": c23_gen.untok(toks[:i] + toks[i + 1:]), "kind": "exh-drop", "kwargs": {}})
            out.append({"text": c23_gen.untok(toks[:i] + [toks[i]] + toks[i:]), "kind": "exh-dup", "kwargs": {}})
    return out


def replay(rep):
    case = rep.get("case") or {}
    if isinstance(case, str):
        case = {"text": case, "kwargs": rep.get("kwargs") or {}}
    if "text" not in case:
        print(json.dumps(rep, indent=1))
        return 0
    c = {"text": case["text"], "kwargs": case.get("kwargs") or {}, "user": case.get("user"), "kind": "replay"}
    run_impl([c])
    res = c["res"]
    print("grammar text: %r kwargs=%r" % (c["text"], c["kwargs"]))
    print("implementation:", canon_impl(res["impl"]), json.dumps(res["impl"]))
    if "ast" in res or "parse_exc" in res:
        e, bad = coq_case(c, res)
        front_tr.translate()
        vals, errs = core.coq_eval("C23replay", IMPORTS, [e])
        print("model:", vals[0] if vals else errs)
    else:
        print("model: no abstract syntax (%s)" % res.get("ast_error"))
    bad = property_verdict(c, res)
    print("property:", "VIOLATED - " + bad if bad else "holds on this input")
    return 1 if bad else 0
