"""C19 - memoization never changes parse results (and the correspondence of the shared PEG core).

Pipeline: Props/C19.v (theorems about Model/Peg.v) -> generated grammars x derived/mutated inputs
-> real parsers built by $TEXTX_REPO with memoization off/on (tools/impl/c19.py, parser models
dumped by tools/pegdump.py) vs the Coq interpreter on the dumped models (acceptance, parse tree,
error position; both memo settings) -> property oracle on the implementation (same acceptance,
same model, same error position with and without memoization) -> decide.
"""
import json
import os

from vt import core
from vt.main import decide
import peggen
import pegdump
from translate import arpeggio_tr

IMPORTS = "From TxV Require Import Core.Base Core.Show Model.PegSyntax Model.Peg Model.PegShow Proofs.PegProofs Proofs.PegTerm.\nOpen Scope string_scope."
FUEL = 120


# ---------------------------------------------------------------- classifier (mirror of Coq ctx_constant)
def ctx_constant(dump):
    """Mirror of PegProofs.ctx_constant (compared with Coq's own evaluation on every generated grammar):
    no node sets ws/skipws, no eolterm, comment model absent or a single terminal."""
    c = dump["comments"]
    if c is not None and dump["nodes"][c]["kind"] not in ("KStr", "KRegex", "KEOF"):
        return False
    for n in dump["nodes"]:
        if n["ws"] is not None or n["skipws"] is not None or n["eolterm"]:
            return False
    return True


def theorem_applies(dump):
    """Hypothesis of C19_memo_safe: the grammar is in the class (any parser configuration)."""
    return ctx_constant(dump)


def regex_nullable_flags(dump):
    """Per oracle id: may the terminal match the empty string?  Regexes: minimal width 0 according to
    Python's own parser (sound: a positive minimal width means no empty match at any position).
    This is the `rxn` argument of PegTerm.terminating."""
    import re
    flags = []
    for o in dump["oracles"]:
        if o[0] != "re":
            flags.append(True)
            continue
        try:
            flags.append(re._parser.parse(o[1], o[2]).getwidth()[0] == 0)
        except Exception:
            flags.append(True)
    return flags


def _reach(dump, start):
    seen, todo = set(), [start]
    while todo:
        i = todo.pop()
        if i in seen:
            continue
        seen.add(i)
        n = dump["nodes"][i]
        todo += n["kids"] + ([n["sep"]] if n["sep"] is not None else [])
    return seen


def context_dependent(dump):
    """The class the known finding is about: some rule changes the whitespace context (rule-level
    ws/skipws, eolterm), or a memoizable node is shared between the comment model and the main model."""
    for n in dump["nodes"]:
        if n["ws"] is not None or n["skipws"] is not None or n["eolterm"]:
            return True
    if dump["comments"] is not None:
        shared = _reach(dump, dump["top"]) & _reach(dump, dump["comments"])
        if any(dump["nodes"][i]["kind"] not in ("KStr", "KRegex", "KEOF") for i in shared):
            return True
    return False


def memoizable_comment_model(dump):
    """Second finding class: the Comment rule's expression is not a single terminal, so comment
    parsing is itself memoized (and interacts with Arpeggio's comment_positions table)."""
    c = dump["comments"]
    return c is not None and dump["nodes"][c]["kind"] not in ("KStr", "KRegex", "KEOF")


# ---------------------------------------------------------------- cases
CORPUS = [
    {"grammar": "Model: a=A | b=B; A[noskipws]: x=X 'q'; B: x=X 'r'; X: 'x' 'y';\n", "opts": {},
     "inputs": ["x y r", "xyq", "xyr", "x y q", ""], "tag": "corpus-probe"},
    {"grammar": "Model: xs+=X[','] ';' | xs+=X[','] '.'; X: 'x' | /\\d+/;\n", "opts": {},
     "inputs": ["x, 1, x.", "x,1;", "x,,", "x, 1, x", " x ."], "tag": "corpus-backtrack"},
    {"grammar": "Model: ('a' B 'c')* | 'a' B 'd'; B: 'b'? !'z' ('k'|'b')#;\n", "opts": {},
     "inputs": ["a b c", "a b d", "a k b c a b c", "a d", "a b k z"], "tag": "corpus-pred"},
    {"grammar": "Model: A | B; A: x=X 'q'; B: x=X 'r'; X: 'x' 'y';\nComment: /\\/\\/.*?$/;\n", "opts": {},
     "inputs": ["x // c\n y r", "x y // c\n q", "x y s"], "tag": "corpus-comment"},
    {"grammar": "Model: ('a' X 'q')*[eolterm] 'a' X 'r'; X: 'x' 'y';\n", "opts": {},
     "inputs": ["a x\ny r", "a x y q a x y r", "a x\n y q"], "tag": "corpus-eolterm"},
    {"grammar": "Model: ('k' | CB) 'r';\nComment: CL | CB;\nCL: /\\/\\/.*?$/;\nCB: '#' 'x';\n", "opts": {},
     "inputs": ["#// c\n x r", "# x r", "k r // c"], "tag": "corpus-comment-shared"},
    {"grammar": "Model: B 'q' | 'b';\nB: /[^;\\n]+/ 'x';\nComment: /\\/\\/.*?$/ | /\\/\\*(.|\\n)*?\\*\\//;\n", "opts": {},
     "inputs": ["b//\n/**/", "b // c\n", "b/**/ x q"], "tag": "corpus-comment-model"},
    {"grammar": "Model: X- 'q' | x=X 'r' | X 's';\nX: 'x' name=ID;\n", "opts": {},
     "inputs": ["x a r", "x a q", "x a s", "x a t"], "tag": "corpus-suppressed-twin"},
    {"grammar": "Model: items+=Item;\nItem: Skip | Def;\nSkip: D- 'skip';\nDef: d=D '=' v=INT;\nD: 'let' name=ID (':' t=ID)?;\n", "opts": {},
     "inputs": ["let a = 1 let b skip", "let a: t skip let c: u = 2", "let a ? 1"], "tag": "corpus-suppressed-twin2"},
    {"grammar": "Model: (x+=X ';' | x+=X '.')#[','] ; X: 'x' | /\\d+/;\n", "opts": {},
     "inputs": ["x ; , 1 .", "1 . , x ;", "x . , x ."], "tag": "corpus-unordered"},
]


def gen_cases(chk, n, per):
    cases = [dict(c) for c in CORPUS]
    for i in range(n):
        r = chk.rng.split("g%d" % i)
        style = r.weighted([("plain", 4), ("ctx", 3), ("clash", 3)])
        feats = {"plain": dict(modifiers=False, eolterm=False, comment=r.chance(0.3)),
                 "ctx": dict(), "clash": dict(context_clash=True)}[style]
        g = peggen.gen_grammar(r, feats)
        opts = {}
        if r.chance(0.15):
            opts["skipws"] = False
        if r.chance(0.1):
            opts["ws"] = r.choice([" ", " \t", "\n "])
        if r.chance(0.12):
            opts["ignore_case"] = True
        if r.chance(0.1):
            opts["autokwd"] = True
        inputs = []
        for k in range(per):
            inputs.append(peggen.gen_input(r.split("i%d" % k), g, opts))
        if r.chance(0.3):
            inputs.append("")
        cases.append({"grammar": peggen.grammar_text(g), "opts": opts, "inputs": inputs, "tag": style})
    return cases


def coq_defs_and_exprs(results):
    """One Definition per grammar, one show_case expression per (grammar, input)."""
    defs, exprs, index = [], [], []
    for ci, (case, res) in enumerate(results):
        if res.get("dump") is None:
            continue
        d = res["dump"]
        defs.append("Definition g%d : grammar := %s.\nDefinition c%d : config := %s." % (
            ci, pegdump.coq_grammar(d), ci, pegdump.coq_config(d)))
        for ii, (text, run) in enumerate(zip(case["inputs"], res["runs"])):
            if run.get("timeout") or run.get("unsupported"):
                continue
            exprs.append("show_case g%d c%d %s %d %s" % (ci, ci, pegdump.coq_table(run["table"]), FUEL, pegdump.coq_str(text)))
            index.append((ci, ii))
    return "\n".join(defs), exprs, index


def model_equiv_impl(m, t):
    """model outcome string vs implementation outcome string (Arpeggio level)."""
    if m == t:
        return True
    if m.startswith("A:0") and t in ("X:RecursionError",):
        return True
    if m.startswith("A:1") and t.startswith("X:") and t != "X:RecursionError":
        return True
    return False


def run(chk):
    chk.prove([arpeggio_tr.translate])
    n, per = (700, 5) if chk.thorough else (100, 4)
    cases = gen_cases(chk, n, per)
    idx = [list(range(i, len(cases), core.NPROC)) for i in range(core.NPROC)]
    idx = [ix for ix in idx if ix]
    outs = core.run_impl_parallel("c19", [{"cases": [{"grammar": cases[i]["grammar"], "opts": cases[i]["opts"], "inputs": cases[i]["inputs"]} for i in ix]} for ix in idx])
    results = [None] * len(cases)
    for ix, o in zip(idx, outs):
        for i, x in zip(ix, o):
            results[i] = (cases[i], x)
    defs, exprs, index = coq_defs_and_exprs(results)
    gidx = [ci for ci, (case, res) in enumerate(results) if res.get("dump") is not None]
    cls_exprs = ["String.append (show_bool (ctx_constant g%d)) (show_bool (terminating (fun o => nth o %s true) g%d))" % (
        ci, core.coq_list([core.coq_bool(b) for b in regex_nullable_flags(results[ci][1]["dump"])]), ci) for ci in gidx]
    vals, errs = core.coq_eval("C19", IMPORTS, exprs + cls_exprs, defs=defs, shard=150)
    disagreements, failures = [], []
    if errs:
        disagreements.append({"case": "coq evaluation", "model": errs[:2]})
    mvals = dict(zip(index, vals[:len(exprs)]))
    coq_cls = {ci: (v[:1] if v else None) for ci, v in zip(gidx, vals[len(exprs):])}
    coq_term = {ci: (v[1:2] if v else None) for ci, v in zip(gidx, vals[len(exprs):])}
    for ci, (case, res) in enumerate(results):
        if res["grammar_error"]:
            chk.stat("grammar rejected: " + res["grammar_error"].split(":")[0])
            if res.get("flag_lost"):
                failures.append({"case": {"grammar": case["grammar"], "opts": case["opts"]}, "what": "memoization=True is not passed to the model parser", "tags": []})
            continue
        d = res["dump"]
        cc, cdep = ctx_constant(d), context_dependent(d)
        if d.get("cache_alias"):
            # the Coq model (and the theorem) give every expression its own packrat cache
            disagreements.append({"case": {"grammar": case["grammar"], "opts": case["opts"]},
                                  "impl": "distinct parsing expressions share one _result_cache dict: node groups %s" % d["cache_alias"],
                                  "model": "one cache per node (key = node id, position)"})
        if coq_cls.get(ci) != ("T" if cc else "F") or (cc and cdep):
            disagreements.append({"case": {"grammar": case["grammar"]}, "impl": "classifier ctx_constant=%s context_dependent=%s" % (cc, cdep),
                                  "model": "Coq ctx_constant = %s" % coq_cls.get(ci)})
        chk.stat("grammars: %s" % ("in the proved class" if cc else (
            "context-dependent" if cdep else ("memoizable comment model" if memoizable_comment_model(d) else "other"))))
        term = coq_term.get(ci) == "T"
        chk.stat("grammars: PegTerm.terminating = %s" % coq_term.get(ci))
        for ii, (text, run_) in enumerate(zip(case["inputs"], res["runs"])):
            if run_.get("timeout") and term:
                # an instance of PEG_run_terminates against the real interpreter: a grammar accepted by the
                # termination check must not need the per-input timer
                disagreements.append({"case": {"grammar": case["grammar"], "opts": case["opts"], "input": text},
                                      "impl": "the real parser did not finish within the per-input timer",
                                      "model": "PegTerm.terminating = true"})
            if run_.get("timeout") or run_.get("unsupported"):
                chk.stat("input skipped (timeout/unsupported)")
                continue
            t_off, t_on = run_["tree_off"], run_["tree_on"]
            m_off, m_on = run_["model_off"], run_["model_on"]
            accepted = t_off.startswith("P:")
            chk.count(json.dumps([case["grammar"], case["opts"], text]), nontrivial=accepted or not t_off.startswith("E:0"))
            chk.stat("impl no-memo: %s" % t_off[:1])
            cinfo = {"grammar": case["grammar"], "opts": case["opts"], "input": text, "tag": case.get("tag")}
            # ---- correspondence: Coq interpreter on the dumped parser model vs the real parser
            mv = mvals.get((ci, ii))
            if mv is None:
                disagreements.append({"case": cinfo, "impl": [t_off, t_on], "model": None})
            else:
                mo, _, mn = mv.partition(" | ")
                if not (model_equiv_impl(mo, t_off) and model_equiv_impl(mn, t_on)):
                    disagreements.append({"case": cinfo, "impl": [t_off, t_on], "model": [mo, mn]})
                if term and (mo.startswith("A:0") or mn.startswith("A:0") or "X:RecursionError" in (t_off, t_on)):
                    disagreements.append({"case": cinfo, "impl": [t_off, t_on], "model": [mo, mn, "PegTerm.terminating = true but out of fuel / RecursionError"]})
                if mo != mn:
                    chk.stat("model: memo changes outcome")
                    if theorem_applies(d) and not mo.startswith("A:"):
                        # an instance of C19_memo_safe evaluated on the model: cannot differ
                        disagreements.append({"case": cinfo, "impl": [t_off, t_on], "model": [mo, mn, "theorem instance violated in the model"]})
            # glue: the textX-level outcome must be the Arpeggio-level one (acceptance and error position)
            for tt, mm in ((t_off, m_off), (t_on, m_on)):
                if tt.startswith("P:") and not mm["ok"] and mm["err"] == "syntax":
                    disagreements.append({"case": cinfo, "impl": [tt, mm], "model": "textX-level syntax error but Arpeggio-level accept"})
                if tt.startswith("E:") and (mm["ok"] or mm["err"] != "syntax" or "E:%s" % mm["pos"] != tt):
                    disagreements.append({"case": cinfo, "impl": [tt, mm], "model": "textX-level outcome differs from Arpeggio-level error"})
            # ---- property oracle on the implementation: memoization on == off
            r_off, r_on = run_["model_off_reused"], run_["model_on_reused"]
            bad = None
            if t_off != t_on:
                bad = "parse outcome (first parse of a fresh metamodel) differs: without memoization %s, with memoization %s" % (t_off[:200], t_on[:200])
            elif m_off != m_on:
                bad = "model_from_str (first parse of a fresh metamodel) differs: without memoization %r, with memoization %r" % (m_off, m_on)
            elif r_off != r_on:
                bad = "model_from_str (metamodel reused for several inputs) differs: without memoization %r, with memoization %r" % (r_off, r_on)
            if bad:
                chk.stat("impl: memo changes outcome")
                tags = (["not_ctx_constant"] if cdep else []) + (["memoizable_comment_model"] if memoizable_comment_model(d) else [])
                failures.append({"case": cinfo, "what": bad, "tags": tags, "impl": [t_off, t_on], "model": mv})
            if chk.cov["evaluations"] % 150 == 7:
                chk.sample({"grammar": case["grammar"], "input": text, "memo_off": t_off[:120], "memo_on": t_on[:120]})
    chk.cov["rule"] = ("generated textX grammars (2-6 rules; sequences, ordered choice, ? * + # with separators and eolterm, & ! predicates, "
                       "suppression, the four assignment operators, base types, regex terminals incl. nullable ones, rule modifiers "
                       "noskipws/skipws/ws, optional Comment rule incl. one sharing a rule with the main grammar; a 'clash' family where two "
                       "alternatives reach the same rule at the same position under different whitespace modes; metamodel options skipws/ws/"
                       "ignore_case/autokwd) x inputs derived from the grammar with random layout/comments and token/character mutations; each "
                       "parsed by the real parser with memoization off and on and by the Coq interpreter on the dumped parser model; "
                       "non-trivial = accepted, or rejected after position 0; distinct by (grammar, options, input)")
    chk.assumptions += ["tools/translate/arpeggio_tr.py: the functions of the installed arpeggio/__init__.py that Model/Peg.v transcribes hash to the recorded values (fail closed)",
                        "tools/pegdump.py dumps the live Arpeggio parser model faithfully (fail closed on unknown node types)",
                        "regex terminals: matched lengths supplied by Python's re for the concrete input (oracle table); theorems hold for every oracle",
                        "Arpeggio (dependency) is modelled, validated by this correspondence, not verified"]
    decide(chk, failures, disagreements)


def replay(rep):
    """./check C19 --replay out/C19/fail_N.json : re-run one recorded case on the implementation."""
    case = rep.get("case") or {}
    if "input" not in case:
        print(json.dumps(rep, indent=1))
        return 0
    out = core.run_impl("c19", {"cases": [{"grammar": case["grammar"], "opts": case.get("opts", {}), "inputs": [case["input"]]}]})[0]
    if out["grammar_error"]:
        print("grammar:", out["grammar_error"])
        return 1
    r = out["runs"][0]
    print("without memoization:", r.get("tree_off"), r.get("model_off"))
    print("with memoization:   ", r.get("tree_on"), r.get("model_on"))
    same = r.get("tree_off") == r.get("tree_on") and r.get("model_off") == r.get("model_on")
    print("property C19 on this case:", "holds" if same else "VIOLATED",
          "(known finding class)" if (context_dependent(out["dump"]) or memoizable_comment_model(out["dump"])) else "")
    return 0 if same else 1
