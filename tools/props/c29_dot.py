"""Independent readers used by the C29 property oracle: a tokenizer and recursive-descent parser for the
Graphviz DOT language (grammar of https://graphviz.org/doc/info/lang.html, lexical rules of
lib/cgraph/scan.l), the record-label parser of lib/common/shapes.c (parse_reclbl), and a structural reader
of PlantUML class diagrams.  Written from the Graphviz documentation, not from the Coq model."""


class DotError(Exception):
    pass


KEYWORDS = {"node", "edge", "graph", "digraph", "subgraph", "strict"}


def tokenize(text):
    toks, i, n = [], 0, len(text)
    while i < n:
        c = text[i]
        if c in " \t\r\n\f\v":
            i += 1
        elif c == "/" and text[i:i + 2] == "//":
            j = text.find("\n", i)
            i = n if j < 0 else j + 1
        elif c == "/" and text[i:i + 2] == "/*":
            j = text.find("*/", i + 2)
            if j < 0:
                raise DotError("unterminated comment at %d" % i)
            i = j + 2
        elif c == "#" and (i == 0 or text[i - 1] == "\n"):
            j = text.find("\n", i)
            i = n if j < 0 else j + 1
        elif c == '"':
            j, buf = i + 1, []
            while True:
                if j >= n:
                    raise DotError("unterminated string starting at %d" % i)
                d = text[j]
                if d == '"':
                    break
                if d == "\\" and j + 1 < n and text[j + 1] in '"\\':
                    buf.append(text[j:j + 2])     # the pair stays in the value, as in scan.l (\" becomes ")
                    j += 2
                elif d == "\\" and j + 1 < n and text[j + 1] == "\n":
                    j += 2
                else:
                    buf.append(d)
                    j += 1
            toks.append(("qid", "".join(buf), i))
            i = j + 1
        elif c == "<":
            depth, j = 1, i + 1
            while j < n and depth:
                if text[j] == "<":
                    depth += 1
                elif text[j] == ">":
                    depth -= 1
                j += 1
            if depth:
                raise DotError("unterminated HTML string starting at %d" % i)
            toks.append(("html", text[i + 1:j - 1], i))
            i = j
        elif c == "-" and text[i:i + 2] in ("->", "--"):
            toks.append(("op", text[i:i + 2], i))
            i += 2
        elif c in "{}[];,=:":
            toks.append((c, c, i))
            i += 1
        elif c.isalpha() or c == "_" or ord(c) >= 128:
            j = i
            while j < n and (text[j].isalnum() or text[j] == "_" or ord(text[j]) >= 128):
                j += 1
            w = text[i:j]
            toks.append(("kw" if w.lower() in KEYWORDS else "id", w, i))
            i = j
        elif c.isdigit() or c in "-.":
            j = i + 1 if c == "-" else i
            k = j
            while k < n and text[k].isdigit():
                k += 1
            if k < n and text[k] == ".":
                k += 1
                while k < n and text[k].isdigit():
                    k += 1
            if k == j or text[j:k] == ".":
                raise DotError("bad character %r at %d" % (c, i))
            if k < n and (text[k].isalpha() or text[k] == "_"):
                raise DotError("number runs into a name at %d" % i)
            toks.append(("id", text[i:k], i))
            i = k
        else:
            raise DotError("bad character %r at %d" % (c, i))
    return toks


class Parser:
    def __init__(self, text):
        self.t = tokenize(text)
        self.i = 0
        self.nodes = []       # (id token kind, id text, attrs) for every node statement
        self.edges = []       # (endpoints, attrs)
        self.subgraphs = []   # names
        self.graph_attrs = []

    def peek(self, k=0):
        return self.t[self.i + k] if self.i + k < len(self.t) else ("eof", "", -1)

    def take(self, kind=None, val=None):
        tok = self.peek()
        if (kind is not None and tok[0] != kind) or (val is not None and tok[1].lower() != val):
            raise DotError("expected %s %s, found %r at %d" % (kind or "", val or "", tok[1], tok[2]))
        self.i += 1
        return tok

    def is_id(self, tok):
        return tok[0] in ("id", "qid", "html")

    def graph(self):
        if self.peek()[0] == "kw" and self.peek()[1].lower() == "strict":
            self.take()
        tok = self.take("kw")
        if tok[1].lower() not in ("graph", "digraph"):
            raise DotError("expected graph or digraph at %d" % tok[2])
        self.directed = tok[1].lower() == "digraph"
        if self.is_id(self.peek()):
            self.take()
        self.take("{")
        self.stmt_list()
        self.take("}")
        if self.peek()[0] != "eof":
            raise DotError("text after the graph at %d" % self.peek()[2])
        return self

    def stmt_list(self):
        while self.peek()[0] not in ("}", "eof"):
            self.stmt()
            if self.peek()[0] == ";":
                self.take()

    def attr_list(self):
        attrs = []
        while self.peek()[0] == "[":
            self.take()
            while self.peek()[0] != "]":
                k = self.peek()
                if not self.is_id(k):
                    raise DotError("expected attribute name, found %r at %d" % (k[1], k[2]))
                self.take()
                self.take("=")
                v = self.peek()
                if not self.is_id(v):
                    raise DotError("expected attribute value, found %r at %d" % (v[1], v[2]))
                self.take()
                attrs.append((k[1], v[1], v[0]))
                if self.peek()[0] in (";", ","):
                    self.take()
            self.take("]")
        return attrs

    def subgraph(self):
        if self.peek()[0] == "kw":
            self.take("kw", "subgraph")
            if self.is_id(self.peek()):
                self.subgraphs.append(self.take()[1])
        self.take("{")
        self.stmt_list()
        self.take("}")
        return ("subgraph", None)

    def node_id(self):
        tok = self.take()
        if self.peek()[0] == ":":
            self.take()
            if not self.is_id(self.peek()):
                raise DotError("bad port at %d" % self.peek()[2])
            self.take()
            if self.peek()[0] == ":":
                self.take()
                if not self.is_id(self.peek()):
                    raise DotError("bad compass point at %d" % self.peek()[2])
                self.take()
        return (tok[0], tok[1])

    def endpoint(self):
        tok = self.peek()
        if tok[0] == "{" or (tok[0] == "kw" and tok[1].lower() == "subgraph"):
            return self.subgraph()
        if self.is_id(tok):
            return self.node_id()
        raise DotError("expected a node or subgraph, found %r at %d" % (tok[1], tok[2]))

    def stmt(self):
        tok = self.peek()
        if tok[0] == "kw" and tok[1].lower() in ("graph", "node", "edge"):
            self.take()
            if self.peek()[0] != "[":
                raise DotError("attribute statement without a list at %d" % tok[2])
            self.attr_list()
            return
        if tok[0] == "kw" and tok[1].lower() not in ("subgraph",):
            raise DotError("unexpected keyword %r at %d" % (tok[1], tok[2]))
        if self.is_id(tok) and self.peek(1)[0] == "=":
            self.take()
            self.take("=")
            v = self.peek()
            if not self.is_id(v):
                raise DotError("expected a value at %d" % v[2])
            self.take()
            self.graph_attrs.append((tok[1], v[1]))
            return
        first = self.endpoint()
        ends = [first]
        while self.peek()[0] == "op":
            op = self.take()
            if (op[1] == "->") != self.directed:
                raise DotError("edge operator %s does not fit the graph kind at %d" % (op[1], op[2]))
            ends.append(self.endpoint())
        attrs = self.attr_list() if self.peek()[0] == "[" else []
        if len(ends) > 1:
            self.edges.append((ends, attrs))
        elif first[0] != "subgraph":
            self.nodes.append((first[0], first[1], attrs))
        elif attrs:
            raise DotError("attributes after a subgraph")


def parse_dot(text):
    return Parser(text).graph()


# ---------------------------------------------------------------- record labels (shapes.c parse_reclbl)
def parse_record(label):
    """Port of the structure handling of parse_reclbl (Graphviz 2.4x).  Returns the list of top-level fields; each
    field is a text or a nested list.  Raises DotError where Graphviz reports 'bad label format' (and, more strictly
    than Graphviz, for port brackets and for a '}' closing nothing)."""
    pos = [0]
    n = len(label)
    HASTEXT, HASTABLE, INTEXT = 1, 2, 4

    def rec(top):
        out, mode, text = [], 0, []
        while True:
            c = label[pos[0]] if pos[0] < n else ""
            if c and ord(c) < 32:
                pos[0] += 1
                continue
            if c in ("<", ">"):
                raise DotError("port bracket %r in a record label" % c)
            if c == "{":
                pos[0] += 1
                if mode != 0 or pos[0] >= n:
                    raise DotError("'{' after text in a field")
                mode = HASTABLE
                out.append(rec(False))
                continue
            if c in ("}", "|", ""):
                if c == "" and not top:
                    raise DotError("label ends inside a sub-record")
                if c == "}" and top:
                    raise DotError("'}' closes nothing")
                if not mode & HASTABLE:
                    out.append("".join(text))
                text = []
                if c == "":
                    return out
                pos[0] += 1
                if c == "}":
                    return out
                mode = 0
                continue
            if c == "\\" and pos[0] + 1 < n:
                d = label[pos[0] + 1]
                if d in "{}|<>" or d == " ":
                    pos[0] += 1
                else:
                    text.append("\\")
                    mode |= INTEXT | HASTEXT
                    pos[0] += 1
                c = label[pos[0]]
            if mode & HASTABLE and c != " ":
                raise DotError("text after a sub-record")
            if not mode & INTEXT and c != " ":
                mode |= INTEXT | HASTEXT
            text.append(c)
            pos[0] += 1
    return rec(True)


# ---------------------------------------------------------------- PlantUML class diagrams
def read_plantuml(text):
    """Structure check of a PlantUML class diagram as the exporter writes it: @startuml first, @enduml last, class
    blocks `class NAME [<<st>>] {` ... `}` not nested and all closed, optional legend block closed.  Returns the
    declared class names."""
    lines = text.split("\n")
    body = [l for l in lines if l.strip() != ""]
    if not body or body[0].strip() != "@startuml":
        raise DotError("does not start with @startuml")
    if body[-1].strip() != "@enduml":
        raise DotError("does not end with @enduml")
    if sum(1 for l in body if l.strip() == "@startuml") != 1 or sum(1 for l in body if l.strip() == "@enduml") != 1:
        raise DotError("@startuml/@enduml repeated")
    classes, in_class, in_legend = [], None, False
    for l in body[1:-1]:
        s = l.strip()
        if in_legend:
            if s == "end legend":
                in_legend = False
            continue
        if in_class is not None:
            if s == "}":
                in_class = None
            elif "{" in s or "}" in s:
                raise DotError("brace inside the body of class %s: %r" % (in_class, l))
            continue
        if s == "legend":
            in_legend = True
        elif s.startswith("class "):
            parts = s.split()
            if len(parts) < 3 or parts[-1] != "{" or "{" in " ".join(parts[:-1]) or "}" in s:
                raise DotError("bad class line %r" % l)
            if len(parts) == 4 and not (parts[2].startswith("<<") and parts[2].endswith(">>")):
                raise DotError("bad stereotype in %r" % l)
            if len(parts) > 4:
                raise DotError("bad class line %r" % l)
            in_class = parts[1]
            classes.append(parts[1])
        elif "{" in s or "}" in s:
            raise DotError("brace outside a class body: %r" % l)
    if in_class is not None:
        raise DotError("class %s not closed" % in_class)
    if in_legend:
        raise DotError("legend not closed")
    return classes
