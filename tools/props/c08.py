"""C08 — reference lists keep the textual order of the references."""
import itertools
import json
from vt import core
from vt.main import decide
from props import resolve_common as rc
from translate import resolve_tr


def enum_schedules(maxlen, maxdelay):
    """every postponement schedule for one list of n references (delay of each in 0..maxdelay) + one anchor scalar"""
    cases = []
    for n in range(1, maxlen + 1):
        for delays in itertools.product(range(maxdelay + 1), repeat=n):
            text = "item tx\n" + "".join("item t%d\n" % i for i in range(n + 1)) + \
                "holder h0 many " + ", ".join("r%d" % i for i in range(n)) + " single r%d\n" % n
            table = {str(i): {"delay": delays[i], "deps": [], "never": False, "tgt": i} for i in range(n)}
            table[str(n)] = {"delay": 0, "deps": [], "never": False, "tgt": n}   # keeps every round productive
            layout = {str(i): {"file": "main.c8", "slot": 0, "many": True, "pos": i} for i in range(n)}
            layout[str(n)] = {"file": "main.c8", "slot": 1, "many": False, "pos": n}
            cases.append({"files": {"main.c8": text}, "main": "main.c8", "table": table, "layout": layout,
                          "slots": [(0, True, "main.c8/h0/0"), (1, False, "main.c8/h0/1")], "file_order": ["main.c8"], "nrefs": n + 1, "kind": "enum"})
            rc.add_anchors(cases[-1], max(delays))
    return cases


def run(chk):
    if not chk.prove([resolve_tr.translate]):
        # say which theorem is affected: C08_order / C08_order_always live in Proofs/ResolveOrderProofs.v (facts:
        # list_store_by_position, error_condition), C08_retry_order in Proofs/ResolveRetryProofs.v (re-queue facts)
        if chk.translator_errors:
            # Gen/SrcResolve.v is stale (last successful translation): nothing is established about the current source
            chk.notes.append("the translator refused the current source: no theorem of C08 is re-established (%s)" % "; ".join(chk.translator_errors)[:300])
        else:
            for thms, target in (("C08_order, C08_order_always", "Proofs/ResolveOrderProofs.vo"), ("C08_retry_order", "Proofs/ResolveRetryProofs.vo")):
                ok, _ = core.coq_make([target])
                chk.notes.append("%s: %s against the current source (%s %s)" % (thms, "still proved" if ok else "NOT proved", target, "builds" if ok else "does not build"))
        chk.cov["still_proved"] = [n for n in chk.notes if "still proved" in n]
        for n in chk.notes:
            print("NOTE property=C08 " + n)
    cases = rc.corpus_cases("C08") + enum_schedules(4 if chk.thorough else 3, 3 if chk.thorough else 2)
    # an anchor that resolves late keeps postponed rounds alive: add chained anchors
    n = 1500 if chk.thorough else 250
    for i in range(n):
        r = chk.rng.split(i)
        c = rc.build_case(r, r.range(2, 9), r.weighted([(1, 5), (2, 3), (3, 2)]), "schedule" if i % 3 else "mixed")
        c["kind"] = "random"
        if r.chance(0.8):
            rc.add_anchors(c, max(t["delay"] for t in c["table"].values()))
        cases.append(c)
    impl, vals, errs = rc.run_cases(chk, cases)
    disagreements, failures = [], []
    if errs:
        disagreements.append({"case": "coq evaluation", "model": errs[:2]})
    for c, mv in zip(cases, vals):
        o = impl[id(c)]
        ic = rc.impl_canon(c, o)
        postponed = len(o["log"]) > c["nrefs"]
        chk.count(json.dumps([c["files"], c["table"]], sort_keys=True), nontrivial=postponed)
        chk.stat(c["kind"])
        chk.stat("outcome=" + o["outcome"].split(":")[0])
        if mv is not None and ic != mv:
            disagreements.append({"case": {"files": c["files"], "table": c["table"]}, "impl": ic, "model": mv})
        # property oracle: on success every list holds its targets in textual order
        if o["outcome"] == "ok":
            for s, many, key in c["slots"]:
                if not many:
                    continue
                ids = sorted([int(i) for i, l in c["layout"].items() if l["slot"] == s], key=lambda i: c["layout"][str(i)]["pos"])
                want = ["t%d" % c["table"][str(i)]["tgt"] for i in ids]
                if o["slots"].get(key) != want:
                    failures.append({"case": {"files": c["files"], "table": c["table"]}, "impl": o,
                                     "what": "list %s is %r, textual order is %r" % (key, o["slots"].get(key), want), "tags": []})
                    break
        elif o["outcome"].startswith("EXC") or o["outcome"].startswith("semantic") or o["outcome"].startswith("textx"):
            failures.append({"case": {"files": c["files"], "table": c["table"]}, "impl": o, "what": "unexpected load outcome " + o["outcome"], "tags": []})
        if chk.cov["evaluations"] % 120 == 11:
            chk.sample({"files": c["files"], "table": c["table"], "impl": ic})
    chk.cov["rule"] = ("every postponement schedule (delay 0..%d per reference) for one list of 1..%d references, plus %d random models (2-9 references in lists and scalars over 1-3 files, "
                       "random delays, a third also with dependency tables); the scripted scope provider and the model's table provider answer from the same table; "
                       "non-trivial = at least one Postponed answer; distinct by (files, table)" % ((3, 4, n) if chk.thorough else (2, 3, n)))
    chk.assumptions += ["the scripted provider (tools/impl/c08.py) identifies a reference by its text; targets are per-file items",
                        "model order inside a round is read off the implementation's first-round call log"]
    decide(chk, failures, disagreements)
