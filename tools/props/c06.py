"""C06 - object source spans and locations are exact.

Pipeline: Props/C06.v (theorems about Model/Build.v positions, get_location, pos_to_linecol on
Model/Peg.v trees) -> generated grammars x derived/mutated inputs with random layout and comments ->
the real textX (tools/impl/c01.py: model_from_str and model_from_file, get_location of every object)
vs Build(Peg.run ...) on the dumped parser model + metamodel (object graph with positions and
locations) -> property oracle on the implementation's objects (non-empty slice, nesting, list
order, line/col/nchar/filename, span = extent of what the rule matched per the reference
semantics Model/Spec.v) -> decide.
"""
import json

from vt import core
from vt.main import decide
from props import build_common as bc
import pegdump

WF_DEF = """
Definition show_wf (g : grammar) (c : config) (mm : list ninfo) (tbl : list ((nat * nat) * nat)) (fuel : nat) (input : list N) : string :=
  match run g c (orc_of tbl) false fuel input with
  | Parsed (RTree (NT _ (t :: _))) => (if wf_tree t then "T" else "F") ++ (if asg_placed mm false t then "T" else "F") ++
      (if (wfg g 24 && nosep g && eof_ok g && negb (existsb (fun e => Nat.eqb (snd e) 0) tbl))%bool then "T" else "F") ++
      (if BuildPlaced.table_asg_ok g mm 24 then "T" else "F") ++
      (if (wfg g 24 && negb (existsb (fun e => Nat.eqb (snd e) 0) tbl))%bool then "T" else "F")
  | _ => "-"
  end.
"""


def wf_expr(ci, res, run, text):
    return "show_wf g%d c%d m%d %s %d %s" % (ci, ci, ci, pegdump.coq_table(run["table"]), bc.FUEL, pegdump.coq_str(text))


def location_spec(text, pos):
    """the property's statement of line/col, directly on the text"""
    line = 1 + text.count("\n", 0, pos)
    col = pos - (text.rfind("\n", 0, pos) + 1) + 1
    return line, col


def check_objects(text, value, file_name):
    """Property oracle on the implementation's dump. Returns list of (what, kind)."""
    bad = []
    n = len(text)
    for o, parent, attr in bc.iter_objects(value):
        p, e = o["pos"], o["end"]
        where = "%s@%s-%s" % (o["cls"], p, e)
        if not (isinstance(p, int) and isinstance(e, int) and 0 <= p <= e <= n):
            bad.append(("%s: positions outside the input" % where, "span"))
            continue
        if p == e:
            bad.append(("%s: empty slice" % where, "span"))
        if parent is not None and not (parent["pos"] <= p and e <= parent["end"]):
            bad.append(("%s: not inside its parent %s@%s-%s" % (where, parent["cls"], parent["pos"], parent["end"]), "span"))
        loc = o["loc"]
        if not isinstance(loc, list):
            bad.append(("%s: get_location raised %s" % (where, loc), "loc"))
        else:
            line, col = location_spec(text, p)
            if loc != [line, col, e - p, file_name]:
                bad.append(("%s: get_location = %r, expected %r" % (where, loc, [line, col, e - p, file_name]), "loc"))
        if not o["parent_ok"]:
            bad.append(("%s: parent link wrong" % where, "parent"))
        for a, x in o["attrs"]:
            if isinstance(x, dict) and "l" in x:
                last = None
                for y in x["l"]:
                    if isinstance(y, dict) and "cls" in y:
                        if last is not None and not (last["end"] <= y["pos"]):
                            bad.append(("%s.%s: list elements %s-%s and %s-%s overlap or are out of order" % (
                                where, a, last["pos"], last["end"], y["pos"], y["end"]), "span"))
                        last = y
    return bad


def run(chk):
    chk.prove([])
    n, per = (450, 4) if chk.thorough else (90, 3)
    cases = bc.gen_cases(chk, n, per, files=True)
    results = bc.run_impl(cases)
    from props.c01 import spec_expr, SPEC_IMPORTS, spec_extents, classify_dump, feature_tags, nid_class   # shared with C01
    vals, errs = bc.eval_model("C06", results, [bc.build_expr, wf_expr, spec_expr],
                                imports=SPEC_IMPORTS.replace("Model.Spec.", "Model.Spec Proofs.SpecProofs Proofs.SpecSepProofs Proofs.SpecWf.\nFrom TxV Require Proofs.BuildPlaced.", 1) + WF_DEF)
    disagreements, failures = [], []
    if errs:
        disagreements.append({"case": "coq evaluation", "model": errs[:2]})
    for ci, (case, res) in enumerate(results):
        if res["grammar_error"]:
            chk.stat("grammar rejected: " + res["grammar_error"].split(":")[0])
            continue
        cls_tags = classify_dump(res["dump"]) | feature_tags(res["dump"])
        cls_of = nid_class(res)
        for ii, (text, run_) in enumerate(zip(case["inputs"], res["runs"])):
            if run_.get("timeout") or run_.get("unsupported"):
                chk.stat("input skipped (timeout/unsupported)")
                continue
            cinfo = {"grammar": case["grammar"], "opts": case["opts"], "input": text, "tag": case.get("tag")}
            im = run_["model"]
            mv = vals.get((ci, ii))
            accepted = im["ok"]
            has_obj = accepted and any(True for _ in bc.iter_objects(im["value"]))
            chk.count(json.dumps([case["grammar"], case["opts"], text]), nontrivial=has_obj)
            chk.stat("impl: %s" % ("model with objects" if has_obj else ("accepted, no object" if accepted else im["err"].split(":")[0])))
            if mv is None or mv[0] is None:
                disagreements.append({"case": cinfo, "impl": im, "model": None})
                continue
            # ---- correspondence (string load)
            m = bc.model_outcome(mv[0])
            if m.get("err") == "unsup":
                chk.stat("model: outside the modelled fragment")
            elif not bc.outcomes_agree(m, im):
                disagreements.append({"case": cinfo, "impl": im, "model": m})
            # ---- correspondence (file load): same text, file name in the locations
            fm = run_.get("model_file")
            if fm is not None:
                if "\r" in text:
                    chk.stat("file load skipped (newline translation changes the text)")
                else:
                    mf = bc.model_outcome(mv[0], file_name=run_["file_name"])
                    if mf.get("err") != "unsup" and not bc.outcomes_agree(mf, fm):
                        disagreements.append({"case": dict(cinfo, load="file"), "impl": fm, "model": mf})
            # ---- property oracle on the implementation
            wf = mv[1][:1]
            if mv[1][2:3] == "T" and wf == "F":
                # C06_run_wf: in the class, without separators, EOF only at the top, no empty regex match: the tree is well formed
                disagreements.append({"case": cinfo, "impl": "tree not well formed although the hypotheses of C06_run_wf hold", "model": mv[1]})
            if mv[1][2:3] == "T":
                chk.stat("trees covered by C06_run_wf")
            if mv[1][3:4] == "F":
                chk.stat("table_asg_ok false (the derived asg_placed does not apply)")
            elif mv[1][4:5] == "T":
                chk.stat("trees whose asg_placed is derived from the table (C06_asg_placed_of_run)")
                if mv[1][1:2] == "F":
                    disagreements.append({"case": cinfo, "impl": "asg_placed false although table_asg_ok and wfg hold", "model": mv[1]})
            if mv[1][1:2] == "F":
                # hypothesis of C06_objects_nested_ordered: assignment nodes are children of common-rule nodes
                disagreements.append({"case": cinfo, "impl": "an assignment node outside a common-rule node in the parse tree", "model": mv[1]})
            chk.stat("model tree: %s" % {"T": "well-formed", "F": "not well-formed", "-": "no tree"}.get(wf, "?"))
            for which, out, fname in (("str", im, None), ("file", fm, run_.get("file_name"))):
                if out is None or not out["ok"] or (which == "file" and "\r" in text):
                    continue
                bad = check_objects(text, out["value"], fname)
                # span = extent of what the rule matched, per the reference semantics
                ext = spec_extents(mv[2])
                tree = run_["tree"]
                if ext is not None and ext["ok"] and (("P:" + ext["tree"]) == tree or "separator" in cls_tags):
                    spans = {(cls_of[nid], a, b) for nid, a, b in ext["spans"] if nid in cls_of}
                    for o, parent, attr in bc.iter_objects(out["value"]):
                        if (o["cls"], o["pos"], o["end"]) not in spans:
                            bad.append(("%s@%s-%s: the span is not the extent of what a %s rule matched; the reference semantics give %s" % (
                                o["cls"], o["pos"], o["end"], o["cls"],
                                sorted((p, e) for c, p, e in spans if c == o["cls"])), "extent"))
                for what, kind in bad:
                    tags = []
                    if kind in ("span", "extent"):
                        tags = list(cls_tags) + (["tree_not_wf"] if wf == "F" else [])
                    failures.append({"case": dict(cinfo, load=which), "what": what, "tags": tags, "impl": out, "model": m})
            if chk.cov["evaluations"] % 60 == 5 and has_obj:
                chk.sample({"grammar": case["grammar"], "input": text, "impl": json.dumps(bc.strip_impl(im["value"]))[:300]})
    chk.cov["rule"] = ("generated textX grammars (2-6 rules; common/abstract/match rules, all assignment operators, separators, eolterm, "
                       "predicates, suppression, rule modifiers, Comment rules; metamodel options skipws/ws/auto_init_attributes/"
                       "use_regexp_group) + a corpus of span-critical shapes x inputs derived from the grammar with random leading/"
                       "trailing/interleaved whitespace and comments and token/character mutations; each loaded from a string and from "
                       "a file; every object's _tx_position/_tx_position_end/get_location compared with Build(Peg.run) and checked "
                       "against the property; non-trivial = the load produced at least one object; distinct by (grammar, options, input)")
    chk.assumptions += ["tools/pegdump.py and tools/mmdump.py dump the live parser model and metamodel faithfully (fail closed)",
                        "regex terminals: matched lengths and group spans supplied by Python's re for the concrete input; theorems hold for every oracle",
                        "Model/Peg.v (Arpeggio interpreter) is validated by correspondence, not verified",
                        "base-type conversions are evaluated by the checker with Python's int/float/str (mirror of metamodel.py:300-316)",
                        "bisect.bisect_left modelled as 'number of elements below' on the sorted line-end list"]
    bc.debug_dump(chk, failures, disagreements)
    decide(chk, failures, disagreements)
