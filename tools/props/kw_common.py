"""Shared helpers of the C20 (ignore_case) and C21 (autokwd) checks: grammar/input generators with
keyword-flavoured literal pools (built on a PRIVATE copy of tools/peggen.py, the shared module is
not modified), Coq text helpers, tree-string helpers.  Pure (no textX import)."""
import importlib.util
import os
import re

from vt import core
import pegdump

HERE = os.path.dirname(os.path.abspath(__file__))
FUEL = 120

IMPORTS = ("From TxV Require Import Core.Base Core.Show Model.PegSyntax Model.Peg Model.PegShow Model.Build Model.KwDefs Gen.SrcKw Model.Kw.\n"
           "Open Scope string_scope.\n"
           "Definition show_spec (s : term_spec) : string :=\n"
           "  match s with\n"
           "  | TStr t ic => \"S|\" ++ show_str t ++ \"|\" ++ show_bool ic\n"
           "  | TRegex pat ic repr => \"R|\" ++ show_str pat ++ \"|\" ++ show_bool ic ++ \"|\" ++ show_str repr\n"
           "  end.\n")


def _private_peggen(tag, lits, regexes, seps):
    """A private instance of the shared generator module with its own literal / regex pools and
    separator choices (keyword separators are what C20/C21 are about)."""
    spec = importlib.util.spec_from_file_location("peggen_" + tag, os.path.join(os.path.dirname(HERE), "peggen.py"))
    mod = importlib.util.module_from_spec(spec)
    spec.loader.exec_module(mod)
    mod.LITS = list(lits)
    mod.REGEXES = list(regexes)
    base = mod.GGen

    class KwGGen(base):
        def mods(self):
            r = self.r
            sep = None
            if r.chance(0.4):
                sep = ("str", r.choice(seps)) if r.chance(0.85) else ("re", 4)
            eol = self.f.get("eolterm", True) and r.chance(0.15)
            return sep, eol
    mod.GGen = KwGGen
    return mod


# index 4 of a regex pool is used as a separator by the generator: keep it `[ \t]*`
REGEXES20 = [(r"\d+", ["1", "42", "7"]), (r"[a-z]+", ["ab", "x", "foo", "q"]), (r"\w+", ["a1", "zz", "x"]),
             (r"x*", ["", "x", "xx"]), (r"[ \t]*", ["", " "]), (r"[A-Z]\w*", ["Ab", "Q"]), (r"[a-c]+X", ["abX", "cX"]),
             (r"k[0-9]?", ["k", "k1"]),
             # exactly one group: read through the group oracle when use_regexp_group is set
             (r"<(\w+)>", ["<ab>", "<Xy>"]), (r"(\d+)%", ["5%", "12%"])]
LITS20 = ["begin", "End", "x", "IF", "k", "q", ";", ",", "+", "Kw", "a-B", "ñu", "x y", "and"]
SEPS20 = [",", ";", "and", "OR", "+"]

REGEXES21 = [(r"\d+", ["1", "42", "7"]), (r"[a-z]+", ["ab", "x", "foo", "q"]), (r"\w+", ["a1", "zz", "x"]),
             (r"x*", ["", "x", "xx"]), (r"[ \t]*", ["", " "]), (r"[A-Z]\w*", ["Ab", "Q"]), (r"[^;\n]+", ["a b", "x"]),
             (r"if\b", ["if"]), (r"<(\w+)>", ["<ab>", "<x>"]), (r"(\d+)%", ["5%", "12%"])]
LITS21 = ["a", "if", "x", "kw", "k2", "_b", ";", "+", ",", "a-b", "1a", "ñ", "x y", "in", "é1", "٣a", "a.", "=>", "b_", "end\n", "k\n", "\tb", "a$"]
SEPS21 = [",", ";", "and", "x", "+", "_"]

_GEN = {}


def gen(tag):
    if tag not in _GEN:
        _GEN[tag] = {"c20": lambda: _private_peggen("c20", LITS20, REGEXES20, SEPS20),
                     "c21": lambda: _private_peggen("c21", LITS21, REGEXES21, SEPS21)}[tag]()
    return _GEN[tag]


# ---------------------------------------------------------------- dumps
def is_word(c):
    return re.match(r"\w", c) is not None


def is_digit(c):
    return re.match(r"\d", c) is not None


def class_extras(texts):
    """Non-ASCII characters of a case: (word characters, digits, (char, lower) pairs) as Python's re / str see them."""
    chars = {c for t in texts for c in t if ord(c) >= 128}
    # closed under case partners, so that the classification does not depend on case (hypothesis of C21_check_sound)
    chars |= {x for c in chars for x in (c.lower(), c.upper(), c.swapcase()) if len(x) == 1 and ord(x) >= 128}
    chars = sorted(chars)
    w = [c for c in chars if is_word(c)]
    d = [c for c in chars if is_digit(c)]
    lo = [(c, c.lower()) for c in chars if len(c.lower()) == 1 and c.lower() != c]
    return w, d, lo


def coq_codes(cs):
    return "[" + ";".join("%d" % ord(c) for c in cs) + "]%N"


def coq_pairs(ps):
    if not ps:
        return "(@nil (N * N))"
    return "[" + ";".join("(%d,%d)%%N" % (ord(a), ord(b)) for a, b in ps) + "]"


def literal_texts(dump):
    return [n["text"] for n in dump["nodes"] if n["kind"] in ("KStr", "KRegex") and n["text"] is not None]


def strip_sup(tree):
    """parse-tree string without the Terminal.suppress markers"""
    return tree.replace("-", "")


TERM_RE = re.compile(r"t(\d+)@(\d+)\+(\d+)")


def terminals(tree):
    return [(int(a), int(b), int(c)) for a, b, c in TERM_RE.findall(tree)]


def model_equiv_impl(m, t):
    if m == t:
        return True
    if m is None:
        return False
    if m.startswith("A:0") and t in ("X:RecursionError",):
        return True
    if m.startswith("A:1") and t.startswith("X:") and t != "X:RecursionError":
        return True
    return False


# ---------------------------------------------------------------- model values
def model_struct_equal(a, b, text_a, text_b, notes):
    """Canonical models (from the runner) equal up to the letter case of string values (a match rule may
    concatenate grammar spellings and input slices, so values are not compared with the text here; that a
    regex terminal yields the input slice and a StrMatch the grammar literal is checked on the parse tree
    by the runner)."""
    if type(a) is not type(b):
        return False
    if isinstance(a, dict):
        if "s" in a:
            if "s" not in b:
                return False
            if a["s"] == b["s"]:
                return True
            if a["s"].lower() != b["s"].lower():
                return False
            return True
        if set(a) != set(b):
            return False
        return all(model_struct_equal(a[k], b[k], text_a, text_b, notes) for k in a)
    if isinstance(a, list):
        return len(a) == len(b) and all(model_struct_equal(x, y, text_a, text_b, notes) for x, y in zip(a, b))
    return a == b


# ---------------------------------------------------------------- one Coq expression per case
SEP = "~"


def case_expr(lets, parts):
    """(let x := v in ... sjoin "~" [part; ...])%string : the (large) grammar terms of a case appear once,
    inside the only expression that needs them, so every evaluation shard carries only its own grammars."""
    head = " ".join("let %s := %s in" % (n, v) for n, v in lets)
    return "(%s sjoin \"%s\" [%s])%%string" % (head, SEP, "; ".join("(%s)%%string" % x for x in parts))


def eval_cases(tag, per_case, shard=60, defs=""):
    """per_case: list of (lets, parts, keys). Returns ({key: value}, errors)."""
    exprs = [case_expr(lets, parts) for lets, parts, _ in per_case]
    vals, errs = core.coq_eval(tag, IMPORTS, exprs, shard=shard, defs=defs)
    out = {}
    errs = list(errs)
    for (lets, parts, keys), v in zip(per_case, vals):
        if v is None:
            continue
        xs = v.split(SEP)
        if len(xs) != len(keys):
            errs.append("case result has %d parts, expected %d" % (len(xs), len(keys)))
            continue
        out.update(zip(keys, xs))
    return out, errs


# ---------------------------------------------------------------- model level (Model/Build.v, read only)
def build_part(g, c, m, run, res, text):
    """Coq expression: parse + model construction on the dumped tables (show_build of the C01/C06 model)"""
    import mmdump
    return "show_build %s %s %s %s %s %s %s %d %s" % (
        g, c, m, pegdump.coq_table(run["table"]), mmdump.coq_gtable(run.get("gtable", [])),
        "true" if res["auto"] else "false", "true" if res["use_grp"] else "false", FUEL, pegdump.coq_str(text))


def shape_rel(a, b, exact):
    """two model values in the C01/C06 dump shape: identical, or (not exact) identical up to the letter case of strings"""
    if exact:
        return a == b
    if type(a) is not type(b):
        return False
    if isinstance(a, dict):
        if set(a) != set(b):
            return False
        if "s" in a and len(a) == 1:
            return a["s"].lower() == b["s"].lower()
        return all(shape_rel(a[k], b[k], exact) for k in a)
    if isinstance(a, list):
        return len(a) == len(b) and all(shape_rel(x, y, exact) for x, y in zip(a, b))
    return a == b
