"""C34 — editor-support positions (_pos_crossref_list, _pos_rule_dict) identify references and
objects exactly.

Cases are multi-file documents of a fixed grammar (tools/impl/c34.py) generated together with
the exact spans of every object and reference text (computed here while printing the text,
independently of the parser).  Each case is run on the implementation and on the Coq model
(Model/EdPos.v: load_trees / rule_dict), the outcomes are diffed, and the property oracle below
is applied to the implementation's output."""
import glob
import json
import os
from vt import core
from vt.main import decide
from translate import edpos_tr

EXT = ".c34"
UNI = ["é", "ж", "λ", "\U0001d4b3"]   # letters outside ASCII / BMP: offsets are code points


# ---------------------------------------------------------------- abstract documents
def gen_struct(r, nfiles, mode, size):
    """files: name -> {"imports": [...], "elems": [...]}; names are unique over the whole case."""
    ctr = [0]

    def name(prefix):
        ctr[0] += 1
        n = "%s%d" % (prefix, ctr[0])
        if r.chance(0.06):
            n += r.choice(UNI)
        return n

    def elems(depth, top, budget):
        res = []
        n = r.range(1 if top else 0, size)
        for _ in range(n):
            if budget[0] <= 0:
                break
            budget[0] -= 1
            kind = r.weighted([("pkg", 3 if depth < 3 else 0), ("item", 4), ("wrap", 3), ("use", 3), ("one", 3),
                               ("inst", 2 if top else 0), ("pick", 2)])
            if kind == "pkg":
                res.append({"k": "pkg", "name": name("p"), "elems": elems(depth + 1, False, budget)})
            elif kind == "item":
                res.append({"k": "item", "name": name("i")})
            elif kind == "wrap":
                nc = r.weighted([(1, 5), (2, 3), (3, 1)])
                res.append({"k": "wrap", "cores": [name("c") for _ in range(nc)], "extra": name("x") if r.chance(0.4) else None})
            elif kind == "use":
                res.append({"k": "use", "refs": [{} for _ in range(r.weighted([(1, 3), (2, 3), (3, 2), (4, 1)]))]})
            elif kind == "one":
                res.append({"k": "one", "ref": {}})
            elif kind == "inst":
                res.append({"k": "inst", "name": name("n"), "type": {}})
            else:
                res.append({"k": "pick", "val": {}, "inst": {}})
        return res

    names = ["main" + EXT] + ["f%d%s" % (k, EXT) for k in range(1, nfiles)]
    files = {}
    for fi, f in enumerate(names):
        imports = []
        if fi == 0:
            imports = [g for g in names[1:] if r.chance(0.8)]
        else:
            for g in names:
                if g != f and r.chance(0.25):
                    imports.append(g)        # may import main again: cycles
        es = elems(0, True, [4 * size])
        if r.chance(0.85):
            es.insert(r.below(len(es) + 1), {"k": "item", "name": name("i")})    # something to refer to
        if mode == "real" and r.chance(0.55):
            # a package with items, an instance of it and picks, in any order: RelativeName postpones
            kit = [{"k": "pkg", "name": name("p"), "elems": [{"k": "item", "name": name("i")} for _ in range(r.range(1, 3))]},
                   {"k": "inst", "name": name("n"), "type": {}}] + [{"k": "pick", "val": {}, "inst": {}} for _ in range(r.range(1, 2))]
            for e in kit:
                es.insert(r.below(len(es) + 1), e)
        files[f] = {"imports": imports, "elems": es}
    return names, files


def reachable(names, files):
    seen, todo = [], [names[0]]
    while todo:
        f = todo.pop(0)
        if f in seen:
            continue
        seen.append(f)
        todo += files[f]["imports"]
    return [f for f in names if f in seen]


def named_objects(files, order):
    """[(file, cls, name, path (pkg names from the file root), top-level?, parent pkg path)]"""
    res = []

    def walk(f, es, path):
        for e in es:
            if e["k"] == "pkg":
                res.append({"file": f, "cls": "Pkg", "name": e["name"], "path": path, "node": e})
                walk(f, e["elems"], path + [e["name"]])
            elif e["k"] == "item":
                res.append({"file": f, "cls": "Item", "name": e["name"], "path": path, "node": e})
            elif e["k"] == "inst":
                res.append({"file": f, "cls": "Inst", "name": e["name"], "path": path, "node": e})
            elif e["k"] == "wrap":
                for c in e["cores"]:
                    res.append({"file": f, "cls": "Core", "name": c, "path": path, "node": e})
    for f in order:
        walk(f, files[f]["elems"], [])
    return res


def fqn_text(r, parts):
    out = parts[0]
    for p in parts[1:]:
        out += r.weighted([(".", 8), (" . ", 1), (". ", 1), (" .", 1)]) + p
    return out


def assign_targets(r, files, order, mode, malformed, group=None, bis=()):
    objs = named_objects(files, order)
    group = group or {f: 0 for f in order}

    def refs_of(f):
        res = []

        def walk(es, path):
            for e in es:
                if e["k"] == "pkg":
                    walk(e["elems"], path + [e["name"]])
                elif e["k"] == "use":
                    res.extend(("use", x, path, e) for x in e["refs"])
                elif e["k"] == "one":
                    res.append(("one", e["ref"], path, e))
                elif e["k"] == "inst":
                    res.append(("type", e["type"], path, e))
                elif e["k"] == "pick":
                    res.append(("val", e["val"], path, e))
                    res.append(("inst", e["inst"], path, e))
        walk(files[f]["elems"], [])
        return res

    def set_ref(x, target, parts, delay=0):
        x["target"] = None if target is None else {"file": target["file"], "cls": target["cls"], "name": target["name"]}
        x["text"] = fqn_text(r, parts)
        x["name"] = ".".join(parts)
        x["delay"] = delay
        x["builtin"] = False

    def set_builtin(x, delay=0):
        set_ref(x, None, [r.choice(list(bis))], delay)
        x["builtin"] = True

    if mode == "scripted":
        allrefs = [(f,) + t for f in order for t in refs_of(f)]
        for f, kind, x, path, e in allrefs:
            delay = r.weighted([(0, 5), (1, 3), (2, 2), (3, 1)])
            if bis and kind in ("use", "one") and r.chance(0.25):
                set_builtin(x, delay)
                continue
            # the scripted provider can only return objects of files loaded so far
            cand = [o for o in objs if group[o["file"]] <= group[f]]
            t = r.choice(cand) if cand and not (malformed and r.chance(0.1)) else None
            shape = r.weighted([("own", 4), ("full", 4), ("rand", 2)])
            if t is None or shape == "rand":
                parts = [r.choice(["a", "b", "zz", "q7"]) for _ in range(r.range(1, 3))]
            elif shape == "own":
                parts = [t["name"]]
            else:
                parts = t["path"] + [t["name"]]
            if kind in ("val",):
                parts = parts[-1:]           # Pick.val is a plain ID in the grammar
            set_ref(x, t, parts, delay)
        if not (malformed and r.chance(0.5)):
            for g in sorted(set(group.values())):      # contiguous delays per load: every round resolves something
                mine = [x for f, _, x, _, _ in allrefs if group[f] == g]
                rank = {d: i for i, d in enumerate(sorted({x["delay"] for x in mine}))}
                for x in mine:
                    x["delay"] = rank[x["delay"]]
        return True

    # real providers: FQNImportURI + RelativeName("inst.type.elems")
    dg = [0]
    for f in order:
        vis_files = [f] + [g for g in files[f]["imports"] if g != f]
        vis = [o for o in objs if o["file"] in vis_files and o["cls"] != "Core"
               and (o["cls"] != "Inst" or not o["path"])]
        rs = refs_of(f)
        # 1) Inst.type
        for kind, x, path, e in rs:
            if kind != "type":
                continue
            pk = [o for o in vis if o["cls"] == "Pkg"]
            if not pk:
                e["k"] = "item"      # no package visible: degrade to an item
                continue
            t = r.choice(pk)
            set_ref(x, t, t["path"] + [t["name"]])
            e["type_obj"] = t
    for f in order:
        vis_files = [f] + [g for g in files[f]["imports"] if g != f]
        vis = [o for o in objs if o["file"] in vis_files and o["cls"] != "Core"]
        insts = [o for o in vis if o["cls"] == "Inst" and o["node"]["k"] == "inst"]
        vis = [o for o in vis if o["cls"] != "Inst" or o["node"]["k"] == "inst"]
        for kind, x, path, e in refs_of(f):
            if kind in ("use", "one"):
                if bis and r.chance(0.25):
                    set_builtin(x)
                    continue
                if malformed and r.chance(0.12):
                    set_ref(x, None, ["zz9"])
                    continue
                t = r.choice(vis) if vis else None
                if t is None:
                    set_ref(x, None, ["zz9"])
                    continue
                parts = t["path"] + [t["name"]]
                if t["file"] == f and path[:len(t["path"])] == t["path"] and r.chance(0.5):
                    parts = [t["name"]]          # target's container encloses the reference: bare name
                set_ref(x, t, parts)
            elif kind == "inst":
                good = []
                for o in insts:
                    tp = o["node"].get("type_obj")
                    if tp is not None:
                        its = [c for c in tp["node"]["elems"] if c["k"] == "item"]
                        if its:
                            good.append((o, its))
                if not good:
                    dg[0] += 1
                    e["k"] = "item"              # nothing to pick from: degrade to an item
                    e["name"] = "dg%d" % dg[0]
                    continue
                o, its = r.choice(good)
                set_ref(x, o, [o["name"]])
                it = r.choice(its)
                tp = o["node"]["type_obj"]
                set_ref(e["val"], {"file": tp["file"], "cls": "Item", "name": it["name"]}, [it["name"]])
    return True


# ---------------------------------------------------------------- printing with exact spans
class Doc:
    def __init__(self, r):
        self.r = r
        self.parts = []
        self.pos = 0
        self.first = True

    def raw(self, s):
        self.parts.append(s)
        self.pos += len(s)

    def tok(self, s):
        if self.first:
            self.first = False
            if self.r.chance(0.12):
                self.raw(self.r.choice([" ", "\n", "\n\n  "]))
        else:
            self.raw(self.r.weighted([(" ", 12), ("\n", 3), ("  ", 1), ("\n    ", 2), ("\t", 1), ("   ".strip(" ") and " ", 1)]))
        a = self.pos
        self.raw(s)
        return a, self.pos

    def text(self):
        return "".join(self.parts)


def emit_file(r, fdesc, ids, fidx):
    """returns (text, tree, refs) ; tree nodes: ["o", id, s, e, cls, kids] | ["r", id, s, e, name] | ["t", s, e]"""
    d = Doc(r)
    refs = []

    def T(s):
        a, b = d.tok(s)
        return ["t", a, b]

    def obj(cls, kids):
        ids["obj"] += 1
        return ["o", ids["obj"], 0, 0, cls, kids]

    def close(n):
        ks = n[5]
        first, last = ks[0], ks[-1]
        n[2] = first[1] if first[0] == "t" else first[2]
        n[3] = last[2] if last[0] == "t" else last[3]
        return n

    def ref(x):
        a, b = d.tok(x["text"])
        ids["ref"] += 1
        node = ["r", ids["ref"], a, b, x["name"]]
        refs.append({"id": ids["ref"], "s": a, "e": b, "text": x["text"], "name": x["name"], "delay": x["delay"],
                     "target": x["target"], "file": fidx, "builtin": bool(x.get("builtin"))})
        return node

    def core(nm):
        return close(obj("Core", [T("core"), T(nm)]))

    def elem(e):
        k = e["k"]
        if k == "pkg":
            kids = [T("pkg"), T(e["name"]), T("{")] + [elem(c) for c in e["elems"]] + [T("}")]
            n = close(obj("Pkg", kids))
        elif k == "item":
            n = close(obj("Item", [T("item"), T(e["name"])]))
        elif k == "wrap":
            mk = [core(e["cores"][0])]
            for c in e["cores"][1:]:
                mk += [T("plus"), core(c)]
            mid = close(obj("Mid", mk))
            wk = [mid]
            if e["extra"]:
                wk += [T("with"), T(e["extra"])]
            n = close(obj("Wrap", wk))
        elif k == "use":
            kids = [T("use")]
            for i, x in enumerate(e["refs"]):
                if i:
                    kids.append(T(","))
                kids.append(ref(x))
            kids.append(T(";"))
            n = close(obj("Use", kids))
        elif k == "one":
            n = close(obj("One", [T("one"), ref(e["ref"])]))
        elif k == "inst":
            n = close(obj("Inst", [T("inst"), T(e["name"]), T(":"), ref(e["type"])]))
        elif k == "pick":
            n = close(obj("Pick", [T("pick"), ref(e["val"]), T("of"), ref(e["inst"])]))
        else:
            raise AssertionError(k)
        e["_span"] = (n[2], n[3])
        return n

    kids = []
    for g in fdesc["imports"]:
        kids.append(close(obj("Import", [T("import"), T('"%s"' % g)])))
    for e in fdesc["elems"]:
        kids.append(elem(e))
    tree = close(obj("Model", kids))
    if r.chance(0.3):
        d.raw(r.choice(["\n", " ", "\n\n"]))
    return d.text(), tree, refs


def objects_of(tree, depth=0, acc=None):
    acc = [] if acc is None else acc
    if tree[0] == "o":
        for k in tree[5]:
            objects_of(k, depth + 1, acc)
        acc.append({"id": tree[1], "s": tree[2], "e": tree[3], "cls": tree[4], "depth": depth})   # post-order
    return acc


def build_case(r, mode, nfiles, size, malformed=False, from_str=False):
    names, files = gen_struct(r, nfiles, mode, size)
    if from_str:
        files[names[0]]["imports"] = []
    loads = [names[0]]
    if not from_str and nfiles >= 2 and r.chance(0.3):
        loads = [r.choice(names[1:]), names[0]]       # another file is loaded first: global repository
    grepo = len(loads) > 1 or (not from_str and r.chance(0.15))
    bis = ["b1", "b2"] if r.chance(0.4) else []
    reach = {m: reachable([m] + [n for n in names if n != m], files) for m in loads}
    order = [f for f in names if any(f in reach[m] for m in loads)]
    group = {f: min(k for k, m in enumerate(loads) if f in reach[m]) for f in order}
    assign_targets(r, files, order, mode, malformed, group, bis)
    return finish_case(r, names, files, order, mode, from_str, loads=loads, reach=reach, bis=bis, grepo=grepo)


def finish_case(r, names, files, order, mode, from_str=False, loads=None, reach=None, bis=(), grepo=False):
    """print the files (exact spans), index the targets, build the provider table"""
    ids = {"obj": 0, "ref": 0}
    texts, trees, refs = {}, {}, {}
    for fi, f in enumerate(order):
        texts[f], trees[f], refs[f] = emit_file(r, files[f], ids, fi)
    # resolve target descriptions to (file index, span)
    spans = {}

    def index(f, es):
        for e in es:
            if e["k"] == "pkg":
                spans[(f, "Pkg", e["name"])] = e["_span"]
                index(f, e["elems"])
            elif e["k"] == "item":
                spans[(f, "Item", e["name"])] = e["_span"]
            elif e["k"] == "inst":
                spans[(f, "Inst", e["name"])] = e["_span"]
    for f in order:
        index(f, files[f]["elems"])
    # cores: find by walking trees (name token follows 'core')
    for f in order:
        def walk(n):
            if n[0] == "o":
                if n[4] == "Core":
                    nm = texts[f][n[5][1][1]:n[5][1][2]]
                    spans[(f, "Core", nm)] = (n[2], n[3])
                for k in n[5]:
                    walk(k)
        walk(trees[f])
    table = {}
    for f in order:
        for x in refs[f]:
            t = x["target"]
            x["tspan"] = None
            if t is not None:
                sp = spans.get((t["file"], t["cls"], t["name"]))
                if sp is not None and t["file"] in order:
                    x["tspan"] = [order.index(t["file"]), sp[0], sp[1]]
                else:
                    x["target"] = None
            table["%s:%d" % (f, x["s"])] = {"delay": x["delay"], "target": x["target"]}
    loads = loads or [names[0]]
    reach = reach or {names[0]: list(order)}
    return {"mode": mode, "main": names[0], "from_str": from_str, "files": {f: texts[f] for f in order}, "order": order,
            "table": table if mode == "scripted" else {}, "trees": trees, "refs": refs,
            "loads": loads, "reach": {m: [f for f in order if f in reach[m]] for m in loads}, "builtins": list(bis), "grepo": bool(grepo)}


def norm_case(c):
    """defaults for corpus cases recorded before loads/builtins existed"""
    c.setdefault("loads", [c["main"]])
    c.setdefault("reach", {c["main"]: list(c["order"])})
    c.setdefault("builtins", [])
    c.setdefault("grepo", False)
    for f in c["order"]:
        for x in c["refs"][f]:
            x.setdefault("builtin", False)
    return c


def groups(case):
    return {f: min(k for k, m in enumerate(case["loads"]) if f in case["reach"][m]) for f in case["order"]}


def predict(case):
    """outcome of the sequence of loads: 'ok' or 'fail<k>:<kind>' for the first failing load"""
    grp = groups(case)
    for g in range(len(case["loads"])):
        pend = [x for f in case["order"] if grp[f] == g for x in case["refs"][f]]
        k = 0
        while pend:
            now = [x for x in pend if x["delay"] <= k]
            if any(x["tspan"] is None and not x["builtin"] for x in now):
                return "fail%d:unknown" % g
            pend = [x for x in pend if x["delay"] > k]
            if pend and not now:
                return "fail%d:unresolvable" % g
            k += 1
    return "ok"


# ---------------------------------------------------------------- Coq side
IMPORTS = """From TxV Require Import Core.Base Core.Show Model.EdPos.
Open Scope string_scope.
Definition show_entry (e : entry) : string :=
  show_str (e_name e) ++ "," ++ show_N (e_start e) ++ "," ++ show_N (e_end e) ++ "," ++ show_nat (e_file e)
  ++ "," ++ show_N (e_dstart e) ++ "," ++ show_N (e_dend e).
Definition show_item (x : N * N * nat) : string :=
  show_N (fst (fst x)) ++ "-" ++ show_N (snd (fst x)) ++ ":" ++ show_nat (snd x).
Definition T (i : nat) (d : nat) (f : nat) (s e : N) := (i, (d, Some {| tfile := f; tstart := s; tend := e |})).
Definition U (i : nat) (d : nat) : nat * (nat * option target) := (i, (d, None)).
Fixpoint lookup_repo (i : nat) (repo : list (nat * list entry)) : option (list entry) :=
  match repo with [] => None | (j, es) :: r => if Nat.eqb i j then Some es else lookup_repo i r end.
Definition add_new (repo : list (nat * list entry)) (l : list (nat * list entry)) : list (nat * list entry) :=
  fold_left (fun rp p => match lookup_repo (fst p) rp with Some _ => rp | None => (rp ++ [p])%list end) l repo.
(* a sequence of main-model loads with one (global) repository: files already in it are Done *)
Fixpoint run_loads (k : nat) (ans : provider) (bi : cref -> bool) (repo : list (nat * list entry))
                   (loads : list (list (nat * node))) : string + list (nat * list entry) :=
  match loads with
  | [] => inr repo
  | files :: rest =>
      let gms := map (fun it => match lookup_repo (fst it) repo with Some es => Done es | None => Fresh (refs_pre (snd it)) end) files in
      match load_repo ans bi gms with
      | Ok outs => run_loads (S k) ans bi (add_new repo (combine (map fst files) outs)) rest
      | Unresolvable _ => inl ("fail" ++ show_nat k ++ ":unresolvable")
      | UnknownObject => inl ("fail" ++ show_nat k ++ ":unknown")
      | OutOfFuel => inl "outoffuel"
      end
  end.
Definition show_case (tbl : list (nat * (nat * option target))) (bis : list nat) (loads : list (list nat)) (trees : list node) : string :=
  let lds := map (map (fun i => (i, nth i trees (NTok 0 0)))) loads in
  match run_loads 0 (table_ans tbl) (fun x => existsb (Nat.eqb (cid x)) bis) [] lds with
  | inl s => s
  | inr repo => "ok|" ++ sjoin "/" (map (fun i => sjoin ";" (map show_entry (match lookup_repo i repo with Some es => es | None => [] end)))
                                        (seq 0 (List.length trees)))
  end ++ "#" ++ sjoin "/" (map (fun t => sjoin ";" (map show_item (rule_dict t))) trees)
  ++ "#" ++ sjoin "" (map (fun t => show_bool (wfb t)) trees).
"""


def cons_list(items):
    """right-nested conses: Coq parses nested [ ; ] notations very slowly"""
    return "(" + "".join("%s :: " % x for x in items) + "nil)"


def coq_node(n):
    if n[0] == "o":
        return "NObj %d %d %d %s" % (n[1], n[2], n[3], cons_list(["(%s)" % coq_node(k) for k in n[5]]))
    if n[0] == "r":
        return "NRef %d %d %d %s" % (n[1], n[2], n[3], cons_list(["%d" % ord(ch) for ch in n[4]]))
    return "NTok %d %d" % (n[1], n[2])


def coq_expr(case):
    tbl = []
    for f in case["order"]:
        for x in case["refs"][f]:
            if x["tspan"] is not None:
                tbl.append("T %d %d %d %d %d" % (x["id"], x["delay"], x["tspan"][0], x["tspan"][1], x["tspan"][2]))
            else:
                tbl.append("U %d %d" % (x["id"], x["delay"]))
    trees = cons_list(["(%s)" % coq_node(case["trees"][f]) for f in case["order"]])
    bis = cons_list(["%d" % x["id"] for f in case["order"] for x in case["refs"][f] if x["builtin"]])
    loads = cons_list([cons_list(["%d" % case["order"].index(f) for f in case["reach"][m]]) for m in case["loads"]])
    return "show_case %s %s %s (%s)%%N" % (cons_list(["(%s)" % t for t in tbl]), bis, loads, trees)


def impl_canon(case, o):
    if o["outcome"] != "ok":
        return o["outcome"]
    order = case["order"]
    refs_s, dict_s = [], []
    for f in order:
        m = (o.get("models") or {}).get(f)
        if m is None:
            refs_s.append("<model %s not loaded>" % f)
            dict_s.append("")
            continue
        es = []
        for nm, s, e, df, ds, de in m["refs"]:
            if df is None:
                df = f if case.get("from_str") else "<none>"
            es.append("%s,%s,%s,%s,%s,%s" % (core.canon_text(str(nm)), s, e, order.index(df) if df in order else "?" + str(df), ds, de))
        refs_s.append(";".join(es))
        ids = {(x["cls"], x["s"], x["e"]): x["id"] for x in objects_of(case["trees"][f])}
        dict_s.append(";".join("%s-%s:%s" % (s, e, ids.get((cls, vs, ve), "?%s@%s-%s" % (cls, vs, ve))) for s, e, cls, vs, ve in m["dict"]))
    return "ok|" + "/".join(refs_s) + "#" + "/".join(dict_s)


def model_canon(mv):
    """Coq result -> the part comparable with the implementation, and the wf flags."""
    out, dicts, wf = mv.split("#")
    if not out.startswith("ok|"):
        return out, wf
    return out + "#" + dicts, wf


# ---------------------------------------------------------------- the property, stated directly
def oracle(case, o):
    """Every violation of the C34 statement visible in the implementation's output."""
    bad = []
    want = predict(case)
    if o["outcome"] != want:
        return ["load outcome %r, expected %r" % (o["outcome"], want)]
    if want != "ok":
        return []
    order = case["order"]
    for f in order:
        m = (o.get("models") or {}).get(f)
        if m is None:
            bad.append("model %s has no tool-support data" % f)
            continue
        text = case["files"][f]
        exp = [x for x in case["refs"][f] if not x["builtin"]]      # builtin-resolved references are not listed
        got = m["refs"]
        starts = [g[1] for g in got]
        if any(not isinstance(p, int) for p in starts):
            bad.append("%s: a listed reference has no start position: %r" % (f, starts))
            continue
        if starts != sorted(starts):
            bad.append("%s: _pos_crossref_list is not ordered by ref_pos_start: %r" % (f, starts))
        if sorted(starts) != sorted(x["s"] for x in exp):
            bad.append("%s: listed reference starts %r, reference texts are at %r" % (f, sorted(starts), sorted(x["s"] for x in exp)))
        bystart = {x["s"]: x for x in exp}
        for nm, s, e, df, ds, de in got:
            x = bystart.get(s)
            if x is None:
                continue
            if e != x["e"] or text[s:e] != x["text"]:
                bad.append("%s: reference %r at %d: listed end %s gives %r" % (f, x["text"], s, e, text[s:e] if isinstance(e, int) else None))
            if nm != x["name"]:
                bad.append("%s: reference at %d listed under name %r, reference is %r" % (f, s, nm, x["name"]))
            if df is None and case.get("from_str"):
                df = f
            tf = order[x["tspan"][0]]
            if df != tf or [ds, de] != x["tspan"][1:]:
                bad.append("%s: reference %r at %d: definition %s[%s:%s], target object is %s[%d:%d]" % (
                    f, x["text"], s, df, ds, de, tf, x["tspan"][1], x["tspan"][2]))
        objs = objects_of(case["trees"][f])
        spans = {}
        for x in objs:                      # innermost = deepest
            k = (x["s"], x["e"])
            if k not in spans or x["depth"] > spans[k]["depth"]:
                spans[k] = x
        keys = [(s, e) for s, e, _, _, _ in m["dict"]]
        if len(set(keys)) != len(keys) or set(keys) != set(spans):
            bad.append("%s: position map keys %r, object spans %r" % (f, sorted(keys), sorted(spans)))
        for s, e, cls, vs, ve in m["dict"]:
            if (vs, ve) != (s, e):
                bad.append("%s: position map key (%d,%d) holds an object spanning (%s,%s)" % (f, s, e, vs, ve))
            elif (s, e) in spans and spans[(s, e)]["cls"] != cls:
                bad.append("%s: position map key (%d,%d) holds the %s, the innermost object there is the %s" % (
                    f, s, e, cls, spans[(s, e)]["cls"]))
        for i in range(len(keys)):
            for j in range(i + 1, len(keys)):
                a, b = keys[i], keys[j]
                if a != b and a[0] <= b[0] and b[1] <= a[1]:
                    bad.append("%s: position map lists %r before %r which it contains" % (f, a, b))
    return bad


def case_key(case):
    return json.dumps([case["mode"], case["files"], case["table"], case["loads"], case["builtins"], case["grepo"]], sort_keys=True)


def nontrivial(case):
    refs = [x for f in case["order"] for x in case["refs"][f]]
    if any("." in x["name"] or x["delay"] > 0 or x["builtin"] for x in refs) or len(case["loads"]) > 1:
        return True
    if len(case["order"]) > 1 and refs:
        return True
    for f in case["order"]:
        objs = objects_of(case["trees"][f])
        if len({(x["s"], x["e"]) for x in objs}) < len(objs):
            return True
    return False


def describe(case, chk):
    refs = [x for f in case["order"] for x in case["refs"][f]]
    chk.stat("mode=" + case["mode"])
    chk.stat("files=%d" % len(case["order"]))
    chk.stat("refs", len(refs))
    chk.stat("refs qualified", sum(1 for x in refs if "." in x["name"]))
    chk.stat("refs text!=name", sum(1 for x in refs if x["text"] != x["name"]))
    chk.stat("refs scripted-postponed", sum(1 for x in refs if x["delay"] > 0))
    chk.stat("refs resolved through builtins (no entry)", sum(1 for x in refs if x["builtin"]))
    chk.stat("cases with a model loaded earlier (global repository)", 1 if len(case["loads"]) > 1 else 0)
    chk.stat("refs cross-file", sum(1 for x in refs if x["tspan"] and x["tspan"][0] != x["file"]))
    nobj = same = 0
    for f in case["order"]:
        objs = objects_of(case["trees"][f])
        nobj += len(objs)
        same += len(objs) - len({(x["s"], x["e"]) for x in objs})
    chk.stat("objects", nobj)
    chk.stat("objects sharing a span with a nested object", same)
    chk.stat("picks (real-provider postponement)", sum(case["files"][f].count("pick") for f in case["order"]) if case["mode"] == "real" else 0)


def load_corpus():
    res = []
    d = os.path.join(core.VERIF, "corpus", "C34")
    for p in sorted(glob.glob(os.path.join(d, "*.json"))):
        c = json.load(open(p))
        c["corpus"] = os.path.basename(p)
        res.append(norm_case(c))
    return res


def run_impl(cases):
    chunks = [cases[i::core.NPROC] for i in range(core.NPROC)]
    chunks = [c for c in chunks if c]
    outs = core.run_impl_parallel("c34", [{"cases": [{"files": c["files"], "main": c["main"], "mode": c["mode"], "table": c["table"],
                                                      "from_str": c.get("from_str", False), "loads": c["loads"],
                                                      "builtins": c["builtins"], "grepo": c["grepo"]} for c in ch]} for ch in chunks])
    impl = {}
    for ch, o in zip(chunks, outs):
        for c, x in zip(ch, o):
            impl[id(c)] = x
    return impl


def gen_cases(chk, n):
    cases = []
    for i in range(n):
        r = chk.rng.split(i)
        mode = "scripted" if i % 2 else "real"
        malformed = (i % 7 == 3)
        nfiles = r.weighted([(1, 3), (2, 4), (3, 3)])
        from_str = nfiles == 1 and r.chance(0.3)
        size = r.weighted([(2, 2), (3, 4), (5, 3)])
        c = build_case(r, mode, nfiles, size, malformed=malformed, from_str=from_str)
        c["seed_path"] = i
        cases.append(c)
    return cases


def schedule_cases(chk, k, maxd):
    """exhaustive: every delay vector in {0..maxd}^k for k references spread over a list attribute,
    a scalar attribute and a second file (scripted provider)"""
    import itertools
    M, F = "main" + EXT, "f1" + EXT
    cases = []
    for n, ds in enumerate(itertools.product(range(maxd + 1), repeat=k)):
        def ref(i, text, tgt):
            return {"text": text, "name": text.replace(" ", ""), "target": tgt, "delay": ds[i]}
        ti = {"file": M, "cls": "Item", "name": "i1"}
        tc = {"file": F, "cls": "Core", "name": "c9"}
        use = [ref(0, "i1", ti), ref(1, "a.b", tc)] + [ref(j, "zz", ti) for j in range(3, k)]
        files = {M: {"imports": [F], "elems": [{"k": "item", "name": "i1"}, {"k": "use", "refs": use},
                                               {"k": "one", "ref": ref(2, "p . q", tc)}]},
                 F: {"imports": [], "elems": [{"k": "wrap", "cores": ["c9"], "extra": None}]}}
        c = finish_case(chk.rng.split("sched%d" % n), [M, F], files, [M, F], "scripted", False)
        c["seed_path"] = "sched%d" % n
        cases.append(c)
    return cases


def run(chk):
    chk.prove([edpos_tr.translate])
    n = 1500 if chk.thorough else 260
    cases = load_corpus() + gen_cases(chk, n)
    if chk.thorough:
        cases += schedule_cases(chk, 4, 3)        # 256 schedules, incl. the stuck (unresolvable) ones
    else:
        cases += schedule_cases(chk, 3, 1)        # 8 schedules
    impl = run_impl(cases)
    vals, errs = core.coq_eval("C34", IMPORTS, [coq_expr(c) for c in cases])
    disagreements, failures = [], []
    if errs:
        disagreements.append({"case": "coq evaluation", "model": errs[:2]})
    for c, mv in zip(cases, vals):
        o = impl[id(c)]
        chk.count(case_key(c), nontrivial=nontrivial(c))
        describe(c, chk)
        chk.stat("outcome=" + o["outcome"].split(":")[0])
        ic = impl_canon(c, o)
        if mv is not None:
            mc, wf = model_canon(mv)
            if "F" in wf:
                disagreements.append({"case": slim(c), "model": "generated tree is not well-formed (wfb): " + wf})
            elif mc != ic:
                disagreements.append({"case": slim(c), "impl": ic, "model": mc})
        bad = oracle(c, o)
        if bad:
            failures.append({"case": slim(c), "impl": o, "model": mv, "what": "; ".join(bad[:4]), "tags": []})
        if chk.cov["evaluations"] % 50 == 7:
            chk.sample({"files": c["files"], "mode": c["mode"], "impl": ic[:400]})
    chk.cov["rule"] = ("generated 1-3 file documents (imports incl. cycles) of a fixed grammar with packages (nested <= 3), items, "
                       "Wrap/Mid/Core chains (nested objects sharing start and whole spans), list and scalar references with plain and "
                       "qualified texts (optionally spaced dots, non-ASCII names), loaded with textx_tools_support=True through "
                       "(a) a scripted '*.*' provider with per-reference postponement delays and arbitrary targets in any loaded file, "
                       "(b) FQNImportURI + RelativeName (real postponement); a malformed stream gives unknown/unresolvable loads; "
                       "non-trivial = a qualified or postponed reference, a multi-file case with references, or objects sharing a span; "
                       "distinct by (mode, file texts, provider table)")
    chk.assumptions += ["translator edpos_tr.py (ast match of the collection code in textx/model.py)",
                        "object and reference spans of the generated documents are computed by the generator while printing "
                        "(independent of the parser); the model takes them as the parse tree's spans (C06 covers _tx_position*)",
                        "Arpeggio parse trees are well-formed (children inside parents, in document order): wfb is evaluated on every case",
                        "scope providers are deterministic functions of the call history; builtins fallback is not modelled"]
    decide(chk, failures, disagreements)


def slim(c):
    return {k: c[k] for k in ("mode", "main", "from_str", "files", "order", "table", "trees", "refs", "loads", "reach", "builtins", "grepo") if k in c}


def replay(rep):
    c = rep.get("case")
    if not isinstance(c, dict) or "files" not in c:
        print(json.dumps(rep, indent=1)[:4000])
        return 1
    c = norm_case(c)
    impl = run_impl([c])
    o = impl[id(c)]
    vals, errs = core.coq_eval("C34r", IMPORTS, [coq_expr(c)])
    for f in c["order"]:
        print("--- %s\n%s" % (f, c["files"][f]))
    print("implementation:", impl_canon(c, o))
    print("model:         ", model_canon(vals[0])[0] if vals and vals[0] else errs)
    bad = oracle(c, o)
    print("property verdict:", "VIOLATED: " + "; ".join(bad) if bad else "holds")
    return 1 if bad else 0
