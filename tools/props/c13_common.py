"""Shared pieces of the C13 check: grammar/model generator, canonical printing (mirrors the
Coq `show_*` functions in props/c13.py IMPORTS), Coq term printer, and the property oracle
(a direct Python statement of C13 applied to what the implementation did)."""
from vt import core

PRIMS = ("INT", "STRING", "WW")
MATCH_RULES = ("W", "WW", "WWW")


# ------------------------------------------------------------------ grammar generator
def kw(prefix, i):
    return "%s%02d" % (prefix, i)


def gen_grammar(r, big=False, imports=False):
    """A grammar spec: common rules C0..Ck (C0 is the root), abstract rules A0..Aj (Ai refers
    to commons, prims and Aj with j > i), one user match rule W."""
    ncommon = r.range(2, 7 if big else 5)
    nabs = r.weighted([(0, 1), (1, 4), (2, 3), (3, 1)])
    commons = ["C%d" % i for i in range(ncommon)]
    abstracts = ["A%d" % i for i in range(nabs)]
    rules = {}
    # abstract rules
    for i in reversed(range(nabs)):
        pool = commons[1:] + abstracts[i + 1:]
        k = r.range(1, min(3, len(pool)))
        alts = r.sample(pool, k)
        if not any(a.startswith("C") for a in alts) and not any(a.startswith("A") for a in alts):
            alts = [r.choice(commons[1:])]
        if r.chance(0.3):
            alts.insert(r.below(len(alts) + 1), r.choice(PRIMS))
        rules["A%d" % i] = {"kind": "abstract", "alts": alts}

    def rank(t):
        if t in PRIMS or t in MATCH_RULES:
            return 10 ** 6
        if t.startswith("C"):
            return int(t[1:])
        return min(rank(a) for a in rules[t]["alts"])

    types = commons[1:] + abstracts
    akw = [0]

    def new_kw():
        akw[0] += 1
        return kw("k", akw[0])

    for ci, c in enumerate(commons):
        attrs = []
        nattr = r.range(1, 4) if ci == 0 else r.weighted([(0, 2), (1, 4), (2, 4), (3, 2)])
        for ai in range(nattr):
            kind = r.weighted([("one", 4), ("many", 5), ("ref", 2), ("refs", 2), ("prim", 3), ("objtyped", 1)])
            if ci == 0 and ai == 0:
                kind = "many"
            name = "f%d" % ai
            if kind in ("one", "many"):
                t = r.choice(types)
                req_ok = rank(t) > ci
                if kind == "one":
                    attrs.append({"name": name, "kind": "one", "type": t, "kw": new_kw(),
                                  "opt": (not req_ok) or r.chance(0.6)})
                else:
                    attrs.append({"name": name, "kind": "many", "type": t, "kw": new_kw(),
                                  "op": "+=" if (req_ok and r.chance(0.4)) else "*=",
                                  "sep": r.chance(0.25)})
            elif kind in ("ref", "refs"):
                attrs.append({"name": name, "kind": kind, "type": r.choice(types), "kw": new_kw()})
            elif kind == "prim":
                attrs.append({"name": name, "kind": "prim", "type": r.choice(["INT", "STRING", "W", "WW", "WWW", "WW", "WWW"]), "kw": new_kw()})
            else:
                t1, t2 = r.choice(commons[1:]), r.choice(commons[1:])
                attrs.append({"name": name, "kind": "objtyped", "types": [t1, t2], "kws": [new_kw(), new_kw()]})
        rules[c] = {"kind": "common", "kw": kw("c", ci), "attrs": attrs}
    for m in MATCH_RULES:
        rules[m] = {"kind": "match"}
    order = commons + abstracts + list(MATCH_RULES)
    if imports:
        rules["Import"] = {"kind": "import"}
        order.append("Import")
    return {"order": order, "rules": rules, "imports": imports}


def grammar_text(g):
    out = []
    for name in g["order"]:
        ru = g["rules"][name]
        if ru["kind"] == "match":
            out.append({"W": "W: /w[0-9]+/;", "WW": "WW: W ('-' W)?;", "WWW": "WWW: WW '+' WW;"}[name])
        elif ru["kind"] == "import":
            out.append("Import: 'import' importURI=STRING;")
        elif ru["kind"] == "abstract":
            out.append("%s: %s;" % (name, " | ".join(ru["alts"])))
        else:
            parts = ["'%s'" % ru["kw"], "name=ID"] + (["imports*=Import"] if (g.get("imports") and name == "C0") else []) + ["'('"]
            for a in ru["attrs"]:
                k = a["kind"]
                if k == "one":
                    s = "'%s' %s=%s" % (a["kw"], a["name"], a["type"])
                    parts.append("(%s)?" % s if a["opt"] else s)
                elif k == "many":
                    parts.append("'%s' %s%s%s%s ';'" % (a["kw"], a["name"], a["op"], a["type"], "[',']" if a["sep"] else ""))
                elif k == "ref":
                    parts.append("('%s' %s=[%s])?" % (a["kw"], a["name"], a["type"]))
                elif k == "refs":
                    parts.append("'%s' %s*=[%s] ';'" % (a["kw"], a["name"], a["type"]))
                elif k == "prim":
                    parts.append("('%s' %s=%s)?" % (a["kw"], a["name"], a["type"]))
                else:
                    parts.append("('%s' %s=%s | '%s' %s=%s)?" % (a["kws"][0], a["name"], a["types"][0],
                                                                 a["kws"][1], a["name"], a["types"][1]))
            parts.append("')'")
            out.append("%s: %s;" % (name, " ".join(parts)))
    return "\n".join(out) + "\n"


def concretes(g, t):
    """Common rules / prims a value of declared type t can be."""
    if t in PRIMS or g["rules"][t]["kind"] == "common":
        return [t]
    res = []
    for a in g["rules"][t]["alts"]:
        for c in concretes(g, a):
            if c not in res:
                res.append(c)
    return res


def fill_refs(r, g, objs, visible):
    """Give the reference attributes of `objs` targets (by name) among the `visible` objects."""
    for o in objs:
        for a in g["rules"][o["rule"]]["attrs"]:
            if a["kind"] not in ("ref", "refs"):
                continue
            cs = [c for c in concretes(g, a["type"]) if c not in PRIMS]
            cands = [x["name"] for x in visible if x["rule"] in cs]
            if not cands:
                continue
            if a["kind"] == "ref":
                if r.chance(0.7):
                    o["attrs"][a["name"]] = {"ref": r.choice(cands)}
            else:
                n = r.weighted([(0, 2), (1, 3), (2, 3), (3, 1)])
                o["attrs"][a["name"]] = {"refs": [r.choice(cands) for _ in range(n)]}


# import graphs of the multi-model cases: edges (importer, imported) over models 0..k-1, 0 = main
SHAPES = {
    "pair": (2, [(0, 1)]),
    "chain": (3, [(0, 1), (1, 2)]),
    "star": (3, [(0, 1), (0, 2)]),
    "diamond": (4, [(0, 1), (0, 2), (1, 3), (2, 3)]),
    "cycle2": (2, [(0, 1), (1, 0)]),
    "cycle3": (3, [(0, 1), (1, 2), (2, 0)]),
    "chain+back": (3, [(0, 1), (1, 2), (2, 1)]),
}


def gen_model(r, g, maxobjs, start=0, extern=(), fill=True):
    """Containment tree with unique names, then references by name (also to `extern` objects)."""
    cnt = [start]
    maxobjs += start
    objs = []

    def prim(t):
        if t == "INT":
            return {"prim": "INT", "text": str(r.range(0, 99)), "val": None}
        if t == "STRING":
            s = r.choice(["s", "ab", "x y", ""])
            return {"prim": "STRING", "text": '"%s"' % s}
        w = lambda: "w%d" % r.range(0, 9)  # noqa: E731
        ww = lambda: (w() + "-" + w()) if r.chance(0.5) else w()  # noqa: E731
        if t == "W":
            return {"prim": "W", "text": w()}
        if t == "WW":
            return {"prim": "WW", "text": ww()}
        return {"prim": "WWW", "text": ww() + "+" + ww()}

    def obj(rule, depth):
        cnt[0] += 1
        o = {"rule": rule, "name": "n%d" % cnt[0], "attrs": {}}
        objs.append(o)
        for a in g["rules"][rule]["attrs"]:
            k = a["kind"]
            room = cnt[0] < maxobjs and depth < 6
            if k == "one":
                if a["opt"] and not (room and r.chance(0.7)):
                    continue
                o["attrs"][a["name"]] = value(a["type"], depth + 1)
            elif k == "many":
                lo = 1 if a["op"] == "+=" else 0
                n = r.weighted([(0, 2), (1, 4), (2, 4), (3, 2)]) if room else 0
                n = max(n, lo)
                o["attrs"][a["name"]] = [value(a["type"], depth + 1) for _ in range(n)]
            elif k == "prim":
                if r.chance(0.75):
                    o["attrs"][a["name"]] = prim(a["type"])
            elif k == "objtyped":
                if room and r.chance(0.7):
                    w = r.below(2)
                    v = obj(a["types"][w], depth + 1)
                    v["_alt"] = w
                    o["attrs"][a["name"]] = v
            # refs are filled afterwards
        return o

    def value(t, depth):
        cs = concretes(g, t)
        if cnt[0] >= maxobjs or depth >= 6:
            # prefer prims / the highest-ranked common rule to terminate
            ps = [c for c in cs if c in PRIMS]
            c = r.choice(ps) if ps else max([c for c in cs], key=lambda x: int(x[1:]))
        else:
            c = r.choice(cs)
        if c in PRIMS:
            return prim(c)
        return obj(c, depth)

    root = obj("C0", 0)
    if fill:
        fill_refs(r, g, objs, list(objs) + list(extern))
    return root, objs


def model_text(g, o):
    def val(v):
        if "prim" in v:
            return v["text"]
        return model_text(g, v)
    ru = g["rules"][o["rule"]]
    parts = [ru["kw"], o["name"]] + ['import "%s"' % f for f in o.get("imports", [])] + ["("]
    for a in ru["attrs"]:
        k = a["kind"]
        v = o["attrs"].get(a["name"])
        if k == "one":
            if v is not None:
                parts += [a["kw"], val(v)]
        elif k == "many":
            parts.append(a["kw"])
            parts.append((" , " if a["sep"] else " ").join(val(x) for x in v))
            parts.append(";")
        elif k == "ref":
            if v is not None:
                parts += [a["kw"], v["ref"]]
        elif k == "refs":
            parts.append(a["kw"])
            if v is not None:
                parts += v["refs"]
            parts.append(";")
        elif k == "prim":
            if v is not None:
                parts += [a["kw"], v["text"]]
        else:
            if v is not None:
                parts += [a["kws"][v["_alt"]], val(v)]
    parts.append(")")
    return " ".join(parts)


def expected_refs(objs):
    res = {}
    for o in objs:
        for k, v in o["attrs"].items():
            if isinstance(v, dict) and "ref" in v:
                res.setdefault(o["name"], {})[k] = v["ref"]
            elif isinstance(v, dict) and "refs" in v:
                res.setdefault(o["name"], {})[k] = list(v["refs"])
    return res


def gen_case(r, thorough=False):
    multi = r.split("multi").chance(0.15)
    g = gen_grammar(r.split("g"), big=thorough, imports=multi)
    maxobjs = r.weighted([(4, 2), (8, 4), (14, 3), (22, 1)]) if not thorough else r.weighted([(5, 2), (10, 3), (18, 3), (30, 2)])
    files = {}
    shape = None
    if multi:
        rs = r.split("shape")
        shape = rs.weighted([("pair", 3), ("chain", 2), ("star", 1), ("diamond", 2), ("cycle2", 2), ("cycle3", 1), ("chain+back", 1)])
        k, edges = SHAPES[shape]
        per = max(3, maxobjs // k)
        trees = [gen_model(r.split("m%d" % i), g, per, start=100 * i, fill=False) for i in range(k)]
        fname = lambda i: "m%d.m" % i  # noqa: E731
        for i in range(k):
            imported = [j for a, j in edges if a == i]
            visible = list(trees[i][1])
            for j in imported:
                visible += trees[j][1]
            fill_refs(r.split("refs%d" % i), g, trees[i][1], visible)
            trees[i][0]["imports"] = [fname(j) for j in imported]
        root = trees[0][0]
        objs = [o for t in trees for o in t[1]]
        for i in range(1, k):
            files[fname(i)] = model_text(g, trees[i][0])
    else:
        root, objs = gen_model(r.split("m"), g, maxobjs)
    text = model_text(g, root)
    refs = expected_refs(objs)
    rr = r.split("p")
    names = [n for n in g["order"] if n not in MATCH_RULES] + ["OBJECT"]
    # match-rule processors: registered on a subset, each appending a fixed suffix to its argument
    match_reg = {m: rr.choice(["", "!", "~"]) for m in MATCH_RULES if rr.chance(0.7)}
    mode = rr.weighted([("all", 5), ("subset", 4), ("none", 1)])
    if mode == "all":
        reg = list(names)
    elif mode == "none":
        reg = []
    else:
        reg = [n for n in names if rr.chance(0.55)]
    # replacement actions keyed by (processor name, object name); "" = any non-object value
    actions = []
    prepl = rr.choice([0.0, 0.1, 0.25, 0.5])
    k = 0
    for n in reg:
        for o in objs:
            if rr.chance(prepl):
                k += 1
                act = rr.weighted([("atom", 3), ("child", 2), ("falsy", 1)])
                actions.append([n, o["name"], act, 9000 + k])
        if rr.chance(prepl / 2):
            k += 1
            actions.append([n, "", "atom", 9000 + k])
    user = [c for c in g["order"] if g["rules"][c]["kind"] == "common" and rr.chance(0.3)]
    bad = None
    if rr.chance(0.08) and refs:
        # malformed stream: one reference that cannot be resolved
        on = sorted(refs)[rr.below(len(refs))]
        an = sorted(refs[on])[0]
        tgt = refs[on][an]
        old = tgt if isinstance(tgt, str) else (tgt[0] if tgt else None)
        if old is not None:
            bad = "zz9"
            toks = text.split(" ")
            # replace the first occurrence of the referenced name that is a reference (not a definition)
            for i, tk in enumerate(toks):
                if tk == old and i > 0 and not toks[i - 1].startswith("c"):
                    toks[i] = bad
                    break
            else:
                bad = None
            text = " ".join(toks)
    postpone = bad is not None and rr.chance(0.5)
    return {"grammars": {"main.tx": grammar_text(g)}, "main": "main.tx", "model": text, "files": files, "shape": shape, "reg": reg, "postpone_bad": postpone,
            "actions": actions, "user": user, "expect_refs": refs, "expect_error": bad is not None,
            "match_reg": match_reg}


# ------------------------------------------------------------------ canonical printing
def show_value(v):
    """v: None | {"atom": str} | {"id","cls":[ns,nm],"fields":[...]}  (mirrors Coq show_value)"""
    if v is None:
        return "N"
    if "atom" in v:
        return "'" + core.canon_text(v["atom"]) + "'"
    fs = []
    for f in v["fields"]:
        if f["many"]:
            fs.append("%d=[%s]" % (f["n"], ",".join(show_value(x) for x in f["v"])))
        else:
            fs.append("%d=%s" % (f["n"], show_value(f["v"])))
    return "#%d:%d.%d{%s}" % (v["id"], v["cls"][0], v["cls"][1], ";".join(fs))


class Terms:
    """Coq term printer for one case: atoms become indices into a per-case table, declared
    classes become let-bound names (keeps the generated terms small)."""

    def __init__(self):
        self.atoms = {}
        self.dcls = {}

    def atom(self, a):
        key = core.canon_text(a)
        if key not in self.atoms:
            self.atoms[key] = len(self.atoms)
        return self.atoms[key]

    def dcl(self, d, m):
        key = (d[0], d[1], bool(m))
        if key not in self.dcls:
            self.dcls[key] = "d%d" % len(self.dcls)
        return self.dcls[key]

    def value(self, v):
        if v is None:
            return "VNone"
        if "atom" in v:
            return "(VAtom %d)" % self.atom(v["atom"])
        t = "FNil"
        for f in reversed(v["fields"]):
            if f["many"]:
                vs = "VsNil"
                for x in reversed(f["v"]):
                    vs = "(VsCons %s %s)" % (self.value(x), vs)
                t = "(FMany %d %s %s %s %s)" % (f["n"], core.coq_bool(f["cont"]), self.dcl(f["d"], f["match"]), vs, t)
            else:
                t = "(FOne %d %s %s %s %s)" % (f["n"], core.coq_bool(f["cont"]), self.dcl(f["d"], f["match"]), self.value(f["v"]), t)
        return "(VObj %d (CRef %d %d) %s)" % (v["id"], v["cls"][0], v["cls"][1], t)

    def lets(self):
        return "".join("let %s := Dcl (CRef %d %d) %s in " % (n, k[0], k[1], core.coq_bool(k[2]))
                       for k, n in sorted(self.dcls.items(), key=lambda x: int(x[1][1:])))

    def recode(self, text):
        """Replace the quoted atom texts of an implementation-side canonical string by table indices."""
        import re
        return re.sub(r"'([^']*)'", lambda m: "'%d'" % self.atom_key(m.group(1)), text)

    def atom_key(self, key):
        if key not in self.atoms:
            self.atoms[key] = len(self.atoms)
        return self.atoms[key]


# ------------------------------------------------------------------ property oracle
def first_obj(v):
    for f in v["fields"]:
        if not f["cont"]:
            continue
        for x in (f["v"] if f["many"] else [f["v"]]):
            if x is not None and "id" in x:
                return x
    return None


def act_result(actions, p, v):
    """What the recording processor registered under name index p returns for v."""
    key = (p, v["id"] if (v is not None and "id" in v) else 0)
    a = actions.get(key)
    if a is None:
        return None
    kind, k = a
    if kind == "atom":
        return {"atom": "i:%d" % k}
    if kind == "falsy":
        return {"atom": "i:0"}
    if kind == "child":
        return first_obj(v) if (v is not None and "id" in v) else None
    return None


class Expect:
    """The documented behaviour computed directly from the linked tree: which processor calls
    must happen (with which argument state) and what every slot must finally hold."""

    def __init__(self, reg, actions):
        self.reg = reg            # set of name indices
        self.actions = actions    # {(name idx, id): (kind, k)}
        self.calls = []           # (name idx, id, snapshot) in the only order the statement allows per object
        self.per_obj = {}         # id -> list of call indices
        self.below = {}           # id -> set of ids strictly below
        self.order_pairs = []

    def visit(self, d, m, v):
        """Returns (value with processed children, replacement or None, ids in subtree)."""
        if m:
            return v, None, set()
        ids = set()
        if v is not None and "id" in v:
            nf = []
            for f in v["fields"]:
                g = dict(f)
                if f["cont"]:
                    if f["many"]:
                        g["v"] = [self.slot(f, x, ids) for x in f["v"]]
                    else:
                        g["v"] = self.slot(f, f["v"], ids)
                nf.append(g)
            v2 = dict(v)
            v2["fields"] = nf
            self.below[v["id"]] = set(ids)
            own = None
            snap = show_value(v2)
            if (v["cls"] != d) and v["cls"][1] != d[1] and v["cls"][1] in self.reg:
                self.calls.append((v["cls"][1], v["id"], snap))
                own = act_result(self.actions, v["cls"][1], v2)
            rg = None
            if d[1] in self.reg:
                self.calls.append((d[1], v["id"], snap))
                rg = act_result(self.actions, d[1], v2)
            ids.add(v["id"])
            return v2, (own if own is not None else rg), ids
        rg = None
        if d[1] in self.reg:
            self.calls.append((d[1], 0, show_value(v)))
            rg = act_result(self.actions, d[1], v)
        return v, rg, ids

    def slot(self, f, x, ids):
        if x is None:
            return None
        v2, r, sub = self.visit(f["d"], f["match"], x)
        ids |= sub
        return r if r is not None else v2


def objects_of(d, m, v, acc):
    """Reachable (declared class, object) pairs through containment with non-match declared class."""
    if m or v is None:
        return
    if "id" in v:
        for f in v["fields"]:
            if f["cont"]:
                for x in (f["v"] if f["many"] else [f["v"]]):
                    objects_of(f["d"], f["match"], x, acc)
    acc.append((d, v))


def oracle(case, o, idx_of):
    """Returns a list of (what, tags) for every way the implementation's outcome o violates C13."""
    bad = []
    procs = [e for e in o["events"] if e["k"] == "proc"]
    if case["expect_error"]:
        if o["ok"]:
            bad.append("a model with an unresolvable reference loaded")
        elif o["error_type"] != "TextXSemanticError":
            bad.append("unexpected exception %s: %s" % (o["error_type"], o["error"]))
        if procs:
            bad.append("object processors ran although a reference could not be resolved: %r" % procs[:2])
        return bad
    if not o["ok"]:
        return ["load failed: %s: %s" % (o["error_type"], o["error"])]
    # every model under construction (main + every file of the import graph, however often and
    # along whichever path it is imported) is processed exactly once
    want_models = 1 + len(case.get("files") or {})
    if len(o["models"]) != want_models:
        bad.append("%d models processed, the import graph has %d" % (len(o["models"]), want_models))
    roots = [m["tree"]["id"] for m in o["models"] if m["tree"] and "id" in m["tree"]]
    if len(set(roots)) != len(roots):
        bad.append("a model was processed twice")
    # phase order
    kinds = [e["k"] for e in o["events"]]
    if "proc" in kinds:
        first = kinds.index("proc")
        late = [e for e in o["events"][first:] if e["k"] in ("resolve", "init", "match")]
        if late:
            bad.append("%s event after the first object processor call: %r" % (late[0]["k"], late[0]))
    for e in procs:
        if not e["linked"]:
            bad.append("processor %s called while references are unresolved" % e["pn"])
            break
    for e in procs:
        if e["uninit"]:
            bad.append("processor %s called while %d user-class object(s) are not initialised" % (e["pn"], e["uninit"]))
            break
    if o["n_user_objs"] != len([k for k in kinds if k == "init"]):
        bad.append("user-class objects: %d allocated, %d initialised" % (o["n_user_objs"], kinds.count("init")))
    mreg = {idx_of[n]: suf for n, suf in case.get("match_reg", {}).items() if n in idx_of}
    mcalls = [(e["p"], e["v"]) for e in o["events"] if e["k"] == "match"]
    if mcalls != match_expected(o.get("forest", []), mreg):
        bad.append("match-rule processor calls %r differ from the documented order (children left to right, innermost first) %r"
                   % (mcalls[:6], match_expected(o.get("forest", []), mreg)[:6]))
    reg = {idx_of[n] for n in case["reg"] if n in idx_of}
    byname = {}
    acc = []
    for m in o["models"]:
        objects_of(m["root_d"], m["root_match"], m["tree"], acc)
    for _, v in acc:
        if "id" in v and v.get("name") is not None:
            byname[v["name"]] = v["id"]
    actions = {}
    for p, on, kind, k in case["actions"]:
        if p not in idx_of:
            continue
        if on == "":
            actions[(idx_of[p], 0)] = (kind, k)
        elif on in byname:
            actions[(idx_of[p], byname[on])] = (kind, k)
    calls = [(e["p"], e["id"], e["snap"]) for e in procs]
    # (1) exactly once per object of a registered common rule
    for d, v in acc:
        if "id" in v and v["cls"][1] in reg:
            n = sum(1 for c in calls if c[0] == v["cls"][1] and c[1] == v["id"])
            if n != 1:
                bad.append("processor of rule %s ran %d time(s) for object %s" % (o["names"][v["cls"][1]], n, v["name"] or "#%d" % v["id"]))
    # (2) declared (abstract) rule: once per stored object, after the own-rule processor
    atom_slots = {}
    for d, v in acc:
        if d[1] not in reg:
            continue
        if "id" in v:
            if v["cls"] == d:
                continue
            idxs = [i for i, c in enumerate(calls) if c[0] == d[1] and c[1] == v["id"]]
            if len(idxs) != 1:
                bad.append("processor of declared rule %s ran %d time(s) for object %s" % (o["names"][d[1]], len(idxs), v["name"]))
            elif v["cls"][1] in reg and v["cls"][1] != d[1]:
                own = [i for i, c in enumerate(calls) if c[0] == v["cls"][1] and c[1] == v["id"]]
                if own and not own[0] < idxs[0]:
                    bad.append("declared-rule processor %s ran before the own-rule processor for %s" % (o["names"][d[1]], v["name"]))
        else:
            key = (d[1], show_value(v))
            atom_slots[key] = atom_slots.get(key, 0) + 1
    for (p, snap), n in sorted(atom_slots.items()):
        m = sum(1 for c in calls if c[0] == p and c[1] == 0 and c[2] == snap)
        if m != n:
            bad.append("processor of declared rule %s ran %d time(s) for %d stored value(s) %s" % (o["names"][p], m, n, snap))
    # (3) nothing else ran, argument states and order: the full expected schedule
    ex = Expect(reg, actions)
    finals = [ex.visit(m["root_d"], m["root_match"], m["tree"])[0] for m in o["models"]]
    if len(calls) != len(ex.calls):
        bad.append("%d processor calls, the statement allows exactly %d" % (len(calls), len(ex.calls)))
    # (4) children before containers
    pos = {}
    for i, c in enumerate(calls):
        if c[1]:
            pos.setdefault(c[1], []).append(i)
    for pid, sub in ex.below.items():
        if pid in pos:
            for q in sub:
                if q in pos and max(pos[q]) > min(pos[pid]):
                    bad.append("object #%d processed after its container #%d" % (q, pid))
                    break
    # (5) every processor saw its object with all contained objects processed/replaced
    if sorted(calls) != sorted(ex.calls) and len(calls) == len(ex.calls):
        diff = [c for c in calls if c not in ex.calls][:1]
        bad.append("a processor call differs from the documented one (argument state): %r" % diff)
    # (6) replacement: final content of every slot
    for m, v2 in zip(o["models"], finals):
        if m["final"] != show_value(v2):
            bad.append("final model differs from the documented replacement result: %s vs %s" % (m["final"], show_value(v2)))
    return bad


# ------------------------------------------------------------------ match-rule processors
def coq_ptree(t):
    if t[0] == "T":
        return "(PTerm %d %s)" % (t[1], core.coq_str(t[2]))
    ks = "PNil"
    for k in reversed(t[2]):
        ks = "(PCons %s %s)" % (coq_ptree(k), ks)
    return "(PNode %d %s)" % (t[1], ks)


def match_expected(forest, reg):
    """Documented order: per match value in build order, children left to right, innermost
    first; a node's processor gets the concatenation of its children's results.
    reg: {rule index: suffix}.  Returns the list of (rule index, argument)."""
    calls = []

    def conv(t):
        if t[0] == "T":
            arg = t[2]
        else:
            arg = "".join(conv(k) for k in t[2])
        if t[1] in reg:
            calls.append((t[1], arg))
            return arg + reg[t[1]]
        return arg
    for t in forest:
        conv(t)
    return calls
