"""Shared generator / model evaluation / oracle helpers of C28 and C33 (error locations).

A *world* is a set of 1-4 model files of one small language (imports, definitions, single and list
references, nested boxes, a terminal match rule `Num` and a composite match rule `Ver`, `#` comments)
rendered with a random layout (spaces, tabs, blank lines, CRLF / lone CR, comments with non-ASCII and
astral characters, non-ASCII identifiers).  The generator knows the offset of every token, so the place
of any injected error or processed object is known independently of textX.
"""
import os

from vt import core

GRAMMAR = r'''
Model: imports*=Import items*=Item;
Import: 'import' importURI=STRING ';';
Item: Def | Use | Uses | Rr | Box;
Def: 'def' name=ID (ver=Ver | val=Num)? ';';
Use: 'use' ref=[Def] ';';
Uses: 'uses' refs+=[Def][','] ';';
Rr: 'rr' ref=[Def|ID|^items] ';';
Box: 'box' name=ID '{' items*=Item '}';
Ver: Num '.' Num;
Num: /\d+/;
Comment: /#[^\n]*/;
'''

FILE_NAMES = ["main.loc", "alpha.loc", "beta.loc", "gamma.loc"]
BUILTIN_NAME = "builtin.loc"
GIVEN_NAME = "given.loc"
LETTERS = ["a", "b", "c", "k", "q", "x", "y", "ñ", "δ", "w_"]
GARBAGE = ["%", "@@", "%%%", "$", "&|"]
WS_PLAIN = [" ", " ", " ", "  ", "\n", "\n", "\n\n", "\t", " \n   ", "\n\t", "\r\n", "\r\n  ", "\r", " \r"]
COMMENTS = [" # note\n", "\n# été 中文\n", " #\U0001F600 x\r\n", "\n\n  # c\n  ", " #\n"]
TIGHT_BEFORE = {";", ",", "}", ".", "{"}


class File:
    def __init__(self, ix):
        self.ix = ix
        self.name = FILE_NAMES[ix]
        self.imports = []      # file indices, textual order
        self.items = []        # tree: dicts
        self.toks = []         # token texts
        self.raw = ""          # text written to disk / passed as string
        self.seen = ""         # text the parser holds (universal newlines applied for files)
        self.off = []          # offset (in seen) of every token
        self.objs = []         # dict(cls, first, last) token indices
        self.nums = []         # dict(value, tok)
        self.vers = []         # dict(value, tok)
        self.refs = []         # dict(name, tok)
        self.semis = []        # token indices of ';' that may be dropped


def _name(r, used, prefix=""):
    while True:
        n = prefix + r.choice(LETTERS) + str(r.below(90) + 1) + (r.choice(LETTERS) if r.chance(0.2) else "")
        if n not in used and not n.startswith("late"):
            used.add(n)
            return n


def gen_world(r, nfiles=None, as_string=False, builtin=None, refless=False):
    """Valid world: files[0] is the main model.  Returns dict(files=[File], string=bool, defs={file: [names]}).
    Options drawn here: a builtin model (metamodel builtin_models: an extra, separately loaded file whose
    definitions every model can reference; it is the LAST entry of files and never imported), an explicit
    file_name for string loads, user classes for Def/Box."""
    if as_string:
        nfiles = 1
    if nfiles is None:
        nfiles = r.weighted([(1, 3), (2, 4), (3, 3), (4, 2)])
    if builtin is None:
        builtin = r.chance(0.25)
    files = [File(i) for i in range(nfiles)]
    if builtin:
        b = File(0)
        b.ix, b.name = nfiles, BUILTIN_NAME
        files.append(b)
    for i in range(1, nfiles):
        files[r.below(i)].imports.append(i)
    for i in range(nfiles):
        for j in range(i + 1, nfiles):
            if j not in files[i].imports and r.chance(0.25):
                files[i].imports.append(j)
        files[i].imports = r.shuffle(files[i].imports)
    used = set()
    nextnum = [r.below(50) + 10]
    defs = {}
    # definitions first (bottom-up so that importers can reference them)
    for f in reversed(files):
        names = []

        def mk_items(depth, n):
            out = []
            for _ in range(n):
                k = r.weighted([("def", 5), ("box", 2 if depth < 2 else 0)] + ([] if refless else [("use", 3), ("uses", 1), ("rr", 1)]))
                if k == "def":
                    nm = _name(r, used)
                    names.append(nm)
                    tail = r.weighted([(None, 3), ("num", 2), ("ver", 2)])
                    d = {"k": "def", "name": nm, "tail": tail}
                    if tail:
                        nextnum[0] += 1 + r.below(3)
                        d["a"] = str(nextnum[0])
                        if tail == "ver":
                            nextnum[0] += 1 + r.below(3)
                            d["b"] = str(nextnum[0])
                    out.append(d)
                elif k == "box":
                    out.append({"k": "box", "name": _name(r, used, "B"), "items": mk_items(depth + 1, r.below(3) + (1 if r.chance(0.8) else 0))})
                else:
                    out.append({"k": k})      # targets filled below
            return out
        f.items = mk_items(0, r.range(2, 5))
        if not any(x["k"] == "def" for x in f.items):
            nm = _name(r, used)
            names.append(nm)
            f.items.insert(r.below(len(f.items) + 1), {"k": "def", "name": nm, "tail": None})
        defs[f.ix] = names
    for f in files:
        visible = list(defs[f.ix])
        for j in f.imports:
            visible += defs[j]
        if builtin and f.ix != nfiles:
            visible += defs[nfiles]

        def fill(items, ancestors):
            # rr: RREL `^items` finds definitions that are direct members of an enclosing items list
            reach = [y["name"] for lst in ancestors + [items] for y in lst if y["k"] == "def"]
            for x in items:
                if x["k"] == "rr":
                    if reach:
                        x["names"] = [r.choice(reach)]
                    else:
                        x["k"] = "use"
                if x["k"] == "use":
                    x["names"] = [r.choice(visible)]
                elif x["k"] == "uses":
                    x["names"] = [r.choice(visible) for _ in range(r.range(1, 3))]
                elif x["k"] == "box":
                    fill(x["items"], ancestors + [items])
        fill(f.items, [])
    w = {"files": files, "string": as_string, "defs": defs, "used": used, "builtin": builtin,
         "str_file_name": GIVEN_NAME if as_string and r.chance(0.4) else None,
         "user_classes": r.chance(0.25)}
    return w


def loaded_files(w):
    """the files of the load proper (without the builtin model)"""
    return w["files"][:-1] if w.get("builtin") else w["files"]


def file_name_of(w, f):
    """the file name textX knows for file f of world w (None: loaded from a string without file_name)"""
    if w["string"] and f.name != BUILTIN_NAME:
        return w.get("str_file_name")
    return f.name


def all_item_lists(f):
    out = [f.items]

    def walk(items):
        for x in items:
            if x["k"] == "box":
                out.append(x["items"])
                walk(x["items"])
    walk(f.items)
    return out


def insert_item(r, f, item):
    lst = r.choice(all_item_lists(f))
    lst.insert(r.below(len(lst) + 1), item)


def tokens_of(f, files):
    """Flatten to tokens; records objects, matches, references (token indices)."""
    f.toks, f.objs, f.nums, f.vers, f.refs, f.semis = [], [], [], [], [], []
    T = f.toks

    def emit(t):
        T.append(t)
        return len(T) - 1

    root_first = 0
    for j in f.imports:
        a = emit("import")
        emit('"%s"' % files[j].name)
        b = emit(";")
        f.objs.append({"cls": "Import", "first": a, "last": b, "abstract": False})

    def items(lst):
        for x in lst:
            if x["k"] == "def":
                a = emit("def")
                emit(x["name"])
                if x["tail"] == "num":
                    f.nums.append({"value": x["a"], "tok": emit(x["a"])})
                elif x["tail"] == "ver":
                    t = emit(x["a"])
                    f.nums.append({"value": x["a"], "tok": t})
                    f.vers.append({"value": x["a"] + "." + x["b"], "tok": t})
                    emit(".")
                    f.nums.append({"value": x["b"], "tok": emit(x["b"])})
                b = emit(";")
                f.semis.append(b)
                f.objs.append({"cls": "Def", "first": a, "last": b, "abstract": True, "name": x["name"]})
            elif x["k"] in ("use", "uses", "rr"):
                a = emit(x["k"])
                for i, n in enumerate(x["names"]):
                    if i:
                        emit(",")
                    f.refs.append({"name": n, "tok": emit(n)})
                b = emit(";")
                f.semis.append(b)
                f.objs.append({"cls": {"use": "Use", "uses": "Uses", "rr": "Rr"}[x["k"]], "first": a, "last": b, "abstract": True})
            else:
                a = emit("box")
                emit(x["name"])
                emit("{")
                items(x["items"])
                b = emit("}")
                f.objs.append({"cls": "Box", "first": a, "last": b, "abstract": True, "name": x["name"]})
    items(f.items)
    f.objs.append({"cls": "Model", "first": root_first, "last": len(T) - 1, "abstract": False})


def universal_newlines(s):
    return s.replace("\r\n", "\n").replace("\r", "\n")


def layout(r, f, as_string, garbage=None, drop=None):
    """Render tokens with random whitespace.  garbage=(k, text): insert a stray token before token k
    (k = len(toks): at the end).  drop=k: omit token k.  Sets raw/seen/off; returns offset info of the
    garbage / of the token following the dropped one (in seen text)."""
    parts = []
    raw_off = {}
    special = None
    pos = 0

    def ws(first=False, tight=False):
        nonlocal pos
        if first:
            s = "" if r.chance(0.4) else r.choice(WS_PLAIN + COMMENTS[1:2])
        elif tight and r.chance(0.6):
            s = ""
        else:
            s = r.choice(WS_PLAIN)
            if r.chance(0.15):
                s += r.choice(COMMENTS)
            if r.chance(0.1):
                s += r.choice(WS_PLAIN)
        parts.append(s)
        pos += len(s)

    n = len(f.toks)
    first = True
    pending_drop = False
    for k in range(n + 1):
        if garbage is not None and garbage[0] == k:
            ws(first)
            first = False
            special = pos
            parts.append(garbage[1])
            pos += len(garbage[1])
        if k == n:
            break
        if drop == k:
            pending_drop = True
            continue
        t = f.toks[k]
        ws(first, tight=(t in TIGHT_BEFORE) and not first)
        first = False
        raw_off[k] = pos
        if pending_drop:
            special = pos
            pending_drop = False
        parts.append(t)
        pos += len(t)
    # trailing whitespace / comments
    if r.chance(0.7):
        s = r.choice(WS_PLAIN + COMMENTS)
        parts.append(s)
        pos += len(s)
    f.raw = "".join(parts)
    f.seen = f.raw if as_string else universal_newlines(f.raw)
    conv = (lambda o: o) if as_string else (lambda o: len(universal_newlines(f.raw[:o])))
    f.off = [conv(raw_off[k]) if k in raw_off else None for k in range(n)]
    if pending_drop:     # dropped token was the last one: the parser stops at the end of the input
        return len(f.seen)
    return None if special is None else conv(special)


def load_order(files):
    """Order of get_included_models(main): the main model, then the imported models in load order
    (depth first, textual order of the import statements, each file once)."""
    seen, order = {0}, [0]

    def visit(i):
        for j in files[i].imports:
            if j not in seen and j != 0:
                seen.add(j)
                order.append(j)
                visit(j)
    visit(0)
    return order


# ------------------------------------------------------------------ independent line/col
def linecol(text, pos):
    """Line and column (1-based) of offset pos: lines are separated by \\n only."""
    line = text.count("\n", 0, pos) + 1
    last = text.rfind("\n", 0, pos)
    return line, pos - last


# ------------------------------------------------------------------ Coq side
IMPORTS = """From TxV Require Import Core.Base Core.Show Model.PegSyntax Model.Peg Model.Build Model.ErrLoc Gen.SrcLoc Model.ErrLocLoad.
Open Scope string_scope.
Definition show_rec (r : errrec) : string :=
  show_opt show_str (r_file r) ++ "|" ++ show_opt show_nat (r_line r) ++ "|" ++ show_opt show_nat (r_col r) ++ "|" ++ show_opt show_nat (r_nchar r).
Definition show_lc (p : option nat * option nat) : string := show_opt show_nat (fst p) ++ ":" ++ show_opt show_nat (snd p).
Definition show_unres (x : option errrec * list (option nat * option nat)) : string :=
  show_opt show_rec (fst x) ++ "#" ++ sjoin "," (map show_lc (snd x)).
Definition show_out (o : ErrLoc.outcome) : string :=
  match o with Loaded => "Loaded" | Propagates => "Propagates" | Fails e => "Fails:" ++ show_rec e end.
Definition show_lcs (t : list N) (n : nat) : string :=
  sjoin "," (map (fun p => let lc := ErrLoc.pos_to_linecol t p in show_nat (fst lc) ++ ":" ++ show_nat (snd lc)) (seq 0 n)).
(* texts are passed as ASCII string literals (fast to parse): ~<decimal>; escapes every other code point *)
Fixpoint dec_go (s : string) (acc : option N) : list N :=
  match s with
  | EmptyString => []
  | String a r =>
    let c := Ascii.N_of_ascii a in
    match acc with
    | Some v => if N.eqb c 59 then v :: dec_go r None else dec_go r (Some (v * 10 + (c - 48))%N)
    | None => if N.eqb c 126 then dec_go r (Some 0%N) else c :: dec_go r None
    end
  end.
Definition dec (s : string) : list N := dec_go s None.
Definition mk (n : option (list N)) (t : list N) : src := {| s_name := n; s_text := t |}.
Definition er (f : option (list N)) (l c n : option nat) : errrec := {| r_file := f; r_line := l; r_col := c; r_nchar := n |}."""


def coq_txt(t):
    """Python str -> Coq term of type list N through the `dec` string encoding."""
    out = []
    for c in t:
        o = ord(c)
        out.append(c if 32 <= o < 127 and c not in '"~' else "~%d;" % o)
    return '(dec "%s")' % "".join(out)


def coq_fs(world):
    items = []
    for f in world["files"]:
        n = file_name_of(world, f)
        nm = "None" if n is None else "(Some %s)" % core.coq_str(n)
        items.append("mk %s %s" % (nm, coq_txt(f.seen)))
    return core.coq_list(items)


def coq_nat(n):
    return "%d%%nat" % n


def coq_onat(n):
    return "None" if n is None else "(Some %d%%nat)" % n


def canon_rec(filename, line, col, nchar):
    f = lambda x: "None" if x is None else str(x)
    return "%s|%s|%s|%s" % ("None" if filename is None else core.canon_text(filename), f(line), f(col), f(nchar))


def impl_canon(o):
    """Runner outcome -> canonical string comparable with show_out / show_rec."""
    if o["status"] == "ok":
        return "Loaded"
    if o["status"] == "exc":
        return "Propagates"
    return "Fails:" + canon_rec(o["filename"], o["line"], o["col"], o["nchar"])


def world_payload(world):
    p = {"grammar": GRAMMAR, "string": world["string"],
         "files": [{"name": f.name, "raw": f.raw} for f in loaded_files(world)],
         "str_file_name": world.get("str_file_name"), "user_classes": bool(world.get("user_classes"))}
    if world.get("builtin"):
        b = world["files"][-1]
        p["builtin"] = {"name": b.name, "raw": b.raw}
    return p


def world_stats(chk, world):
    chk.stat("files=%d" % len(loaded_files(world)))
    chk.stat("loaded from " + ("string" if world["string"] else "file"))
    if world.get("builtin"):
        chk.stat("with a builtin model")
    if world.get("str_file_name"):
        chk.stat("string with explicit file_name")
    if world.get("user_classes"):
        chk.stat("user classes for Def/Box")
    t = "".join(f.raw for f in world["files"])
    if "\r" in t:
        chk.stat("layout has CR")
    if any(ord(c) > 127 for c in t):
        chk.stat("layout has non-ASCII")


# ------------------------------------------------------------------ corpus (hand-written worlds)
def world_from_files(files, as_string):
    """files: ordered mapping name -> raw text (main model first)."""
    out = []
    for i, (name, raw) in enumerate(files.items()):
        f = File(0)
        f.ix, f.name, f.raw = i, name, raw
        f.seen = raw if as_string else universal_newlines(raw)
        out.append(f)
    return {"files": out, "string": as_string, "builtin": False, "str_file_name": None, "user_classes": False, "corpus": True}


def corpus_files(pid):
    d = os.path.join(core.VERIF, "corpus", pid)
    if not os.path.isdir(d):
        return []
    import json
    res = []
    for n in sorted(os.listdir(d)):
        if n.endswith(".json"):
            with open(os.path.join(d, n), encoding="utf-8") as fh:
                res.append((n, json.load(fh)))
    return res
