"""C33 — errors raised by object and match processors carry the location of the processed text."""
import json

from vt import core
from vt.main import decide
from translate import loc_tr
from props import loc_common as L

SUPPLY = [({}, 6), ({"line": 901}, 2), ({"col": 77}, 2), ({"nchar": 5}, 2), ({"filename": "supplied.txt"}, 2),
          ({"line": 3, "col": 0}, 1), ({"line": 12, "col": 34, "nchar": 56, "filename": "elsewhere.txt"}, 2),
          ({"nchar": 0}, 1)]


def gen_case(r, force=None):
    as_string = r.chance(0.3)
    w = L.gen_world(r, as_string=as_string)
    files = w["files"]
    for f in files:
        L.tokens_of(f, files)
        L.layout(r, f, as_string and f.name != L.BUILTIN_NAME)
    kind = force or r.weighted([("obj", 6), ("match", 4)])
    f = r.choice(L.loaded_files(w))
    proc = {"kind": kind, "wrap": r.chance(0.5)}
    if kind == "match" and not (f.nums or f.vers):
        kind = proc["kind"] = "obj"
    if kind == "obj":
        # the root object shares its start offset with its first child: favour it
        roots = [x for x in f.objs if x["cls"] == "Model"]
        o = r.choice(roots) if r.chance(0.2) else r.choice(f.objs)
        rule = o["cls"]
        if o["abstract"] and r.chance(0.3):
            rule = "Item"               # processor registered on the abstract rule of the list
        pos = f.off[o["first"]]
        pos_end = f.off[o["last"]] + len(f.toks[o["last"]])
        proc.update({"rule": rule, "cls_name": o["cls"], "pos": pos, "pos_end": pos_end, "file": L.file_name_of(w, f)})
        text = f.seen[pos:pos_end]
    else:
        if f.vers and r.chance(0.4):
            m = r.choice(f.vers)
            rule = "Ver"
        else:
            m = r.choice(f.nums)
            rule = "Num"
        proc.update({"rule": rule, "value": m["value"], "pos": f.off[m["tok"]], "file": L.file_name_of(w, f)})
        text = m["value"]
    style = r.weighted([("textx", 7), ("other", 3)])
    proc["style"] = style
    if style == "textx":
        proc["supplied"] = dict(r.weighted(SUPPLY))
        proc["cls"] = r.choice(["semantic", "semantic", "base", "syntax"])
    else:
        proc["supplied"] = {}
    # other (returning) processors on every common rule: their calls must not influence the failing one
    return {"world": w, "proc": proc, "fidx": f.ix, "text": text, "benign": kind == "obj" and r.chance(0.5)}


def coq_case(case):
    p = case["proc"]
    fs = L.coq_fs(case["world"])
    s = p["supplied"]
    if p["style"] == "other":
        r = "RaisesOther"
    else:
        fn = s.get("filename")
        r = "(RaisesTx (er %s %s %s %s))" % ("None" if fn is None else "(Some %s)" % core.coq_str(fn),
                                             L.coq_onat(s.get("line")), L.coq_onat(s.get("col")), L.coq_onat(s.get("nchar")))
    if p["kind"] == "obj":
        return "let fs := %s in show_out (obj_dispatch process_fills location_keys fs %s %s %s %s %s)" % (
            fs, L.coq_nat(case["fidx"]), L.coq_nat(p["pos"]), L.coq_nat(p["pos_end"]), core.coq_bool(p["wrap"]), r)
    return "let fs := %s in show_out (match_dispatch process_fills match_keys fs %s %s %s %s)" % (
        fs, L.coq_nat(case["fidx"]), L.coq_nat(p["pos"]), core.coq_bool(p["wrap"]), r)


def oracle(case, o):
    """The property on the implementation's outcome."""
    p = case["proc"]
    w = case["world"]
    f = w["files"][case["fidx"]]
    if not o["fired"]:
        return "the processor never saw the target (%s at offset %d): %r" % (p["rule"], p["pos"], o.get("message") or o["status"])
    if p["kind"] == "obj" and o["fired"][0][1:] != [p["pos"], p["pos_end"]]:
        return "object span %r differs from the generated text span %r" % (o["fired"][0][1:], [p["pos"], p["pos_end"]])
    if p["style"] == "other" and not p["wrap"]:
        # outside the statement: a foreign exception without the wrapper must simply propagate
        return None if o["status"] == "exc" and o["cls"] == "Boom" else "a foreign exception did not propagate unchanged: %r" % (o,)
    if o["status"] != "textx":
        return "loading did not fail with a TextXError: %r" % (o,)
    line, col = L.linecol(f.seen, p["pos"])
    s = p["supplied"]
    want = {"line": s.get("line", line), "col": s.get("col", col),
            "filename": s.get("filename", L.file_name_of(w, f)),
            "nchar": s.get("nchar", (p["pos_end"] - p["pos"]) if p["kind"] == "obj" else None)}
    got = {k: o[k] for k in want}
    if got != want:
        return "error carries %r, the processed text %r is at %r" % (got, case["text"], want)
    if not o["dir_ok"]:
        return "file name of the error is not the path of the loaded file"
    return None


def corpus_case(j):
    w = L.world_from_files(j["files"], j["string"])
    return {"world": w, "proc": j["proc"], "fidx": [f.name for f in w["files"]].index(j["target_file"]), "text": j["text"]}


def payload_of(case):
    p = L.world_payload(case["world"])
    p["proc"] = case["proc"]
    p["benign"] = bool(case.get("benign"))
    return p


def describe(case):
    w = case["world"]
    return {"string": w["string"], "files": {f.name: f.raw for f in w["files"]}, "proc": case["proc"], "payload": payload_of(case),
            "target_file": w["files"][case["fidx"]].name, "text": case["text"]}


def run(chk):
    chk.prove([loc_tr.translate])
    n = 1200 if chk.thorough else 180
    cases = [corpus_case(j) for _, j in L.corpus_files("C33")]      # corpus first
    cases += [gen_case(chk.rng.split("fixed%d" % i), k) for i, k in enumerate(["obj", "match"] * 3)]
    cases += [gen_case(chk.rng.split(i)) for i in range(n)]
    payloads = [payload_of(c) for c in cases]
    chunks = [list(range(len(cases)))[i::core.NPROC] for i in range(core.NPROC)]
    chunks = [c for c in chunks if c]
    outs = core.run_impl_parallel("c33", [{"cases": [payloads[i] for i in ch]} for ch in chunks])
    res = {}
    for ch, o in zip(chunks, outs):
        for i, x in zip(ch, o):
            res[i] = x
    vals, errs = core.coq_eval("C33", L.IMPORTS, [coq_case(c) for c in cases])
    disagreements, failures = [], []
    if errs:
        disagreements.append({"case": "coq evaluation", "model": errs[:2]})
    for i, (c, mv) in enumerate(zip(cases, vals)):
        o = res[i]
        p = c["proc"]
        w = c["world"]
        line = L.linecol(w["files"][c["fidx"]].seen, p["pos"])[0]
        chk.count(json.dumps([[f.raw for f in w["files"]], p]), nontrivial=line > 1 and not (p["style"] == "other" and not p["wrap"]))
        chk.stat("%s processor on %s" % (p["kind"], p["rule"]))
        chk.stat("raises %s%s" % ("TextXError" if p["style"] == "textx" else "foreign exception", " via textxerror_wrap" if p["wrap"] else ""))
        if p["supplied"]:
            chk.stat("processor supplies " + "+".join(sorted(p["supplied"])))
        if c.get("benign"):
            chk.stat("with returning processors on all other rules")
        if c["fidx"] != 0:
            chk.stat("target inside an imported file")
        L.world_stats(chk, w)
        ic = L.impl_canon(o)
        if mv is not None and ic != mv:
            disagreements.append({"case": describe(c), "impl": o, "model": mv, "impl_canon": ic})
        bad = oracle(c, o)
        if bad:
            failures.append({"case": describe(c), "impl": o, "model": mv, "what": bad, "tags": []})
        if i % 45 == 3:
            chk.sample({"case": describe(c), "impl": {k: o.get(k) for k in ("status", "cls", "line", "col", "nchar", "filename")}, "model": mv})
    chk.cov["rule"] = ("generated 1-4 file models (from file, single-file also from a string; random layout with CRLF/CR, comments, non-ASCII) with one "
                       "processor registered on a common rule (Def/Use/Uses/Rr/Box/Import/Model), on the abstract rule Item, or on a match rule (Num terminal, "
                       "Ver composite) that fails on ONE randomly chosen object/match, raising a TextXError (semantic/syntax/base) with none, some or all of "
                       "line/col/nchar/filename supplied, or a foreign exception; each with and without textxerror_wrap; non-trivial = target not on line 1 and "
                       "the case is inside the statement (not an unwrapped foreign exception); distinct by (file texts, processor spec)")
    chk.assumptions += ["translator loc_tr.py (fields filled by TextXMetaModel.process, keys of get_location, keyword arguments of the match dispatch; "
                        "shape of textxerror_wrap and of the dispatch calls checked literally)",
                        "_tx_position/_tx_position_end of the processed object and the position of the match node are the span of its text "
                        "(observed by the oracle on every case, not modelled: C06)"]
    decide(chk, failures, disagreements)


def replay(rep):
    print(json.dumps(rep, indent=1, default=str))
    c = rep.get("case") or {}
    if "files" not in c:
        return 0
    payload = c.get("payload") or {"grammar": L.GRAMMAR, "string": c["string"], "files": [{"name": n, "raw": t} for n, t in c["files"].items()], "proc": c["proc"]}
    out = core.run_impl("c33", {"cases": [payload]})[0]
    print("implementation now:", json.dumps(out, default=str))
    return 0
