"""C33 — errors raised by object and match processors carry the location of the processed text."""
import json

from vt import core
from vt.main import decide
from translate import loc_tr
from props import loc_common as L

SUPPLY = [({}, 6), ({"line": 901}, 2), ({"col": 77}, 2), ({"nchar": 5}, 2), ({"filename": "supplied.txt"}, 2),
          ({"line": 3, "col": 0}, 1), ({"line": 12, "col": 34, "nchar": 56, "filename": "elsewhere.txt"}, 2),
          ({"nchar": 0}, 1)]


def gen_case(r, force=None):
    as_string = r.chance(0.3)
    # a third of the worlds have no cross-references: Model/Build.v does not cover them, and on these worlds
    # the whole pipeline (parser model + builder model + dispatch) is evaluated
    w = L.gen_world(r, as_string=as_string, refless=r.chance(0.35))
    files = w["files"]
    for f in files:
        L.tokens_of(f, files)
        L.layout(r, f, as_string and f.name != L.BUILTIN_NAME)
    kind = force or r.weighted([("obj", 6), ("match", 4)])
    f = r.choice(L.loaded_files(w))
    proc = {"kind": kind, "wrap": r.chance(0.5)}
    if kind == "match" and not (f.nums or f.vers):
        kind = proc["kind"] = "obj"
    if kind == "obj":
        # the root object shares its start offset with its first child: favour it
        roots = [x for x in f.objs if x["cls"] == "Model"]
        o = r.choice(roots) if r.chance(0.2) else r.choice(f.objs)
        rule = o["cls"]
        if o["abstract"] and r.chance(0.3):
            rule = "Item"               # processor registered on the abstract rule of the list
        pos = f.off[o["first"]]
        pos_end = f.off[o["last"]] + len(f.toks[o["last"]])
        proc.update({"rule": rule, "cls_name": o["cls"], "pos": pos, "pos_end": pos_end, "file": L.file_name_of(w, f)})
        text = f.seen[pos:pos_end]
    else:
        if f.vers and r.chance(0.4):
            m = r.choice(f.vers)
            rule = "Ver"
        else:
            m = r.choice(f.nums)
            rule = "Num"
        proc.update({"rule": rule, "value": m["value"], "pos": f.off[m["tok"]], "file": L.file_name_of(w, f)})
        text = m["value"]
    style = r.weighted([("textx", 7), ("other", 3)])
    proc["style"] = style
    if style == "textx":
        proc["supplied"] = dict(r.weighted(SUPPLY))
        proc["cls"] = r.choice(["semantic", "semantic", "base", "syntax"])
    else:
        proc["supplied"] = {}
    # other (returning) processors on every common rule: their calls must not influence the failing one
    return {"world": w, "proc": proc, "fidx": f.ix, "text": text, "benign": kind == "obj" and r.chance(0.5)}


def coq_case(case):
    p = case["proc"]
    fs = L.coq_fs(case["world"])
    s = p["supplied"]
    if p["style"] == "other":
        r = "RaisesOther"
    else:
        fn = s.get("filename")
        r = "(RaisesTx (er %s %s %s %s))" % ("None" if fn is None else "(Some %s)" % core.coq_str(fn),
                                             L.coq_onat(s.get("line")), L.coq_onat(s.get("col")), L.coq_onat(s.get("nchar")))
    if p["kind"] == "obj":
        return "let fs := %s in show_out (obj_dispatch process_fills location_keys fs %s %s %s %s %s)" % (
            fs, L.coq_nat(case["fidx"]), L.coq_nat(p["pos"]), L.coq_nat(p["pos_end"]), core.coq_bool(p["wrap"]), r)
    return "let fs := %s in show_out (match_dispatch process_fills match_keys fs %s %s %s %s)" % (
        fs, L.coq_nat(case["fidx"]), L.coq_nat(p["pos"]), core.coq_bool(p["wrap"]), r)


PIPE_FUEL = 200


def pipeline_applies(c):
    """object case of a generated world whose target file has no cross-references (Model/Build.v does not model them)"""
    return c["proc"]["kind"] == "obj" and not c["world"].get("corpus") and not c["world"]["files"][c["fidx"]].refs


def pipeline_expr(case, o, k):
    """the same case through Model/Peg.v + Model/Build.v: the object is found by class and start offset in the
    model built from the TEXT; its end (hence nchar) is the builder's, not the generator's"""
    import pegdump
    import mmdump
    p = case["proc"]
    s = p["supplied"]
    if p["style"] == "other":
        r = "RaisesOther"
    else:
        fn = s.get("filename")
        r = "(RaisesTx (er %s %s %s %s))" % ("None" if fn is None else "(Some %s)" % core.coq_str(fn),
                                             L.coq_onat(s.get("line")), L.coq_onat(s.get("col")), L.coq_onat(s.get("nchar")))
    return ("let fs := %s in show_opt show_out (process_loaded_object process_fills location_keys gL%d cL%d (orc_of %s) %d mL%d "
            "(grp_of %s) %s %s fs %s %s %s %s %s)") % (
        L.coq_fs(case["world"]), k, k, pegdump.coq_table(o["peg_table"]), PIPE_FUEL, k, mmdump.coq_gtable(o["peg_gtable"]),
        core.coq_bool(o["mm_auto"]), core.coq_bool(o["mm_use_grp"]), L.coq_nat(case["fidx"]), core.coq_str(p["cls_name"]),
        L.coq_nat(p["pos"]), core.coq_bool(p["wrap"]), r)


def oracle(case, o):
    """The property on the implementation's outcome."""
    p = case["proc"]
    w = case["world"]
    f = w["files"][case["fidx"]]
    if not o["fired"]:
        return "the processor never saw the target (%s at offset %d): %r" % (p["rule"], p["pos"], o.get("message") or o["status"])
    if p["kind"] == "obj" and o["fired"][0][1:] != [p["pos"], p["pos_end"]]:
        return "object span %r differs from the generated text span %r" % (o["fired"][0][1:], [p["pos"], p["pos_end"]])
    if p["style"] == "other" and not p["wrap"]:
        # outside the statement: a foreign exception without the wrapper must simply propagate
        return None if o["status"] == "exc" and o["cls"] == "Boom" else "a foreign exception did not propagate unchanged: %r" % (o,)
    if o["status"] != "textx":
        return "loading did not fail with a TextXError: %r" % (o,)
    line, col = L.linecol(f.seen, p["pos"])
    s = p["supplied"]
    want = {"line": s.get("line", line), "col": s.get("col", col),
            "filename": s.get("filename", L.file_name_of(w, f)),
            "nchar": s.get("nchar", (p["pos_end"] - p["pos"]) if p["kind"] == "obj" else None)}
    got = {k: o[k] for k in want}
    if got != want:
        return "error carries %r, the processed text %r is at %r" % (got, case["text"], want)
    if not o["dir_ok"]:
        return "file name of the error is not the path of the loaded file"
    return None


def corpus_case(j):
    w = L.world_from_files(j["files"], j["string"])
    return {"world": w, "proc": j["proc"], "fidx": [f.name for f in w["files"]].index(j["target_file"]), "text": j["text"]}


def payload_of(case):
    p = L.world_payload(case["world"])
    p["proc"] = case["proc"]
    p["benign"] = bool(case.get("benign"))
    return p


def describe(case):
    w = case["world"]
    return {"string": w["string"], "files": {f.name: f.raw for f in w["files"]}, "proc": case["proc"], "payload": payload_of(case),
            "target_file": w["files"][case["fidx"]].name, "text": case["text"]}


def run(chk):
    chk.prove([loc_tr.translate])
    n = 1200 if chk.thorough else 180
    cases = [corpus_case(j) for _, j in L.corpus_files("C33")]      # corpus first
    cases += [gen_case(chk.rng.split("fixed%d" % i), k) for i, k in enumerate(["obj", "match"] * 3)]
    cases += [gen_case(chk.rng.split(i)) for i in range(n)]
    payloads = [payload_of(c) for c in cases]
    for c, p in zip(cases, payloads):
        if pipeline_applies(c):   # span recomputed by the parser + builder models
            p["peg_text"] = c["world"]["files"][c["fidx"]].seen
            p["want_mm"] = True
    chunks = [list(range(len(cases)))[i::core.NPROC] for i in range(core.NPROC)]
    chunks = [c for c in chunks if c]
    outs = core.run_impl_parallel("c33", [{"cases": [payloads[i] for i in ch]} for ch in chunks])
    res = {}
    for ch, o in zip(chunks, outs):
        for i, x in zip(ch, o):
            res[i] = x
    import pegdump
    import mmdump
    disagreements, failures = [], []
    pipe = [i for i, c in enumerate(cases) if res[i].get("mm_info") is not None]
    keyf = lambda i: json.dumps([res[i]["peg_dump"], res[i]["mm_info"]], sort_keys=True)
    variants = sorted({keyf(i) for i in pipe})          # with / without user classes
    defs = []
    for k, v in enumerate(variants):
        dj, mi = json.loads(v)
        defs.append("Definition gL%d : grammar := %s.\nDefinition cL%d : config := %s.\nDefinition mL%d : list ninfo := %s." % (
            k, pegdump.coq_grammar(dj), k, pegdump.coq_config(dj), k, mmdump.coq_mm(mi)))
    pipe_exprs = [pipeline_expr(cases[i], res[i], variants.index(keyf(i))) for i in pipe]
    vals, errs = core.coq_eval("C33", L.IMPORTS, [coq_case(c) for c in cases] + pipe_exprs, defs="\n".join(defs))
    pipe_vals = dict(zip(pipe, vals[len(cases):]))
    vals = vals[:len(cases)]
    n_obj = sum(1 for c in cases if pipeline_applies(c))
    if len(pipe) != n_obj:
        disagreements.append({"case": "parser/metamodel dump", "model": "dumped %d of %d object cases: %s" % (
            len(pipe), n_obj, [res[i].get("peg_unsupported") for i in range(len(cases)) if res[i].get("peg_unsupported")][:2])})
    if errs:
        disagreements.append({"case": "coq evaluation", "model": errs[:2]})
    for i, (c, mv) in enumerate(zip(cases, vals)):
        o = res[i]
        p = c["proc"]
        w = c["world"]
        line = L.linecol(w["files"][c["fidx"]].seen, p["pos"])[0]
        chk.count(json.dumps([[f.raw for f in w["files"]], p]), nontrivial=line > 1 and not (p["style"] == "other" and not p["wrap"]))
        chk.stat("%s processor on %s" % (p["kind"], p["rule"]))
        chk.stat("raises %s%s" % ("TextXError" if p["style"] == "textx" else "foreign exception", " via textxerror_wrap" if p["wrap"] else ""))
        if p["supplied"]:
            chk.stat("processor supplies " + "+".join(sorted(p["supplied"])))
        if c.get("benign"):
            chk.stat("with returning processors on all other rules")
        if c["fidx"] != 0:
            chk.stat("target inside an imported file")
        L.world_stats(chk, w)
        ic = L.impl_canon(o)
        if mv is not None and ic != mv:
            disagreements.append({"case": describe(c), "impl": o, "model": mv, "impl_canon": ic})
        if i in pipe_vals:
            pv = pipe_vals[i]
            if pv == "None":
                chk.stat("pipeline model: object outside the modelled fragment / not found")
                disagreements.append({"case": describe(c), "impl": o, "model (Peg.run + Build + dispatch)": pv})
            else:
                chk.stat("object span computed by the parser and builder models")
                if pv is not None and pv != ic:
                    disagreements.append({"case": describe(c), "impl": o, "model (Peg.run + Build + dispatch)": pv, "impl_canon": ic})
        bad = oracle(c, o)
        if bad:
            failures.append({"case": describe(c), "impl": o, "model": mv, "what": bad, "tags": []})
        if i % 45 == 3:
            chk.sample({"case": describe(c), "impl": {k: o.get(k) for k in ("status", "cls", "line", "col", "nchar", "filename")}, "model": mv})
    chk.cov["rule"] = ("generated 1-4 file models (from file, single-file also from a string; random layout with CRLF/CR, comments, non-ASCII) with one "
                       "processor registered on a common rule (Def/Use/Uses/Rr/Box/Import/Model), on the abstract rule Item, or on a match rule (Num terminal, "
                       "Ver composite) that fails on ONE randomly chosen object/match, raising a TextXError (semantic/syntax/base) with none, some or all of "
                       "line/col/nchar/filename supplied, or a foreign exception; each with and without textxerror_wrap; non-trivial = target not on line 1 and "
                       "the case is inside the statement (not an unwrapped foreign exception); distinct by (file texts, processor spec)")
    chk.assumptions += ["translator loc_tr.py (fields filled by TextXMetaModel.process, keys of get_location, keyword arguments of the match dispatch; "
                        "shape of textxerror_wrap and of the dispatch calls checked literally)",
                        "_tx_position/_tx_position_end of the processed object and the position of the match node are the span of its text "
                        "(observed by the oracle on every case, not modelled: C06)"]
    decide(chk, failures, disagreements)


def replay(rep):
    print(json.dumps(rep, indent=1, default=str))
    c = rep.get("case") or {}
    if "files" not in c:
        return 0
    payload = c.get("payload") or {"grammar": L.GRAMMAR, "string": c["string"], "files": [{"name": n, "raw": t} for n, t in c["files"].items()], "proc": c["proc"]}
    out = core.run_impl("c33", {"cases": [payload]})[0]
    print("implementation now:", json.dumps(out, default=str))
    return 0
