"""C27 — model parameters are validated and reach every loaded model."""
import fnmatch
import json
import os
from vt import core
from vt.main import decide
from translate import params_tr

# ---- values: the model treats a value as an opaque identity; the runner gets the Python object
VALS = {0: 0, 1: 1, 2: "x", 3: None, 4: "", 5: [1, 2], 6: False, 7: "a/b"}
DIRV = {100: "root", 101: "cwd", 102: "lib", 103: "nodir"}
REPR2VID = {repr(v): k for k, v in VALS.items()}
REPR2VID.update({repr("{T}/" + d): k for k, d in DIRV.items()})
# what the harness itself believes the explicit arguments are (only used to choose harmless values for them;
# the property oracle takes the names from inspect.signature in the runner)
SIG_STR = ["self", "model_str", "file_name", "debug", "pre_ref_resolution_callback", "encoding"]
SIG_FILE = ["self", "file_name", "encoding", "debug"]
SIG_REPO = ["self", "global_model_repo", "encoding"]
BENIGN = {"debug": None, "encoding": "utf-8", "pre_ref_resolution_callback": None, "file_name": None, "global_model_repo": None}


def sig_for(entry):
    return SIG_FILE if entry == "file" else (SIG_REPO if entry == "repo" else SIG_STR)
USER_NAMES = ["p1", "p2", "mode", "source", "name", "kwargs", "k"]
UNDECLARED = ["q", "undeclared", "Project_root", "p", "project_roo", "description"]
PROVS = ["none", "importuri", "importuri_fqn", "importuri_sp", "importuri_fqn_sp", "rrel", "globalrepo", "globalrepo_fqn"]


def family(prov):
    return "none" if prov == "none" else ("globalrepo" if prov.startswith("globalrepo") else "importuri")


def is_sp(prov):
    return prov.endswith("_sp")


EXT_LANG = {".m": 0, ".n1": 1, ".n2": 2}


def lang_of(case, path):
    """The registered language whose pattern matches the file name (None: no language registered for it).
    Languages are registered only in multi-language scenarios: language 0 = the entry metamodel (*.m), k = *.n<k>."""
    n = case.get("nlangs") or 0
    k = EXT_LANG.get(os.path.splitext(path)[1])
    return k if (k is not None and k < n) else None


def stem(path):
    return os.path.splitext(os.path.basename(path))[0]


# ---------------------------------------------------------------- resolution of imports (harness side)
def glob_ids(files, dirname, pattern):
    pat = os.path.normpath(os.path.join(dirname, pattern))
    d, b = os.path.split(pat)
    ids = [i for i, f in enumerate(files) if os.path.dirname(f["path"]) == d and fnmatch.fnmatchcase(os.path.basename(f["path"]), b)]
    ids.sort(key=lambda i: files[i]["path"])
    return ids or None


def sp_ids(files, dirs, uri):
    for d in dirs:
        p = os.path.normpath(os.path.join(d, uri))
        for i, f in enumerate(files):
            if f["path"] == p:
                return [i]
    return None


def imports_of(case, dirname, uris):
    """Coq-side import records of a model located in `dirname` (None: no file name) with the given import URIs."""
    fam = family(case["prov"])
    files = case["files"]
    if fam == "none":
        return []
    if fam == "globalrepo":
        recs = []
        for pat in case["patterns"]:
            if pat.startswith("{T}/"):
                recs.append({"plain": glob_ids(files, "", pat[4:]), "rel": False, "rooted": []})
            else:
                recs.append({"plain": glob_ids(files, "cwd", pat), "rel": True,
                             "rooted": [[v, glob_ids(files, d, pat)] for v, d in sorted(DIRV.items())]})
        return recs
    recs = []
    for u in uris:
        if dirname is None:
            recs.append({"plain": None, "rel": False, "rooted": []})
        elif is_sp(case["prov"]):
            recs.append({"plain": sp_ids(files, [dirname] + case["search_path"], u), "rel": False, "rooted": []})
        else:
            recs.append({"plain": glob_ids(files, dirname, u), "rel": False, "rooted": []})
    return recs


def text_of(case, base, uris, prim, dirname, own_lang=0):
    """own_lang: the registered language of the model being written (0 for models loaded through the entry
    metamodel).  References cross files only inside one metamodel: in a multi-language scenario a file refers to
    items of an imported file only when both belong to the same registered language (classes of different
    metamodels never match); files without registered language neither refer nor are referred to."""
    if prim:
        return "#" + base
    fam = family(case["prov"])
    multi = bool(case.get("nlangs"))

    def can_ref(path):
        return (not multi) or (own_lang is not None and lang_of(case, path) == own_lang)
    lines = []
    refs = []
    if case["prov"] == "rrel":
        refs.append(base)      # the RREL loader hangs on the references: a model without any never loads its imports
    if case.get("builtin") and (own_lang == 0 or not multi):
        refs.append("z")       # the item of the builtin model (the result of operation 0)
    if fam == "importuri":
        for u in uris:
            lines.append('import "%s"' % u)
        for rec in imports_of(case, dirname, uris):
            for i in rec["plain"] or []:
                f = case["files"][i]
                if not f["prim"] and can_ref(f["path"]):
                    refs.append(f["base"])
    elif fam == "globalrepo":
        for pat in case["patterns"]:
            b = os.path.basename(pat)
            if not any(ch in b for ch in "*?[") and can_ref(b) and any(os.path.basename(f["path"]) == b and not f["prim"] for f in case["files"]):
                refs.append(stem(b))
    lines.append("item " + base)
    seen = []
    for x in refs:
        if x not in seen:
            seen.append(x)
            lines.append("ref " + x)
    return "\n".join(lines) + "\n"


# ---------------------------------------------------------------- generator
def gen_kw(r, entry, declared, fam, malformed):
    n = r.weighted([(0, 2), (1, 4), (2, 4), (3, 3), (4, 1)])
    pool_ok = list(declared)
    kws = []
    used = set()
    if fam == "globalrepo" and r.chance(0.55):      # most GlobalRepo loads name the project directory
        used.add("project_root")
        kws.append(["project_root", r.weighted([(100, 8), (101, 3), (103, 1 if malformed else 0)])])
    for _ in range(n):
        cls = r.weighted([("decl", 10), ("undecl", 3 if malformed else 1), ("reserved", 3 if malformed else 1)])
        if cls == "decl" and pool_ok:
            k = r.choice(pool_ok)
        elif cls == "undecl":
            k = r.choice(UNDECLARED + USER_NAMES)
        elif cls == "reserved":
            k = r.choice(SIG_REPO if entry == "repo" else SIG_STR)
        else:
            k = "project_root"
        if k in used:
            continue
        used.add(k)
        if k == "project_root" and fam == "globalrepo":
            v = r.weighted([(100, 6), (101, 3), (103, 1)])
        elif k == "project_root":
            v = r.choice([100, 101, 2, 3, 0])
        else:
            v = r.below(len(VALS))
        kws.append([k, v])
    return kws


def gen_case(r, idx, malformed=False):
    prov = r.choice(PROVS) if not r.chance(0.1) else "none"
    fam = family(prov)
    case = {"prov": prov, "grepo": r.chance(0.45), "dirs": ["root", "cwd", "lib"], "search_path": [], "patterns": []}
    # several registered languages: imports of *.n<k> files are loaded by another metamodel with its own declarations
    multi = fam != "none" and prov != "rrel" and r.chance(0.6 if fam == "globalrepo" else 0.4)
    case["nlangs"] = r.choice([2, 2, 3]) if multi else 0
    case["builtin"] = fam == "importuri" and prov != "rrel" and r.chance(0.25)
    # declarations
    adds = []
    for _ in range(r.weighted([(0, 1), (1, 3), (2, 4), (3, 3), (4, 1)])):
        if r.chance(0.25 if malformed else 0.08):
            adds.append(r.choice(SIG_STR))
        else:
            adds.append(r.choice(USER_NAMES))
    if multi and not any(a in USER_NAMES for a in adds):
        adds.append(r.choice(USER_NAMES))        # the outer language declares something of its own
    case["adds"] = adds
    case["lang_adds"] = [r.sample(USER_NAMES, r.weighted([(0, 5), (1, 3), (2, 1)])) for _ in range(max(0, case["nlangs"] - 1))]
    declared = list(dict.fromkeys(["project_root"] + [a for a in adds if a not in SIG_STR and a not in SIG_FILE]))
    # files
    bases = ["a", "b", "c", "d", "e"]
    ext = {b: ".m" for b in bases + ["p"]}
    if multi:
        for b in bases[1:]:
            ext[b] = r.weighted([(".m", 4), (".n1", 4), (".n2", 2 if case["nlangs"] == 3 else 0), (".u", 1)])
    files = []
    nroot = r.range(2, 5) if fam != "none" else r.range(1, 3)

    def mk(d, b):
        return {"path": "%s/%s%s" % (d, b, ext[b]), "base": b, "uris": [], "prim": False}
    for b in bases[:nroot]:
        files.append(mk("root", b))
    if fam == "globalrepo":
        for b in (bases[:nroot] if r.chance(0.5) else r.sample(bases[:nroot], r.range(0, nroot))):
            files.append(mk("cwd", b))
    if is_sp(prov):
        case["search_path"] = ["lib"]
        for b in r.sample(bases, r.range(1, 3)):
            files.append(mk("lib", b))
    if fam == "none" and r.chance(0.3):
        files.append({"path": "root/p.m", "base": "p", "uris": [], "prim": True})
    elif fam != "none" and prov != "rrel" and r.chance(0.05) and len(files) > 1:
        files[-1]["prim"] = True
    case["files"] = files
    wild = ["*.m", "[ab].m", "?.m"] + (["*.n1", "*.*", "[abc].*"] if multi else [])
    if fam == "globalrepo":
        pats = []
        for _ in range(r.range(1, 3)):
            kind = r.weighted([("rel", 6), ("abs", 3), ("wild", 2), ("missing", 1 if malformed else 0)])
            b = r.choice(bases[:nroot])
            foreign = [x for x in bases[:nroot] if ext[x] != ".m"]
            if foreign and r.chance(0.5):
                b = r.choice(foreign)
            if kind == "rel":
                pats.append(b + ext[b])
            elif kind == "abs":
                pats.append("{T}/root/%s%s" % (b, ext[b]))
            elif kind == "wild":
                pats.append(r.choice(wild))
            else:
                pats.append("zz.m")
        case["patterns"] = pats

    def rand_uris(dirname):
        if fam != "importuri":
            return []
        us = []
        for _ in range(r.weighted([(0, 2), (1, 4), (2, 4), (3, 2)])):
            kind = r.weighted([("name", 12), ("wild", 0 if is_sp(prov) else 2), ("missing", 1 if malformed else 0)])
            if kind == "name":
                foreign = [f for f in files if not f["path"].endswith(".m")]
                us.append(os.path.basename(r.choice(foreign if (foreign and r.chance(0.5)) else files)["path"]))
            elif kind == "wild":
                us.append(r.choice(wild))
            else:
                us.append("zz.m")
        return us
    for f in files:
        if not f["prim"]:
            f["uris"] = rand_uris(os.path.dirname(f["path"]))
    for f in files:
        f["text"] = text_of(case, f["base"], f["uris"], f["prim"], os.path.dirname(f["path"]), lang_of(case, f["path"]) if multi else 0)
    # operations (entry files are always *.m: they are loaded by the entry metamodel itself)
    entry_files = [f for f in files if f["path"].endswith(".m")]
    ops = []
    nfresh = 0
    for k in range(r.range(2, 5) if (case["grepo"] or case["builtin"]) else r.range(1, 3)):
        entry = r.weighted([("file", 6), ("strfn", 3), ("str", 3), ("repo", (6 if multi else 2) if (fam == "globalrepo" and not case["grepo"]) else 0)])
        if k == 0 and case["builtin"]:
            entry = "str"
        op = {"entry": entry, "is_str": True, "fn_keyword": r.chance(0.5)}
        if entry == "repo":
            pass
        elif entry == "file":
            if r.chance(0.08 if malformed else 0.02):
                op["path"] = "root/n%d.m" % nfresh
                nfresh += 1
            else:
                op["path"] = r.choice(entry_files)["path"]
        else:
            if entry == "strfn":
                if r.chance(0.5):
                    op["path"] = r.choice(entry_files)["path"]
                else:
                    op["path"] = "root/n%d.m" % nfresh
                    nfresh += 1
            dirname = os.path.dirname(op["path"]) if entry == "strfn" else None
            prim = fam == "none" and r.chance(0.15)
            uris = rand_uris(dirname) if (dirname is not None or r.chance(0.15)) else []
            if k == 0 and case["builtin"]:
                uris = []
            op["content"] = {"uris": uris, "prim": prim}
            base = stem(op["path"]) if entry == "strfn" else "z"   # same item name as the file it stands for
            op["text"] = text_of(case, base, uris, prim, dirname)
            if r.chance(0.12 if malformed else 0.02) and not (k == 0 and case["builtin"]):
                op["is_str"] = False
                op["notstr"] = {"v": r.choice([5, None, 1.5])}
        if entry == "repo":
            op["kwv"] = gen_kw(r, entry, declared + UNDECLARED[:2], fam, malformed)    # nothing is validated here
        elif k == 0 and case["builtin"]:
            op["kwv"] = [[n, r.below(len(VALS))] for n in r.sample(declared, min(len(declared), r.range(0, 2)))]
        else:
            op["kwv"] = gen_kw(r, entry, declared, fam, malformed)
        ops.append(op)
    case["ops"] = ops
    finalize(case)
    return case


def finalize(case):
    """Derive the runner's keyword specs and the path <-> file id table."""
    ids = {f["path"]: i for i, f in enumerate(case["files"])}
    for op in case["ops"]:
        if "path" in op and op["path"] not in ids:
            ids[op["path"]] = len(ids)
        sig = sig_for(op["entry"])
        kw = []
        for k, v in op["kwv"]:
            if k in sig and k in BENIGN:
                kw.append([k, {"v": BENIGN[k]}])
            elif v >= 100:
                kw.append([k, {"dir": DIRV[v]}])
            else:
                kw.append([k, {"v": VALS[v]}])
        op["kw"] = kw
    case["ids"] = ids


# ---------------------------------------------------------------- Coq encoding
def c_nats(xs):
    return "None" if xs is None else "(Some %s)" % core.coq_list(["%d%%nat" % x for x in xs])


def c_import(rec):
    return "{| i_plain := %s; i_rel := %s; i_rooted := %s |}" % (
        c_nats(rec["plain"]), core.coq_bool(rec["rel"]), core.coq_list(["(%d%%N, %s)" % (v, c_nats(x)) for v, x in rec["rooted"]]))


def c_file(case, dirname, uris, prim, lang=None):
    return "{| f_imports := %s; f_prim := %s; f_lang := %s |}" % (
        core.coq_list([c_import(x) for x in imports_of(case, dirname, uris)]), core.coq_bool(prim), "None" if lang is None else "(Some %d%%nat)" % lang)


def c_kw(kwv):
    return core.coq_list(["(%s, %d%%N)" % (core.coq_str(k), v) for k, v in kwv])


def coq_case(case):
    fam = family(case["prov"])
    w = core.coq_list([c_file(case, os.path.dirname(f["path"]), f["uris"], f["prim"], lang_of(case, f["path"])) for f in case["files"]])
    c = "{| c_prov := %s; c_grepo := %s |}" % ({"none": "PNone", "importuri": "PImportURI", "globalrepo": "PGlobalRepo"}[fam], core.coq_bool(case["grepo"]))
    ops = []
    for op in case["ops"]:
        if op["entry"] == "repo":
            e = "ERepo"
            content = c_file(case, None, [], False)
        elif op["entry"] == "file":
            e = "EFile %d" % case["ids"][op["path"]]
            content = "{| f_imports := []; f_prim := false; f_lang := None |}"
        else:
            e = "EStr" if op["entry"] == "str" else "EStrFn %d" % case["ids"][op["path"]]
            dirname = os.path.dirname(op["path"]) if op["entry"] == "strfn" else None
            content = c_file(case, dirname, op["content"]["uris"], op["content"]["prim"])
        ops.append("{| o_entry := %s; o_content := %s; o_is_str := %s; o_kw := %s |}" % (e, content, core.coq_bool(op["is_str"]), c_kw(op["kwv"])))
    return "show_run %s %s %s %s" % (w, c, core.coq_list([core.coq_str(a) for a in case["adds"]]), core.coq_list(ops))


IMPORTS = "From TxV Require Import Core.Base Core.Show Gen.SrcParams Model.Params.\nOpen Scope string_scope."


# ---------------------------------------------------------------- rendering of the implementation's outcome
def r_params(p):
    if p is None:
        return "none"
    return "{" + ",".join("%s=%s" % (core.canon_text(k), REPR2VID.get(v, "?" + v)) for k, v in p["items"]) + "}"


def r_desc(case, d):
    if d["prim"]:
        return "-/%s/Pnone@0" % d["op"]
    f = "-" if d["file"] is None else str(case["ids"].get(d["file"], "?" + d["file"]))
    return "%s/%s/%s@%s" % (f, d["op"], r_params(d["params"]), d.get("mm"))


def r_outcome(case, o):
    k = o["kind"]
    if k == "typeerror":
        return "T"
    if k == "rejected":
        return "R:" + core.canon_text(o["key"])
    if k == "notstr":
        return "S"
    if k == "err":
        cls = o["exc"].split(":")[0]
        if cls == "AttributeError" and "'NoneType' object has no attribute 'internal_model_from_file'" in o["exc"]:
            return "E:nomm"
        return "E:" + {"FileNotFoundError": "missing", "OSError": "missing", "AttributeError": "prim", "TypeError": "nofile"}.get(cls, cls)
    if k == "repo":
        return "G new[%s] repo[%s]" % (" ".join(r_desc(case, d) for d in o["new"]),
                                       " ".join("%s:%s" % (case["ids"].get(key, "?" + key), r_desc(case, d)) for key, d in o["repo"]))
    s = "L %s new[%s]" % (r_desc(case, o["result"]), " ".join(r_desc(case, d) for d in o["new"]))
    if o["repo"] is None:
        return s + " repo-"
    return s + " repo[%s]" % " ".join("%s:%s" % (case["ids"].get(key, "?" + key), r_desc(case, d)) for key, d in o["repo"])


def render(case, out):
    return " ; ".join(r_outcome(case, o) for o in out["ops"])


# ---------------------------------------------------------------- property oracle (independent of the Coq model)
def oracle(case, out):
    """The property, stated directly on what the implementation did.  Returns list of failure texts."""
    bad = []
    sig_s, sig_f = out["sig_str"], out["sig_file"]
    args_any = set(sig_s) | set(sig_f)
    declared = list(out["builtin"])
    for name, a in zip(case["adds"], out["adds"]):
        if a["ok"]:
            if name not in declared:
                declared.append(name)
        elif not (a["exc"] == "TextXError" and name in args_any):
            bad.append("model_param_defs.add(%r) raised %s: %s" % (name, a["exc"], a["msg"]))
    born = {}     # (op, file) -> params at creation, for models created by earlier loads
    for k, (op, o) in enumerate(zip(case["ops"], out["ops"])):
        sig = sig_f if op["entry"] == "file" else (out["sig_repo"] if op["entry"] == "repo" else sig_s)
        supplied = sig[:1] if op["entry"] == "repo" else (sig[:2] if op["entry"] in ("file", "str") else sig[:3])
        given = [(key, spec) for key, spec in op["kw"]]
        names = [key for key, _ in given]
        if any(n in supplied for n in names):
            continue                      # the call itself is ill-formed Python (TypeError); not a statement about parameters
        model_kw = [(key, spec) for key, spec in given if key not in sig]
        unknown = [key for key, _ in model_kw if key not in declared]
        where = "op %d (%s %s)" % (k, op["entry"], names)
        if op["entry"] == "repo":
            # load_models_in_model_repo: documented as unchecked; whatever it is given reaches every model it loads
            if o["kind"] in ("rejected", "typeerror"):
                bad.append(where + ": load_models_in_model_repo refused its keyword arguments: %s" % o.get("exc"))
            if o["kind"] == "repo":
                want = [[key, repr_of(spec)] for key, spec in model_kw]
                for d in o["new"]:
                    p = d["params"]
                    if not d["prim"] and (p is None or p["items"] != want or not p["is_mp"]):
                        bad.append(where + ": model of %s loaded by load_models_in_model_repo exposes %s, given %s" % (d["file"], None if p is None else p["items"], want))
                    born[(k, d["file"])] = p
                for fname, p in o["seen"]:
                    if p is None or p["items"] != want:
                        bad.append(where + ": at object-processor time the model of %s exposed %s, given %s" % (fname, None if p is None else p["items"], want))
            continue
        for key in names:
            if key in declared and key in sig:
                bad.append(where + ": declared parameter %r is bound to an explicit argument of the entry point and cannot reach the model" % key)
        if unknown:
            if o["kind"] != "rejected":
                bad.append(where + ": undeclared parameter %r was not rejected (outcome %s %s)" % (unknown[0], o["kind"], o.get("exc", "")))
            else:
                if o["key"] != unknown[0]:
                    bad.append(where + ": rejected naming %r, the first undeclared parameter is %r" % (o["key"], unknown[0]))
                want_src = "from_str" if op["entry"] != "file" else "{T}/" + op["path"]
                if o["source"] != want_src:
                    bad.append(where + ": error names source %r, expected %r" % (o["source"], want_src))
            continue
        if o["kind"] == "rejected" or o["kind"] == "typeerror":
            bad.append(where + ": all parameters are declared but the load was refused: %s" % o.get("exc"))
            continue
        if o["kind"] != "loaded":
            if expect_ok(case, op):
                bad.append(where + ": every parameter is declared and every file of the import closure exists, yet the load failed: %s" % o.get("exc"))
            continue
        want = [[key, repr_of(spec)] for key, spec in model_kw]
        for d in o["new"]:
            if d["prim"]:
                continue
            p = d["params"]
            if p is None or p["items"] != want or not p["is_mp"] or p["len"] != len(want):
                bad.append(where + ": model of %s created by this load exposes %s, given %s" % (d["file"], None if p is None else p["items"], want))
            born[(k, d["file"])] = p
        for fname, p in o["seen"]:
            if p is None or p["items"] != want:
                bad.append(where + ": at object-processor time the model of %s exposed %s, given %s" % (fname, None if p is None else p["items"], want))
        if len(o["seen"]) != len([d for d in o["new"] if not d["prim"]]):
            bad.append(where + ": %d models created but object processors saw %d" % (len(o["new"]), len(o["seen"])))
        if o["shared"] is False:
            bad.append(where + ": models of one load carry different ModelParams objects")
        olds = [o["result"]] + [d for _, d in (o["repo"] or [])] + ([o["builtin"]] if o.get("builtin") else [])
        for d in olds:
            if d["prim"] or d["op"] == k:
                continue
            if d["op"] is None:
                bad.append(where + ": model of %s was not created by any observed load" % d["file"])
            elif born.get((d["op"], d["file"])) != d["params"]:
                bad.append(where + ": model of %s created by op %s changed its parameters: %s -> %s" % (d["file"], d["op"], born.get((d["op"], d["file"])), d["params"]))
    return bad


def expect_ok(case, op):
    """True when nothing but the parameters could make this load fail: the entry file exists, the input is a
    string, every import pattern of every model of the closure denotes existing non-primitive files.  (A walk
    over the directory tree written independently of the Coq model; None = cannot tell.)"""
    fam = family(case["prov"])
    files = case["files"]
    byp = {f["path"]: i for i, f in enumerate(files)}
    if not op["is_str"]:
        return None
    if op["entry"] == "file":
        if op["path"] not in byp or files[byp[op["path"]]]["prim"]:
            return None
        start = [(os.path.dirname(op["path"]), files[byp[op["path"]]]["uris"])]
    else:
        if op["content"]["prim"]:
            return None
        if fam == "importuri" and op["entry"] == "str" and op["content"]["uris"]:
            return None
        start = [(os.path.dirname(op["path"]) if op["entry"] == "strfn" else None, op["content"]["uris"])]
    root = dict((k, v) for k, v in op["kwv"]).get("project_root")
    todo, done = list(start), set()
    while todo:
        dirname, uris = todo.pop()
        for rec in imports_of(case, dirname, uris):
            ids = rec["plain"]
            if rec["rel"] and root is not None:
                ids = dict((v, x) for v, x in rec["rooted"]).get(root)
            if ids is None:
                return None
            for i in ids:
                if files[i]["prim"]:
                    return None
                if i not in done:
                    done.add(i)
                    todo.append((os.path.dirname(files[i]["path"]), files[i]["uris"]))
    return True


def repr_of(spec):
    if "dir" in spec:
        return repr("{T}/" + spec["dir"])
    return repr(spec["v"])


# ---------------------------------------------------------------- corpus
def corpus_cases():
    d = os.path.join(core.VERIF, "corpus", "C27")
    cases = []
    if os.path.isdir(d):
        for f in sorted(os.listdir(d)):
            if f.endswith(".json"):
                c = json.load(open(os.path.join(d, f)))
                c.pop("note", None)
                fill_texts(c)
                finalize(c)
                cases.append(c)
    return cases


def fill_texts(case):
    """Corpus cases give the structure; the texts are derived exactly as for generated cases."""
    for f in case["files"]:
        if "text" not in f:
            f["text"] = text_of(case, f["base"], f["uris"], f["prim"], os.path.dirname(f["path"]), lang_of(case, f["path"]) if case.get("nlangs") else 0)
    for op in case["ops"]:
        if op["entry"] not in ("file", "repo") and "text" not in op:
            dirname = os.path.dirname(op["path"]) if op["entry"] == "strfn" else None
            base = stem(op["path"]) if op["entry"] == "strfn" else "z"
            op["text"] = text_of(case, base, op["content"]["uris"], op["content"]["prim"], dirname)


def strip(case):
    return {k: v for k, v in case.items() if k != "ids"}


def nontrivial(case, out):
    return any(o["kind"] == "rejected" or (o["kind"] in ("loaded", "repo") and (len(o["new"]) > 1 or any(d["params"] and d["params"]["items"] for d in o["new"])))
               for o in out["ops"])


def evaluate(chk, cases, tag):
    chunks = [cases[i::core.NPROC] for i in range(core.NPROC)]
    chunks = [c for c in chunks if c]
    outs = core.run_impl_parallel("c27", [{"cases": [strip(c) for c in ch]} for ch in chunks])
    res = {}
    for ch, o in zip(chunks, outs):
        for c, x in zip(ch, o):
            res[id(c)] = x
    vals, errs = core.coq_eval(tag, IMPORTS, [coq_case(c) for c in cases])
    disagreements, failures = [], []
    if errs:
        disagreements.append({"case": "coq evaluation", "model": errs[:2]})
    for c, mv in zip(cases, vals):
        o = res[id(c)]
        iv = render(c, o)
        if chk is not None:
            chk.count(json.dumps([c["prov"], c["grepo"], c["adds"], [f["text"] for f in c["files"]], c["patterns"],
                                  [[op["entry"], op.get("path"), op.get("text"), op["kwv"]] for op in c["ops"]]]), nontrivial=nontrivial(c, o))
            chk.stat("provider " + c["prov"] + ("+global" if c["grepo"] else ""))
            chk.stat("registered languages: %d" % (c.get("nlangs") or 0))
            if c.get("builtin"):
                chk.stat("scenarios with a builtin model")
            for oo in o["ops"]:
                if oo["kind"] == "loaded":
                    nf = len([d for d in oo["new"] if d.get("mm") not in (0, None)])
                    if nf:
                        chk.stat("loads creating models through a foreign metamodel")
                        undecl = [k for k, _ in (oo["new"][0]["params"] or {"items": []})["items"]]
                        if any(k != "project_root" and any(k not in (c["lang_adds"][d["mm"] - 1]) for d in oo["new"] if d.get("mm") not in (0, None)) for k in undecl):
                            chk.stat("... with a parameter the foreign metamodel does not declare")
            for op, oo in zip(c["ops"], o["ops"]):
                chk.stat("op %s -> %s" % (op["entry"], oo["kind"] if oo["kind"] != "err" else "err " + oo["exc"].split(":")[0]))
                if oo["kind"] == "loaded":
                    chk.stat("models created per load: %d" % min(len(oo["new"]), 4))
        if mv is None or mv != iv:
            disagreements.append({"case": strip(c), "impl": iv, "model": mv, "impl_raw": o["ops"]})
        for what in oracle(c, o)[:3]:
            failures.append({"case": strip(c), "impl": o, "model": mv, "what": what, "tags": []})
        if chk is not None and chk.cov["evaluations"] % 40 == 7:
            chk.sample({"provider": c["prov"], "global_repository": c["grepo"], "adds": c["adds"], "files": {f["path"]: f["text"] for f in c["files"]},
                        "ops": [[op["entry"], op.get("path"), op["kwv"]] for op in c["ops"]], "impl": iv})
    return failures, disagreements


def enum_cases():
    """thorough tier: every import graph on three files (each file imports any subset of {a, b, c}: 512 graphs),
    loaded through a.m with one parameter, alternating provider flavour and global repository."""
    cases = []
    bases = ["a", "b", "c"]
    for g in range(512):
        prov = ["importuri", "importuri_fqn", "rrel", "importuri_sp"][g % 4]
        case = {"prov": prov, "grepo": bool((g // 4) % 2), "dirs": ["root", "cwd", "lib"], "search_path": ["lib"] if is_sp(prov) else [],
                "patterns": [], "adds": ["p1"]}
        files = []
        for i, b in enumerate(bases):
            bits = (g >> (3 * i)) & 7
            files.append({"path": "root/%s.m" % b, "base": b, "uris": [bases[j] + ".m" for j in range(3) if bits >> j & 1], "prim": False})
        case["files"] = files
        case["ops"] = [{"entry": "file", "is_str": True, "fn_keyword": False, "path": "root/a.m", "kwv": [["p1", g % 7], ["project_root", 100]]},
                       {"entry": "file", "is_str": True, "fn_keyword": False, "path": "root/c.m", "kwv": [["p1", 6]]}]
        fill_texts(case)
        finalize(case)
        cases.append(case)
    return cases


def run(chk):
    chk.prove([params_tr.translate])
    n = 2200 if chk.thorough else 260
    cases = corpus_cases()
    if chk.thorough:
        cases += enum_cases()
    for i in range(n):
        r = chk.rng.split(i)
        cases.append(gen_case(r, i, malformed=(i % 4 == 3)))
    failures, disagreements = evaluate(chk, cases, "C27")
    chk.cov["rule"] = ("generated scenarios: one metamodel (provider none / PlainName- or FQNImportURI with glob or search path / RREL +m: / PlainName- or "
                       "FQNGlobalRepo, with or without a global repository on the metamodel), 0-4 model_param_defs.add calls (user names incl. 'source', "
                       "'kwargs', 'name'; in the malformed stream argument names of the entry points), a directory tree of 1-8 model files with import "
                       "cycles/diamonds/self-imports/glob patterns/search path, and 1-5 loads (model_from_file, model_from_str with and without file_name) "
                       "each with 0-4 keyword arguments (declared, undeclared, entry-point argument names; values incl. falsy ones; project_root "
                       "switching the GlobalRepo directory); every 4th scenario is from the malformed stream (missing files/imports, non-str input, more "
                       "undeclared/reserved names); non-trivial = some load is rejected or creates a model with parameters or several models; distinct by "
                       "(provider, declarations, file texts, operations)")
    chk.assumptions += ["translator params_tr.py (entry-point argument names, reserved names, built-in definitions; shape checks of check_params, the "
                        "kwargs callbacks and the six forwarding call sites)",
                        "the hand-written load model (Model/Params.v) is tied to the code by the correspondence run only; import patterns are resolved "
                        "against the directory tree by the harness (glob results sorted in the runner)",
                        "Python binds a keyword naming an explicit argument to that argument (modelled by bind_kwargs, validated by the correspondence)"]
    decide(chk, failures, disagreements)


def replay(rep):
    case = rep.get("case")
    if not isinstance(case, dict):
        print(json.dumps(rep, indent=1))
        return 0
    finalize(case)
    failures, disagreements = evaluate(None, [case], "C27r")
    out = core.run_impl("c27", {"cases": [strip(case)]})[0]
    print("implementation:", render(case, out))
    vals, errs = core.coq_eval("C27r", IMPORTS, [coq_case(case)])
    print("model:         ", vals[0] if vals else errs)
    for f in failures:
        print("property violated:", f["what"])
    return 1 if failures or disagreements else 0
