"""Shared machinery of C14/C15: scenario generator, compilation of a scenario to the operation
sequence of the Coq load machine (Model/UserCls.v), evaluation of the model, comparison with
the implementation runner (tools/impl/c14.py) and the property oracles."""
import json
from vt import core

SHAPES = ["plain", "slots", "frozen", "own", "getattr"]
CLASS_SETS = [["Item", "Sub"], ["Model", "Item", "Sub", "Ref"], ["Item"], ["Sub", "Ref"], ["Model", "Item", "Sub"], ["Item", "Sub", "Ref"], []]
PROVIDERS = [("importuri", 5), ("globalrepo", 3), ("fqn_globalrepo", 1)]
RES_FAIL = ["unknownx", "provboom", "postp"]


# ---------------------------------------------------------------- scenario generator
class Gen:
    def __init__(self, r, max_loads=3, provider="importuri"):
        self.r = r
        self.provider = provider
        self.libs = []
        self.n = 0
        self.loads = {}
        self.behav = {}
        self.max_loads = max_loads

    def fresh(self, p):
        self.n += 1
        return "%s%d" % (p, self.n)

    def action(self, depth, p_fail):
        """an action for a callback: None, 'boom' or a nested load"""
        r = self.r
        x = r.below(100)
        if x < p_fail:
            return "boom"
        if x < p_fail + 12 and depth < 2 and len(self.loads) < self.max_loads:
            lid = self.load(depth + 1, fail_bias=r.chance(0.5))
            return ["nest", lid, r.chance(0.5)]
        return None

    def file(self, lid, depth, idepth, budget, names, fail_bias):
        r = self.r
        f = {"name": "L%d_%s.m" % (lid, self.fresh("f")), "syntax_ok": not (fail_bias and r.chance(0.12)), "items": [], "imports": [], "refs": []}
        names.append(f)
        for _ in range(r.weighted([(1, 5), (2, 4), (3, 2)])):
            it = {"name": self.fresh("i"), "subs": []}
            for _ in range(r.weighted([(0, 3), (1, 4), (2, 2)])):
                s = {"name": self.fresh("s"), "hook": None}
                if r.chance(0.3):
                    h = self.fresh("h")
                    s["hook"] = h
                    a = self.action(depth, 8 if fail_bias else 0)
                    if a is not None:
                        self.behav["hook:" + h] = a
                it["subs"].append(s)
            a = self.action(depth, 7 if fail_bias else 0)
            if a is not None:
                self.behav["init:" + it["name"]] = a
            a = self.action(depth, 5 if fail_bias else 0)
            if a is not None:
                self.behav["proc:" + it["name"]] = a
            if fail_bias and r.chance(0.05):
                self.behav["mproc:" + it["name"]] = "boom"
            f["items"].append(it)
        if idepth < 2 and self.provider == "importuri":
            for _ in range(r.weighted([(0, 5), (1, 4), (2, 2)]) if budget[0] > 0 else 0):
                budget[0] -= 1
                if len(names) > 1 and r.chance(0.15):
                    f["imports"].append({"name": r.choice(names)["name"], "ref": True})     # diamond / cycle: already loaded in this load
                else:
                    f["imports"].append(self.file(lid, depth, idepth + 1, budget, names, fail_bias))
        return f

    def load(self, depth, fail_bias):
        r = self.r
        lid = len(self.loads)
        self.loads[str(lid)] = None
        names = []
        main = self.file(lid, depth, 0, [3], names, fail_bias)
        libitems = [it["name"] for lib in self.libs for it in lib["items"]]
        # references: to items of the files of this load (resolvable from every file through imports
        # only when imported; keep them local or to directly imported files), plus failing ones
        for f in names:
            vis = [it["name"] for it in f["items"]]
            for imp in f["imports"]:
                if not imp.get("ref"):
                    vis += [it["name"] for it in imp["items"]]
            vis += libitems      # models registered with a repository provider are visible everywhere
            for _ in range(r.below(3)):
                if vis:
                    f["refs"].append(r.choice(vis))
            if fail_bias and r.chance(0.12):
                f["refs"].insert(r.below(len(f["refs"]) + 1), r.choice(RES_FAIL))
        # a scope provider call that starts a complete further load (keyed by the referenced name,
        # so only for names referenced exactly once in this load)
        allrefs = [x for f in names for x in f["refs"]]
        for x in sorted(set(allrefs)):
            if x not in RES_FAIL and allrefs.count(x) == 1 and x not in libitems and r.chance(0.15):
                a = self.action(depth, 0)
                if a is not None:
                    self.behav["prov:" + x] = a
        # how the main model reaches textX: from its file, from a string with file_name=, or from a
        # bare string (no file name: registered under a generated key). A bare string cannot import.
        hows = [("file", 5), ("str_named", 2)]
        if not main["imports"]:
            hows.append(("str", 4 if self.provider != "importuri" else 2))
        self.loads[str(lid)] = {"main": main, "how": r.weighted(hows)}
        return lid

    def make_libs(self, fail_bias):
        """files registered with a repository provider: loaded along with every main model"""
        r = self.r
        for _ in range(r.weighted([(0, 1), (1, 4), (2, 3)])):
            lib = self.file(99, 2, 2, [0], [], fail_bias and r.chance(0.3))
            lib["name"] = "LIB_" + lib["name"]
            lib["refs"] = [r.choice([it["name"] for it in lib["items"]]) for _ in range(r.below(2))]
            self.libs.append(lib)


def gen_scenario(r, i):
    provider = r.weighted(PROVIDERS)
    g = Gen(r, provider=provider)
    if provider != "importuri":
        g.make_libs(r.chance(0.4))
    tops = []
    ntops = r.weighted([(1, 6), (2, 3), (3, 1)])
    for k in range(ntops):
        tops.append(g.load(0, fail_bias=r.chance(0.65)))
    classes, shape = r.choice(CLASS_SETS), r.choice(SHAPES)
    # ("Model" with __slots__ / frozen: the root object cannot take `_tx_parser`, so the first object
    # processor call fails in get_location - one more failure point, see Compiler.rootless)
    sc = {"classes": classes, "shape": shape, "global": False, "loads": g.loads, "behav": g.behav,
          "tops": tops, "gc_check": True, "next_check": r.chance(0.5), "provider": provider, "libs": g.libs}
    # a metamodel-global repository only without callback-started loads (they would share it)
    nested = any(isinstance(a, list) for a in g.behav.values())
    if not nested and r.chance(0.35 if provider == "importuri" else 0.6):
        sc["global"] = True
    elif nested and r.chance(0.12):
        # loads started from callbacks that SHARE the metamodel-global repository with the running
        # load: textX lets the inner load resolve, end or abort the outer load's models, the outer load
        # then usually dies of an internal error.  The machine does not describe that interference;
        # such scenarios are run for the property oracles only (C14/C15 must hold all the same)
        sc["global"] = True
        sc["oracle_only"] = True
    return sc


# ---------------------------------------------------------------- scenario -> operations
class Compiler:
    """mirrors the control flow of get_model_from_str / parse_tree_to_objgraph /
    _end_model_construction for the scripted grammar; emits the operations of the Coq machine and,
    per load, what the property expects (which objects exist, whether the load succeeds)."""

    def __init__(self, sc):
        self.sc = sc
        self.ops = []
        self.user = set(sc["classes"])
        self.loads_info = []      # per started load (context number order): dict(ok, objs)
        self.nobj = 0
        self.libs = sc.get("libs", []) if sc.get("provider", "importuri") != "importuri" else []
        self.repo_provider = sc.get("provider", "importuri") != "importuri"
        self.cached = set()       # files that stay in the metamodel-global repository (successful loads)
        # a user root-model class that cannot store `_tx_parser`: get_location raises at the first
        # object processor call of every load
        self.rootless = "Model" in self.user and sc["shape"] in ("slots", "frozen")

    def op(self, o):
        self.ops.append(o)

    def action(self, act):
        """returns False when the action raises into the caller"""
        if act is None:
            return True
        if act == "boom":
            return False
        _, lid, catch = act
        ok = self.load(lid)
        return ok or catch

    def alloc(self, info, cls):
        if cls in self.user:
            self.op("Alloc")
            info["objs"].append({"n": self.nobj, "cls": cls})
            self.nobj += 1
            return True
        return False

    def complete(self, is_user):
        if is_user:
            self.op("Complete")

    def build_file(self, f, main, info, loaded, files):
        """returns False if the load failed (the Fail/Begin-false operation has been emitted)"""
        b = self.sc["behav"]
        # a main model given as a bare string enters the metamodel-global repository only through a
        # repository provider with registered files (update_model_in_repo_based_on_filename)
        glob = bool(self.sc.get("global")) and not (self.cur_how == "str" and not (self.repo_provider and self.libs))
        self.op("Begin %s %s %s" % (core.coq_bool(main), core.coq_bool(glob), core.coq_bool(f["syntax_ok"])))
        if not f["syntax_ok"]:
            return False
        loaded[f["name"]] = f
        files.append(f)
        um = self.alloc(info, "Model")
        for it in f["items"]:
            ui = self.alloc(info, "Item")
            for s in it["subs"]:
                us = self.alloc(info, "Sub")
                if s.get("hook"):
                    if not self.action(b.get("hook:" + s["hook"])):
                        self.op("Fail")
                        return False
                self.complete(us)
            self.complete(ui)
        for _ in f["refs"]:
            ur = self.alloc(info, "Ref")
            self.complete(ur)
        self.complete(um)
        # models loaded by load_models of this model: its imports (import provider) or every
        # registered file not yet in the shared repository (repository providers; the first one
        # loads the next ones from its own load_models, which gives the same order)
        todo = f["imports"] if not self.repo_provider else self.libs
        for imp in todo:
            if imp.get("ref") or imp["name"] in loaded or imp["name"] in self.cached:
                continue        # already loaded by this load or cached in the shared repository
            if not self.build_file(imp, False, info, loaded, files):
                return False
        if not main and any(b.get("mproc:" + it["name"]) == "boom" for it in f["items"]):
            self.op("Fail")     # the model processor of an imported model raises inside the running load
            return False
        return True

    def load(self, lid):
        load = self.sc["loads"][str(lid)]
        b = self.sc["behav"]
        info = {"load": lid, "objs": [], "ok": False, "mproc": False, "how": load.get("how", "file")}
        self.loads_info.append(info)
        loaded, files = {}, []
        saved_how = getattr(self, "cur_how", None)
        self.cur_how = load.get("how", "file")
        ok = self.build_file(load["main"], True, info, loaded, files)
        self.cur_how = saved_how
        if not ok:
            return False
        # the resolution loop: models in repository order, references in text order; an unknown
        # object or a provider exception raises at once, a postponed reference after the others
        postponed = False
        for f in files:
            for x in f["refs"]:
                if x in ("unknownx", "provboom"):
                    self.op("Fail")
                    return False
                if x == "postp":
                    postponed = True
                    continue
                if not self.action(b.get("prov:" + x)):
                    self.op("Fail")
                    return False
        if postponed:
            self.op("Fail")
            return False
        self.op("ResolveOk")
        # _end_model_construction per model, repository order = load order
        for f in files:
            self.op("EndModel")
            for kind, name in self.init_order(f):
                if kind != "Item":
                    self.op("Init true")
                    continue
                act = b.get("init:" + name)
                if act == "boom":
                    self.op("Init false")
                    return False
                self.op("Init true")
                if not self.action(act):
                    self.op("Fail")
                    return False
        for f in files:
            for it in f["items"]:
                if self.rootless:
                    self.op("Fail")
                    return False
                act = b.get("proc:" + it["name"])
                if act == "boom":
                    self.op("Proc false")
                    return False
                self.op("Proc true")
                if not self.action(act):
                    self.op("Fail")
                    return False
        self.op("Finish")
        info["ok"] = True
        info["files"] = [f["name"] for f in files]
        info["registered"] = bool(self.sc.get("global")) and not (load.get("how", "file") == "str" and not (self.repo_provider and self.libs))
        # model processors run after get_model_from_str has returned (imported models first: their
        # internal_model_from_file returns first), the first failing one raises
        if any(b.get("mproc:" + it["name"]) == "boom" for it in load["main"]["items"]):
            # internal_model_from_file / model_from_str: the models loaded by this load leave the
            # repositories again (this happens after get_model_from_str, outside the Coq machine)
            info["mproc"] = True
            return False
        if self.sc.get("global"):
            self.cached.update(f["name"] for f in files)
        return True

    def init_order(self, f):
        """user objects of one model in completion order (children before parents)"""
        out = []
        for it in f["items"]:
            for s in it["subs"]:
                if "Sub" in self.user:
                    out.append(("Sub", s["name"]))
            if "Item" in self.user:
                out.append(("Item", it["name"]))
        for _ in f["refs"]:
            if "Ref" in self.user:
                out.append(("Ref", None))
        if "Model" in self.user:
            out.append(("Model", None))
        return out


def compile_scenario(sc):
    c = Compiler(sc)
    tops = []
    for lid in sc["tops"]:
        tops.append(c.load(lid))
    return c.ops, tops, c.loads_info


# ---------------------------------------------------------------- Coq side
IMPORTS = """From TxV Require Import Core.Base Core.Show Gen.SrcUserCls Model.UserCls.
Open Scope string_scope.
Definition n_setattr : list N := %s.
Definition n_delattr : list N := %s.
Definition n_getattribute : list N := %s.
Definition n_getattr : list N := %s.
Definition names4 := [n_setattr; n_delattr; n_getattribute; n_getattr].
Definition show_slot (x : slot) : string := match x with Absent => "-" | UserFn k => "u" ++ show_nat k | TxFn => "TX" end.
Definition show_ek (k : ekind) : string := match k with
  | KSyntax c => "S " ++ show_nat c
  | KAlloc c m o p => "A " ++ show_nat c ++ " " ++ show_nat m ++ " " ++ show_nat o ++ " " ++ show_opt show_nat p
  | KResolved c => "R " ++ show_nat c
  | KInit c o => "I " ++ show_nat c ++ " " ++ show_nat o
  | KProc c => "P " ++ show_nat c
  | KFail c => "F " ++ show_nat c
  | KFinish c => "E " ++ show_nat c end.
Definition show_ev (e : event) : string := show_ek (e_kind e) ++ " " ++ show_nat (e_count e) ++ " " ++ show_nat (e_store e).
Definition show_t (t : target) : string := match t with ToStorage => "S" | ToUser _ => "U" | ToBase => "B" end.
Definition probe (k : cls) (x : nat) : string :=
  show_t (acting_set k x) ++ show_t (acting_get k x true) ++ show_t (acting_get k x false) ++
  show_t (acting_del k x true) ++ show_t (acting_del k x false).
Definition probed (e : event) : bool := match e_kind e with KInit _ _ | KProc _ => true | _ => false end.
(* oldest first; objs = the objects allocated before the event *)
Fixpoint show_log (objs : list nat) (l : list event) : list string :=
  match l with
  | [] => []
  | e :: l' =>
      let objs' := match e_kind e with KAlloc _ _ o _ => (objs ++ [o])%%list | _ => objs end in
      (show_ev e ++ (if probed e then " " ++ sjoin "," (map (fun o => show_nat o ++ ":" ++ probe (e_cls e) o) objs') else ""))
      :: show_log objs' l'
  end.
Definition d_of (a b c d : slot) : list N -> slot := fun x =>
  if str_eqb x n_setattr then a else if str_eqb x n_delattr then b else if str_eqb x n_getattribute then c
  else if str_eqb x n_getattr then d else Absent.
Definition show_state (s : state) : string :=
  show_nat (k_count (s_cls s)) ++ "|" ++ show_nat (List.length (k_store (s_cls s))) ++ "|" ++
  sjoin "," (map (fun a => show_slot (k_dict (s_cls s) a)) names4) ++ "|" ++
  sjoin "," (map (fun a => show_opt show_slot (k_saved (s_cls s) a)) names4) ++ "|" ++
  show_nat (List.length (s_ctxs s)) ++ "|" ++ sjoin "," (map show_nat (s_repo s)) ++ "|" ++
  sjoin ";" (show_log [] (rev (s_log s))).
Definition go (d0 : list N -> slot) (ops : list op) : string := show_state (run replace_names restore_names (init d0) ops).
""" % tuple(core.coq_str(x) for x in ("setattr", "delattr", "getattribute", "getattr"))

# the class __dict__ entries of the generated class shapes: setattr, delattr, getattribute, getattr
SHAPE_SLOTS = {"plain": "Absent Absent Absent Absent", "slots": "Absent Absent Absent Absent",
               "frozen": "(UserFn 1) Absent Absent Absent", "own": "(UserFn 1) (UserFn 2) (UserFn 3) Absent",
               "getattr": "Absent Absent Absent (UserFn 4)"}
SHAPE_SHOW = {"plain": "-,-,-,-", "slots": "-,-,-,-", "frozen": "u1,-,-,-", "own": "u1,u2,u3,-", "getattr": "-,-,-,u4"}


def coq_expr(sc, ops):
    return "go (d_of %s) %s" % (SHAPE_SLOTS[sc["shape"]], core.coq_list(ops))


def parse_model(text, no_classes=False):
    """-> dict(count, store, dict, saved, nctx, repo, events) with ids renumbered: contexts and
    objects by first appearance, like the runner numbers them"""
    count, store, dct, saved, nctx, repo, log = text.split("|")
    omap, mmap = {}, {}
    events = []
    parents = {}
    entries = [x.split(" ") for x in log.split(";") if x]
    cmap = {c: i for i, c in enumerate(sorted({int(w[1]) for w in entries}))}
    probes = {}
    for w in entries:
        k = w[0]
        c = cmap[int(w[1])]
        base = {"A": 5, "I": 3, "S": 2, "R": 2, "P": 2, "F": 2, "E": 2}[k]
        cnt, st = (0, 0) if no_classes else (int(w[base]), int(w[base + 1]))
        if k in ("I", "P"):
            pr = {}
            for item in (w[base + 2] if len(w) > base + 2 else "").split(","):
                if item:
                    o, letters = item.split(":")
                    # set: exact; read / delete: the user's own method or not
                    pr[str(omap[o])] = letters[0] + "".join("U" if x == "U" else "N" for x in letters[1:])
            probes[str(len(events))] = pr
        if k == "A":
            m = mmap.setdefault(w[2], len(mmap))
            o = omap.setdefault(w[3], len(omap))
            parents[o] = None if w[4] == "None" else omap[w[4]]
            events.append(["A", c, o, cnt, st])
        elif k == "I":
            events.append(["I", c, omap[w[2]], cnt, st])
        elif k in ("P", "F", "E"):
            events.append([k, c, cnt, st])
        # S and R are not observable from outside
    if no_classes:
        count = store = "0"
    return {"count": int(count), "store": int(store), "dict": dct, "saved": saved, "nctx": int(nctx),
            "repo": [mmap.get(x, x) for x in repo.split(",") if x], "events": events, "parents": parents, "probes": probes}


def impl_events(obs):
    out = []
    for e in obs["events"]:
        k = e[0]
        if k == "A":
            out.append(["A", e[1], e[2], e[4], e[5]])
        elif k == "I":
            out.append(["I", e[1], e[2], e[3], e[4]])
        else:
            out.append([k, e[1], e[2], e[3]])
    return out


# ---------------------------------------------------------------- oracles
def oracle_c14(sc, obs, tops_ok, loads_info):
    """direct statement of C14 on the observation; returns list of (what, tags)"""
    bad = []
    for t in obs["tops"]:
        if t["dict_diff"]:
            bad.append(("after load %s (%s) the user classes differ from before: %s" % (t["load"], t["outcome"], "; ".join(t["dict_diff"][:4])),
                        ["restored"]))
    # every object initialised at most once; exactly once in a successful load; arguments
    inits = obs["inits"]
    evs = obs["events"]
    alloc_ctx, cls_of = {}, {}
    for e in evs:
        if e[0] == "A":
            alloc_ctx[e[2]] = e[1]
            cls_of[e[2]] = e[3]
    ctx_ok = {e[1]: e[0] == "E" for e in evs if e[0] in ("E", "F")}
    for n, c in alloc_ctx.items():
        k = len(inits.get(str(n), []))
        if k > 1:
            bad.append(("object %d (%s) initialised %d times" % (n, cls_of[n], k), ["init_once"]))
        if ctx_ok.get(c) and k != 1:
            bad.append(("object %d (%s) of the successful load %d initialised %d times" % (n, cls_of[n], c, k), ["init_once"]))
    for n, recs in inits.items():
        for rec in recs:
            want = set(obs["tx_attrs"][rec["cls"]])
            contained = rec["cls"] != "Model"
            if contained:
                want.add("parent")
            if set(rec["keys"]) != want:
                bad.append(("__init__ of object %s (%s) received %s, the rule's attributes%s are %s" % (
                    n, rec["cls"], rec["keys"], " plus parent" if contained else "", sorted(want)), ["init_args"]))
            if contained and rec["parent_is"] != {"Item": "Model", "Sub": "Item", "Ref": "Model"}[rec["cls"]]:
                bad.append(("__init__ of object %s (%s) received a parent of type %s" % (n, rec["cls"], rec["parent_is"]), ["init_args"]))
            if rec.get("target_resolved") is False:
                bad.append(("__init__ of Ref object %s received an unresolved reference" % n, ["init_resolved"]))
            if rec.get("subs_ok") is False:
                bad.append(("__init__ of Item object %s received foreign children" % n, ["init_args"]))
    # during loading an initialised object is handled by what its class defined itself
    want = {"own": "UUUUU", "frozen": "UNNNN"}.get(sc["shape"], "BNNNN")
    inited = set()
    for idx, e in enumerate(evs):
        if e[0] == "I":
            inited.add(e[2])
        pr = obs.get("probes", {}).get(str(idx))
        if pr:
            for o in sorted(inited, key=int):
                if str(o) in pr and pr[str(o)] != want:
                    bad.append(("during the load (event %d %r) attribute access on the initialised object %d is handled by %s, the class itself gives %s "
                                "(set/read/read missing/delete/delete missing: U = the class's own method, S = textX storage, B/N = inherited)" % (idx, e[:3], o, pr[str(o)], want),
                                ["own_accessors"]))
                    break
    # __init__ before any object processor of the same load
    seen_proc = set()
    for e in evs:
        if e[0] == "P":
            seen_proc.add(e[1])
        elif e[0] == "I" and e[1] in seen_proc:
            bad.append(("object %d initialised after an object processor of its load ran" % e[2], ["init_before_processors"]))
    return bad


def oracle_c15(sc, obs):
    bad = []
    failed_ctx = set(obs.get("raised_ctx", [])) | {e[1] for e in obs["events"] if e[0] == "F"}
    for t in obs["tops"]:
        if t["outcome"].startswith("raised") and t["outcome"] != "raised:MprocBoom":
            left = [d for d in t["dict_diff"]]
            if left:
                bad.append(("after the failed load %s: %s" % (t["load"], "; ".join(left[:4])), ["left_on_classes"]))
        # no repository reachable from the metamodel (any key: file name, anonymousN, builtin_model_N)
        # holds a model built by a load that failed
        kept = [[w, k] for w, k, cid in t.get("repo", []) if cid in failed_ctx]
        if kept:
            bad.append(("after load %s (%s) models built by failed loads stay registered: %s" % (t["load"], t["outcome"], kept[:4]), ["left_in_repo"]))
    if obs.get("alive"):
        bad.append(("after the failed load(s) %d user object(s) stay reachable (first: #%d, held by %s)" % (
            len(obs["alive"]), obs["alive"][0], obs.get("holders")), ["reachable"]))
    if obs.get("models_alive"):
        bad.append(("after the failed load(s) %d model object(s) stay reachable" % obs["models_alive"], ["reachable"]))
    if "next" in obs and not obs["next"]["same"]:
        bad.append(("the next load with the same metamodel differs from a fresh metamodel: %r vs %r" % (obs["next"]["got"], obs["next"]["want"]), ["next_load"]))
    if obs.get("next_dict_diff"):
        bad.append(("after the next load the classes differ: %s" % obs["next_dict_diff"][:3], ["next_load"]))
    return bad


def all_files_of_load(sc, lid):
    out = set()

    def walk(f):
        out.add(f["name"])
        for imp in f["imports"]:
            if not imp.get("ref"):
                walk(imp)
    walk(sc["loads"][str(lid)]["main"])
    return out


# ---------------------------------------------------------------- comparison
def compare(sc, obs, model, tops_ok, loads_info):
    """model/implementation disagreement text or None"""
    if "harness_error" in obs:
        return "runner failed: " + obs["harness_error"][-400:]
    if obs.get("problems"):
        return "runner problems: %r" % obs["problems"][:2]
    ie = impl_events(obs)
    if ie != model["events"]:
        for i, (a, b) in enumerate(zip(ie, model["events"])):
            if a != b:
                return "event %d differs: implementation %r, model %r" % (i, a, b)
        return "event logs differ in length: implementation %d, model %d (next: %r)" % (
            len(ie), len(model["events"]), (ie + model["events"])[min(len(ie), len(model["events"]))])
    # attribute access at every __init__ and object processor call, on every object allocated so far
    if sc["classes"]:
        for idx, pr in sorted(obs.get("probes", {}).items(), key=lambda x: int(x[0])):
            mp = model["probes"].get(idx)
            if mp != pr:
                o = next((o for o in pr if (mp or {}).get(o) != pr[o]), None)
                return "attribute access at event %s (%r): object %s is handled by %r in the implementation, %r in the model (set, read, read missing, delete, delete missing)" % (
                    idx, ie[int(idx)], o, pr.get(o), (mp or {}).get(o))
    outcomes = [t["outcome"] == "ok" for t in obs["tops"]]
    if outcomes != tops_ok:
        return "top-level outcomes differ: implementation %r, expected %r" % ([t["outcome"] for t in obs["tops"]], tops_ok)
    last = obs["tops"][-1]["snap"] if obs["tops"] else [0, 0]
    if [model["count"], model["store"]] != last:
        return "final class state differs: implementation count/store %r, model %r" % (last, [model["count"], model["store"]])
    # nearest enclosing user object, as recorded at __init__, against the model's object stack
    for n, recs in obs["inits"].items():
        for rec in recs:
            if model["parents"].get(int(n)) != rec["uparent"]:
                return "object %s: enclosing user object %r in the implementation, %r in the model" % (n, rec["uparent"], model["parents"].get(int(n)))
    if sc.get("global") and obs["tops"]:
        # the metamodel-global repository after the last load: the models of the successful loads.
        # (Coq machine s_repo) == (compiler's expectation) == (implementation), the last modulo the
        # generated keys: textX registers every model without file name as 'anonymous0'
        # (ModelRepository.has_model applies abspath to the generated key, so the numbering never
        # advances: a later string-loaded model replaces the earlier one, and when that later load
        # fails its cleanup removes the key, so 0..n generated keys may be left)
        keep = [i for i in loads_info if i["ok"] and not i.get("mproc") and i.get("registered")]
        want_files, n_anon = set(), 0
        for i in keep:
            names = list(i["files"])
            if i.get("how") == "str":
                names = names[1:]
                n_anon += 1
            want_files.update(names)
        n_expected = sum(len(i["files"]) for i in keep)
        n_model = len(model["repo"]) - sum(len(i["files"]) for i in loads_info if i.get("mproc") and i.get("registered"))
        if n_model != n_expected:
            return "metamodel repository: %d models in the Coq machine, %d expected from the scenario" % (n_model, n_expected)
        keys = [k for w, k, c in obs["tops"][-1].get("repo", []) if w == "all_models"]
        files = {k for k in keys if not k.startswith("anonymous")}
        anon = [k for k in keys if k.startswith("anonymous")]
        if files != want_files or len(anon) > n_anon:
            return "metamodel repository: implementation %r, expected files %r and at most %d generated key(s)" % (keys, sorted(want_files), n_anon)
    if model["nctx"] != 0:
        return "the model still has %d running load(s) at the end of the scenario" % model["nctx"]
    return None


def run_cases(chk, cases, tag):
    """runs implementation and model on the scenarios; returns list of (sc, obs, model, ops, tops_ok, info, disagreement)"""
    chunks = [cases[i::core.NPROC] for i in range(core.NPROC)]
    chunks = [c for c in chunks if c]
    outs = core.run_impl_parallel("c14", [{"scenarios": ch} for ch in chunks])
    obs = {}
    for ch, o in zip(chunks, outs):
        for c, x in zip(ch, o):
            obs[id(c)] = x
    comp = [compile_scenario(sc) for sc in cases]
    vals, errs = core.coq_eval(tag, IMPORTS, [coq_expr(sc, ops) for sc, (ops, _, _) in zip(cases, comp)], shard=60)
    res = []
    for sc, (ops, tops_ok, info), mv in zip(cases, comp, vals):
        o = obs[id(sc)]
        model = parse_model(mv, no_classes=not sc["classes"]) if mv is not None else None
        dis = None
        if model is not None and sc.get("oracle_only"):
            if "harness_error" in o:
                dis = "runner failed: " + o["harness_error"][-400:]
        elif model is not None:
            dis = compare(sc, o, model, tops_ok, info)
            if dis is None and (model["dict"] != SHAPE_SHOW[sc["shape"]] or model["saved"] != "None,None,None,None"):
                dis = "model ends with methods %s / saved %s" % (model["dict"], model["saved"])
        res.append((sc, o, model, ops, tops_ok, info, dis))
    return res, errs


def describe(sc):
    return {"classes": sc["classes"], "shape": sc["shape"], "global": sc["global"], "oracle_only": sc.get("oracle_only", False), "tops": sc["tops"], "loads": sc["loads"], "behav": sc["behav"],
            "provider": sc.get("provider", "importuri"), "libs": sc.get("libs", [])}


def scenario_stats(chk, sc, obs, tops_ok, info, ops):
    chk.stat("shape:" + sc["shape"])
    chk.stat("classes:" + "+".join(sc["classes"]))
    for t in obs.get("tops", []):
        chk.stat("outcome:" + t["outcome"])
    chk.stat("loads started:%d" % len(info))
    if sc["global"]:
        chk.stat("global repository")
    chk.stat("provider:" + sc.get("provider", "importuri"))
    if sc.get("oracle_only"):
        chk.stat("oracle only (callback-started load sharing the global repository)")
    for l in sc["loads"].values():
        chk.stat("main from:" + l.get("how", "file"))
    nfiles = sum(len(all_files_of_load(sc, l)) for l in sc["loads"])
    chk.stat("multi-file" if nfiles > len(sc["loads"]) else "single-file")
    for o in ops:
        if o in ("Fail", "Init false", "Proc false") or o.endswith("false") and o.startswith("Begin"):
            chk.stat("failure op:" + (o if not o.startswith("Begin") else "syntax error"))
