"""C07 — default reference resolution finds the unique matching object.

Cases are generated as abstract models (a class table with an inheritance graph, a containment tree
of named objects, a builtins dictionary, references with a target class) and rendered to a textX
grammar + model text for the implementation and to Coq terms for Model/Plain.v."""
import json
import os
from vt import core
from vt.main import decide
from translate import plain_tr, kinds_tr, nav_tr

POOL = ["a", "b", "c", "B", "ab", "ba"]
FQN_POOL = ["a.b", "b.a", "a.b.c"]
DANGLING = ["zz", "q", "A"]


# ------------------------------------------------------------------ generator
def gen_grammar(r):
    ncom = r.range(2, 4)
    commons = ["K%d" % i for i in range(ncom)]
    extra = (["Grp"] if r.chance(0.6) else []) + (["Odd"] if r.chance(0.4) else [])
    nabs = r.weighted([(0, 1), (1, 3), (2, 4), (3, 2)])
    abstracts = ["A%d" % j for j in range(nabs)]
    fqn = r.chance(0.35)
    item_alts = r.shuffle(commons + extra)
    item_paren = r.chance(0.45)
    abs_alts = {}
    for j, a in enumerate(abstracts):
        # first alternative: a plain reference to a class that is known to be non-match when the rule kinds are
        # determined, at least two alternatives (a rule whose body is one rule reference is an alias in textX) --
        # with that the documented _tx_inh_by (each referred class once, in order) is what the compiler builds
        alts = [("plain", r.choice(commons + extra + abstracts[:j]))]
        for _ in range(r.range(1, 2)):
            if r.chance(0.45):
                alts.append(("plain", r.choice(commons + extra + abstracts[:j])))
            else:
                alts.append(("paren", r.choice(commons + abstracts + abstracts + ["Item"])))
        abs_alts[a] = alts
    if r.chance(0.3):
        # `AL: K;` -- an alias-like abstract rule; never referred to by other rules
        abstracts = abstracts + ["AL"]
        abs_alts["AL"] = [("plain", r.choice(commons + extra))]
    targets = ["OBJECT", "Model", "Item"] + commons + extra + abstracts

    def pick_target():
        return r.weighted([(t, 1 if t in ("OBJECT", "Model") else 3 if t in abstracts else 2) for t in targets])
    shape = {}
    for k in commons:
        shape[k] = {"ref": pick_target() if r.chance(0.8) else None,
                    "refs": pick_target() if r.chance(0.7) else None,
                    "sub": r.chance(0.45), "kids": r.chance(0.65)}
    # user-supplied Python classes for some common rules, inheriting from each other (isinstance then holds for the
    # base class too although the grammar does not relate the rules): [name, base name or None], bases first
    user = []
    if r.chance(0.3):
        chain = r.sample(commons, r.range(2, min(3, len(commons))))
        user = [[chain[0], None]] + [[c, r.choice(chain[:i + 1])] for i, c in enumerate(chain[1:])]
    g = {"commons": commons, "extra": extra, "abstracts": abstracts, "fqn": fqn, "item_alts": item_alts, "user": user,
         "item_paren": item_paren, "abs_alts": abs_alts, "shape": shape, "uses": pick_target() if r.chance(0.6) else None,
         "root_named": r.chance(0.5), "odd_kids": r.chance(0.5)}
    return g


def grammar_text(g):
    nm = "FQN" if g["fqn"] else "ID"
    L = []
    root = "Model: " + ("('model' name=%s)? " % nm if g["root_named"] else "") + "items+=Item"
    if g["uses"]:
        root += " ('uses' uses+=[%s|%s])?" % (g["uses"], nm)
    L.append(root + ";")
    L.append("Item: " + " | ".join(g["item_alts"] + (["'(' Item ')'"] if g["item_paren"] else [])) + ";")
    for k in g["commons"]:
        s = g["shape"][k]
        t = "%s: '%s' name=%s" % (k, k.lower(), nm)
        if s["ref"]:
            t += " ('->' ref=[%s|%s])?" % (s["ref"], nm)
        if s["refs"]:
            t += " ('refs' '[' refs*=[%s|%s] ']')?" % (s["refs"], nm)
        if s["sub"]:
            t += " ('sub' '<' sub=Item '>')?"
        if s["kids"]:
            t += " ('{' kids*=Item '}')?"
        L.append(t + ";")
    if "Grp" in g["extra"]:
        L.append("Grp: 'grp' '{' kids*=Item '}';")
    if "Odd" in g["extra"]:
        L.append("Odd: 'odd' name=INT" + (" ('{' kids*=Item '}')?" if g["odd_kids"] else "") + ";")
    for a in g["abstracts"]:
        L.append("%s: " % a + " | ".join(x if kind == "plain" else "'(' %s ')'" % x for kind, x in g["abs_alts"][a]) + ";")
    if g["fqn"]:
        L.append("FQN: ID('.'ID)*;")
    return "\n".join(L) + "\n"


def class_table(g):
    """[(name, kind, inh names)] as textX is documented to build it: an abstract rule is inherited by the
    (non-match) rules its alternatives refer to, each once, in order of first occurrence."""
    def dedup(xs):
        out = []
        for x in xs:
            if x not in out:
                out.append(x)
        return out
    tbl = [("OBJECT", "object", []), ("Model", "common", []),
           ("Item", "abstract", dedup(g["item_alts"] + (["Item"] if g["item_paren"] else [])))]
    tbl += [(k, "common", []) for k in g["commons"] + g["extra"]]
    tbl += [(a, "abstract", dedup([x for _, x in g["abs_alts"][a]])) for a in g["abstracts"]]
    return tbl


def gen_tree(r, g, names):
    budget = [r.weighted([(1, 1), (2, 2), (3, 3), (4, 3), (6, 3), (8, 2), (11, 1)])]
    concrete = g["commons"] + g["extra"]

    def mk(depth):
        budget[0] -= 1
        c = r.weighted([(x, 1 if x in g["extra"] else 3) for x in concrete])
        n = {"cls": c, "ref": None, "refs": [], "sub": None, "kids": [], "paren": g["item_paren"] and r.chance(0.3)}
        if c == "Grp":
            n["name"] = None
            can_kids, can_sub = True, False
        elif c == "Odd":
            n["name"] = r.range(0, 9)
            can_kids, can_sub = g["odd_kids"], False
        else:
            n["name"] = r.choice(names)
            can_kids, can_sub = g["shape"][c]["kids"], g["shape"][c]["sub"]
        if depth < 3:
            if can_sub and budget[0] > 0 and r.chance(0.4):
                n["sub"] = mk(depth + 1)
            if can_kids:
                while budget[0] > 0 and r.chance(0.55):
                    n["kids"].append(mk(depth + 1))
        return n
    items = [mk(1)]
    while budget[0] > 0:
        items.append(mk(1))
    # an omitted optional name: '' for the base type ID (auto-initialised), None (never equal to a text) for a match rule
    root_name = None if not g["root_named"] else (r.choice(names) if r.chance(0.7) else (0 if g["fqn"] else ""))
    return {"cls": "Model", "name": root_name, "items": items, "uses": []}


def kids_of(n):
    if n["cls"] == "Model":
        return n["items"]
    return ([n["sub"]] if n["sub"] is not None else []) + n["kids"]


def preorder(n, path=()):
    yield path, n
    for i, k in enumerate(kids_of(n)):
        yield from preorder(k, path + (i,))


def reach(tbl):
    """declarative conformance: class c conforms to target t iff t is OBJECT or c is reachable from t
    over inheritance edges (least fixpoint; independent of the search order the code uses)."""
    inh = {n: set(i) for n, _, i in tbl}
    r = {n: {n} for n in inh}
    changed = True
    while changed:
        changed = False
        for n in inh:
            for d in list(r[n]):
                for e in inh[d]:
                    if e not in r[n]:
                        r[n].add(e)
                        changed = True
    return r


def pysup_of(g):
    """class name -> the other classes of the metamodel that are Python base classes of it (transitively)"""
    base = {n: b for n, b in g.get("user", [])}
    out = {}
    for n in base:
        xs, b = [], base[n]
        while b is not None:
            xs.append(b)
            b = base[b]
        out[n] = xs
    return out


def directs(case, cls, kind="same"):
    """the classes for which isinstance(obj, c) or the _tx_fqn comparison holds, for an object of class cls:
    an object of this metamodel passes for its class and the Python bases; an object of a second metamodel instance
    (built without the user classes) only for the class of the same fqn; any other object for none"""
    if kind == "same":
        return [cls] + case["pysup"].get(cls, [])
    if kind == "foreign":
        return [cls]
    return []


def conforms(R, ds, t):
    return t == "OBJECT" or any(d in R[t] for d in ds)


def verdicts(case):
    """The property statement applied to every reference of the abstract case on its own:
    ("ok", target) | ("unknown",) | ("notunique",)"""
    R = reach(case["table"])
    objs = list(preorder(case["tree"]))
    bmap = {e["key"]: e for e in (case["builtins"] or [])}
    out = []
    for rf in case["refs"]:
        cands = [p for p, o in objs if isinstance(o["name"], str) and o["name"] == rf["name"] and conforms(R, directs(case, o["cls"]), rf["target"])]
        if len(cands) == 1:
            out.append(("ok", "/" + "/".join(map(str, cands[0]))))
        elif len(cands) > 1:
            out.append(("notunique",))
        else:
            b = bmap.get(rf["name"])
            if b is not None and conforms(R, directs(case, b["cls"], b["kind"]), rf["target"]):
                out.append(("ok", "b:" + rf["name"]))
            else:
                out.append(("unknown",))
    return out


def expected(case):
    """load-level view (references are resolved in textual order): all targets, or the first failing reference"""
    out = []
    for i, v in enumerate(verdicts(case)):
        if v[0] != "ok":
            rf = case["refs"][i]
            return {"err": v[0], "index": i, "name": rf["name"], "target": rf["target"]}
        out.append(v[1])
    return {"ok": out}


def fill_refs(r, g, tree, names, builtins, table, wild):
    R = reach(table)
    case = {"pysup": pysup_of(g)}
    objs = list(preorder(tree))
    bmap = {e["key"]: e for e in (builtins or [])}
    allnames = sorted(set(names) | set(bmap))

    def good_names(t):
        res = []
        for n in allnames:
            k = sum(1 for _, o in objs if isinstance(o["name"], str) and o["name"] == n and conforms(R, directs(case, o["cls"]), t))
            b = bmap.get(n)
            if k == 1 or (k == 0 and b is not None and conforms(R, directs(case, b["cls"], b["kind"]), t)):
                res.append(n)
        return res

    def pick(t):
        if wild:
            return r.weighted([(r.choice(allnames), 8), (r.choice(DANGLING), 1)])
        gn = good_names(t)
        return r.choice(gn) if gn else None
    for _, o in objs:
        if o["cls"] in g["shape"]:
            s = g["shape"][o["cls"]]
            if s["ref"] and r.chance(0.6):
                o["ref"] = pick(s["ref"])
            if s["refs"] and r.chance(0.55):
                o["refs"] = [x for x in (pick(s["refs"]) for _ in range(r.range(0, 3))) if x is not None]
    if g["uses"] and r.chance(0.7):
        tree["uses"] = [x for x in (pick(g["uses"]) for _ in range(r.range(1, 3))) if x is not None]


def render(g, tree):
    """model text + the references in textual order with their 1-based (line, col)"""
    buf, refs = [], []
    state = {"off": 0, "bol": True}

    def tok(t, ref=None):
        if not state["bol"]:
            buf.append(" ")
            state["off"] += 1
        if ref is not None:
            refs.append({"name": t, "target": ref, "offset": state["off"]})
        buf.append(t)
        state["off"] += len(t)
        state["bol"] = False

    def nl(depth):
        buf.append("\n" + "  " * depth)
        state["off"] += 1 + 2 * depth
        state["bol"] = True

    def item(n, depth):
        nl(depth)
        if n["paren"]:
            tok("(")
        c = n["cls"]
        tok(c.lower())
        if c == "Grp":
            tok("{")
            for k in n["kids"]:
                item(k, depth + 1)
            tok("}")
        else:
            tok(str(n["name"]))
            if c != "Odd":
                s = g["shape"][c]
                if n["ref"] is not None:
                    tok("->")
                    tok(n["ref"], s["ref"])
                if n["refs"]:
                    tok("refs")
                    tok("[")
                    for x in n["refs"]:
                        tok(x, s["refs"])
                    tok("]")
                if n["sub"] is not None:
                    tok("sub")
                    tok("<")
                    item(n["sub"], depth + 1)
                    tok(">")
            if n["kids"]:
                tok("{")
                for k in n["kids"]:
                    item(k, depth + 1)
                tok("}")
        if n["paren"]:
            tok(")")
    if tree["name"] and isinstance(tree["name"], str):
        tok("model")
        tok(tree["name"])
    for it in tree["items"]:
        item(it, 0)
    if tree["uses"]:
        nl(0)
        tok("uses")
        for x in tree["uses"]:
            tok(x, g["uses"])
    text = "".join(buf) + "\n"
    for rf in refs:
        o = rf.pop("offset")
        assert text[o:o + len(rf["name"])] == rf["name"]
        rf["line"] = text.count("\n", 0, o) + 1
        rf["col"] = o - (text.rfind("\n", 0, o) + 1) + 1
    return text, refs


def lib_text(cls):
    if cls == "Grp":
        return "grp { }"
    if cls == "Odd":
        return "odd 1"
    if cls == "Model":
        return "k0 lib"
    return "%s lib" % cls.lower()


def gen_builtins(r, g, names):
    mode = r.weighted([("none", 3), ("empty", 1), ("some", 6)])
    if mode == "none":
        return None
    if mode == "empty":
        return []
    keys = r.sample(sorted(set(names + ["zz", "lib"])), r.range(1, 3))
    out = []
    for k in keys:
        kind = r.weighted([("same", 5), ("foreign", 2), ("plain", 2), ("other", 1)])
        e = {"key": k, "kind": kind, "cls": None}
        if kind in ("same", "foreign"):
            e["cls"] = r.weighted([(c, 3) for c in g["commons"]] + [(c, 1) for c in g["extra"]] + [("Model", 1)])
            e["text"] = lib_text(e["cls"])
        out.append(e)
    return out


def gen_case(r, wild=None):
    g = gen_grammar(r)
    names = r.sample(POOL + (FQN_POOL if g["fqn"] else []), r.range(2, 4))
    tree = gen_tree(r, g, names)
    table = class_table(g)
    builtins = gen_builtins(r, g, names)
    if wild is None:
        wild = r.chance(0.45)
    fill_refs(r, g, tree, names, builtins, table, wild)
    return finish_case(g, tree, builtins, "wild" if wild else "valid", other=r.chance(0.4))


def strip_refs(o):
    o = dict(o)
    for k in ("ref", "refs", "uses"):
        if k in o:
            o[k] = None if k == "ref" else []
    if o.get("sub") is not None:
        o["sub"] = strip_refs(o["sub"])
    for k in ("kids", "items"):
        if k in o:
            o[k] = [strip_refs(x) for x in o[k]]
    return o


def finish_case(g, tree, builtins, stream, other=False):
    table = class_table(g)
    text, refs = render(g, tree)
    case = {"g": g, "grammar": grammar_text(g), "table": table, "class_names": [n for n, _, _ in table],
            "tree": tree, "builtins": builtins, "text": text, "refs": refs, "stream": stream,
            "user": g.get("user", []), "pysup": pysup_of(g)}
    if other:
        # a second model of the same metamodel with the same objects (same names and classes) and no references,
        # loaded first and kept alive: were it searched, every resolvable name would become ambiguous
        case["other_text"] = render(g, strip_refs(tree))[0]
    return case


# ------------------------------------------------------------------ corpus (corpus/C07/*.json, run first)
def corpus_cases():
    """regression cases kept as abstract cases (grammar description, tree, builtins): the recursion witness of
    the fixed defect and the documented situations; rendered exactly like generated cases"""
    d = os.path.join(core.VERIF, "corpus", "C07")
    out = []
    for f in sorted(os.listdir(d)) if os.path.isdir(d) else []:
        if f.endswith(".json"):
            c = json.load(open(os.path.join(d, f)))
            out.append(finish_case(c["g"], c["tree"], c["builtins"], "corpus"))
    return out


# ------------------------------------------------------------------ Coq side
IMPORTS = """From TxV Require Import Core.Base Core.Show Model.PlainDefs Gen.SrcPlain Model.Plain.
From TxV Require Model.Kinds.
Open Scope string_scope.
Definition show_kinds (g : list Kinds.rule) (nu : nat) : string :=
  match Kinds.determine_types g with
  | None => "OOF"
  | Some s =>
      sjoin "" (map (fun x => match Kinds.types s x with Kinds.KMatch => "m" | Kinds.KAbstract => "a" | Kinds.KCommon => "c" end) (seq 0 nu))
      ++ "|" ++ sjoin ";" (map (fun x => sjoin "," (map show_nat (Kinds.inh s x))) (seq 0 nu))
  end.
Definition show_path (p : list nat) : string := "/" ++ sjoin "/" (map show_nat p).
Definition show_outcome (o : outcome) : string :=
  match o with Resolved p => show_path p | Builtin k => "b:" ++ show_str k | _ => "?" end.
Definition show_load (classes : list cls) (root : node) (b : builtins) (rs : list ref) : string :=
  "wf=" ++ show_bool (wf_classes classes) ++ "|" ++
  match load classes root b rs with
  | LoadOk ts => "OK|" ++ sjoin "," (map show_outcome ts)
  | LoadErr i e => let '(m, et) := error_text classes e in
                   "ERR|" ++ show_nat i ++ "|" ++ show_str m ++ "|" ++ show_opt show_str et
  end.
Definition show_case (classes : list cls) (root : node) (b : builtins) (rs : list ref) (g : list Kinds.rule) (nu : nat) : string :=
  show_load classes root b rs ++ "#K#" ++ show_kinds g nu."""


KBASE = ["ID", "STRING", "BOOL", "INT", "FLOAT", "STRICTFLOAT", "NUMBER", "BASETYPE"]
KBASE_BODY = {"NUMBER": ["STRICTFLOAT", "INT"], "BASETYPE": ["NUMBER", "FLOAT", "BOOL", "ID", "STRING"]}


def kinds_grammar(g):
    """the generated grammar in the form of C03's model (Model/Kinds.v): rules in grammar order, then the base types;
    rule i of that list is class i+1 of the C07 table (class 0 is OBJECT).  Returns (Coq term, number of classes)."""
    names = ["Model", "Item"] + g["commons"] + g["extra"] + g["abstracts"] + (["FQN"] if g["fqn"] else []) + KBASE
    idx = {n: i for i, n in enumerate(names)}
    common = "{| Kinds.r_attrs := true; Kinds.r_body := Kinds.Body Kinds.Term |}"

    def alt(kind, x):
        return "Kinds.Ref %d" % idx[x] if kind == "plain" else "Kinds.Seq [Kinds.Term; Kinds.Ref %d; Kinds.Term]" % idx[x]

    def body(alts):
        if len(alts) == 1 and alts[0][0] == "plain":          # a single rule reference: alias
            return "{| Kinds.r_attrs := false; Kinds.r_body := Kinds.Alias %d |}" % idx[alts[0][1]]
        e = alt(*alts[0]) if len(alts) == 1 else "Kinds.Choice [%s]" % "; ".join(alt(k, x) for k, x in alts)
        return "{| Kinds.r_attrs := false; Kinds.r_body := Kinds.Body (%s) |}" % e
    rules = [common, body([("plain", x) for x in g["item_alts"]] + ([("paren", "Item")] if g["item_paren"] else []))]
    rules += [common for _ in g["commons"] + g["extra"]]
    rules += [body([tuple(a) for a in g["abs_alts"][a]]) for a in g["abstracts"]]
    if g["fqn"]:
        rules.append("{| Kinds.r_attrs := false; Kinds.r_body := Kinds.Body (Kinds.Seq [Kinds.Ref %d; Kinds.Opt (Kinds.Seq [Kinds.Term; Kinds.Ref %d])]) |}" % (idx["ID"], idx["ID"]))
    for b in KBASE:
        e = "Kinds.Choice [%s]" % "; ".join("Kinds.Ref %d" % idx[x] for x in KBASE_BODY[b]) if b in KBASE_BODY else "Kinds.Term"
        rules.append("{| Kinds.r_attrs := false; Kinds.r_body := Kinds.Body (%s) |}" % e)
    nu = 2 + len(g["commons"]) + len(g["extra"]) + len(g["abstracts"])
    return "[%s]" % "; ".join(rules), nu


def kinds_expected(case):
    """what show_kinds must print for the class table handed to the model: kinds and inheritance lists of the classes
    after OBJECT, as rule indices of the Kinds grammar (class index - 1)"""
    idx = {n: i for i, (n, _, _) in enumerate(case["table"])}
    letter = {"common": "c", "abstract": "a", "match": "m"}
    rows = [(k, inh) for n, k, inh in case["table"] if n != "OBJECT"]
    return "".join(letter[k] for k, _ in rows) + "|" + ";".join(",".join(str(idx[x] - 1) for x in inh) for _, inh in rows)


def coq_case(case):
    idx = {n: i for i, (n, _, _) in enumerate(case["table"])}

    def nats(names):
        return core.coq_list(["%d%%nat" % idx[x] for x in names])
    classes = core.coq_list(["{| cname := %s; cinh := %s; cpy := %s |}" % (core.coq_str(n), nats(inh), nats(case["pysup"].get(n, [])))
                             for n, _, inh in case["table"]])

    def node(o):
        if o["name"] is None:
            nm = "NoName"
        elif isinstance(o["name"], str):
            nm = "(NameStr %s)" % core.coq_str(o["name"])
        else:
            nm = "NameOther"
        return "(Node %d%%nat %s %s)" % (idx[o["cls"]], nm, core.coq_list([node(k) for k in kids_of(o)]))
    b = core.coq_list(["(%s, (%s : list nat))" % (core.coq_str(e["key"]), nats(directs(case, e["cls"], e["kind"]))) for e in (case["builtins"] or [])])
    b = "(%s : builtins)" % b
    refs = "(%s : list ref)" % core.coq_list(["{| rname := %s; rcls := %d%%nat |}" % (core.coq_str(rf["name"]), idx[rf["target"]]) for rf in case["refs"]])
    kg, nu = kinds_grammar(case["g"])
    return "show_case %s %s %s %s %s %d%%nat" % (classes, node(case["tree"]), b, refs, kg, nu)


# ------------------------------------------------------------------ comparing
def impl_canon(case, o):
    """the implementation's outcome in the form show_load prints"""
    if "ok" in o:
        return "OK|" + ",".join(core.canon_text(x) for x in o["ok"])
    e = o["err"]
    idx = next((i for i, rf in enumerate(case["refs"]) if (rf["line"], rf["col"]) == (e["line"], e["col"])), None)
    return "ERR|%s|%s|%s" % ("?" if idx is None else idx, core.canon_text(e["message"] or ""),
                             "None" if e["err_type"] is None else core.canon_text(e["err_type"])) + ("" if e["cls"] == "TextXSemanticError" else "|" + e["cls"])


def tree_of_case(case):
    def d(o):
        if o["name"] is None:
            tag = ["noname"]
        elif isinstance(o["name"], str):
            tag = ["str", o["name"]]
        else:
            tag = ["other"]
        return [o["cls"], tag, [d(k) for k in kids_of(o)]]
    return d(case["tree"])


def harness_problem(case, o):
    """the implementation built something else than the generator intended: a defect of the harness or of the
    glue (grammar compilation, parsing), reported as a disagreement, never silently ignored"""
    if "harness" in o:
        return o["harness"]
    for n, kind, inh in case.get("intended_table", case["table"]):
        if n == "OBJECT":
            continue
        got = o["classes"].get(n)
        if got is None or got["type"] != kind or not _subsequence(got["inh"], inh):
            return "class %s: metamodel has %r, generator intended %r" % (n, got, (kind, inh))
        if got.get("py", []) != case["pysup"].get(n, []):
            return "class %s: Python bases among the metamodel classes are %r, generator intended %r" % (n, got.get("py"), case["pysup"].get(n, []))
    def strip(t):
        return [t[0], t[1][:1] if t[1][0] == "other" else t[1], [strip(k) for k in t[2]]]
    if "tree" in o and strip(o["tree"]) != tree_of_case(case):
        return "parsed containment tree differs from the generated one"
    return None


def inh_by_incomplete(intended_table):
    """classifier of C03's known finding inh-by-incomplete, restricted to the grammars generated here (their sequences
    are `'(' X ')'`, so the skippable-first clause never applies): a cycle through abstract rules in the reference graph.
    A dropped inheritance entry is accepted only inside this class."""
    kinds = {n: k for n, k, _ in intended_table}
    refs = {n: [x for x in inh if kinds.get(x) == "abstract"] for n, k, inh in intended_table if k == "abstract"}
    for a in refs:
        seen, todo = set(), list(refs[a])
        while todo:
            x = todo.pop()
            if x == a:
                return True
            if x not in seen:
                seen.add(x)
                todo += refs.get(x, [])
    return False


def _subsequence(xs, ys):
    it = iter(ys)
    return all(x in it for x in xs)


def adopt_metamodel_table(case, o):
    """The class table handed to the model and to the oracle is the one the metamodel really has (observed through
    _tx_type / _tx_inh_by).  It must have the generator's rule kinds and its inheritance lists must be the generator's,
    possibly with entries missing: the grammar compiler fills _tx_inh_by at the moment a rule first becomes abstract,
    so an edge to a rule whose kind is still undetermined in that pass (mutually recursive abstract rules) is dropped.
    That is the compiler's business (not C07's anchor); conformance is judged against the table that exists.
    Returns True when entries were dropped."""
    if "harness" in o or harness_problem(case, o):
        return False
    actual = [(n, k, inh if n == "OBJECT" else list(o["classes"][n]["inh"])) for n, k, inh in case["table"]]
    if [list(x) for x in actual] == [list(x) for x in case["table"]]:
        return False
    case["intended_table"] = case["table"]
    case["table"] = actual
    return True


def oracle(case, o):
    """the property, stated directly on the implementation's outcome; returns None or a description.
    When several references fail the property does not say whose error is reported: the error must be the
    documented failure of one of them, located at that reference."""
    if "harness" in o:
        return None
    vs = verdicts(case)
    failing = [i for i, v in enumerate(vs) if v[0] != "ok"]
    if not failing:
        want = [v[1] for v in vs]
        if "ok" not in o:
            return "every reference has a unique conforming object or a conforming builtin, but loading failed: %s" % json.dumps(o.get("err"))
        if o["ok"] != want:
            k = next((i for i, (a, b) in enumerate(zip(o["ok"], want)) if a != b), min(len(o["ok"]), len(want)))
            return "reference #%d resolved to %s, the property demands %s" % (k, o["ok"][k] if k < len(o["ok"]) else "<missing>",
                                                                             want[k] if k < len(want) else "<none>")
        return None
    first = failing[0]
    rf = case["refs"][first]
    if "err" not in o:
        return "reference #%d (%s of class %s) must fail with '%s', but the model loaded" % (first, rf["name"], rf["target"], vs[first][0])
    e = o["err"]
    if e["cls"] != "TextXSemanticError":
        return "reference #%d must fail with a TextXSemanticError (%s), got %s: %s" % (first, vs[first][0], e["cls"], e["message"])
    msg = e["message"] or ""

    def documented(i):
        r = case["refs"][i]
        if vs[i][0] == "unknown":
            return e["err_type"] == "Unknown object" and "Unknown object" in msg and '"%s"' % r["name"] in msg
        return "not unique" in msg and r["name"] in msg
    if any(documented(i) and (e["line"], e["col"]) == (case["refs"][i]["line"], case["refs"][i]["col"]) for i in failing):
        return None
    at = next((i for i, r in enumerate(case["refs"]) if (r["line"], r["col"]) == (e["line"], e["col"])), None)
    if at is None:
        who = next((i for i in failing if documented(i)), None)
        if who is not None:
            return "the error is reported at %s:%s, the failing reference #%d is at %s:%s" % (e["line"], e["col"], who, case["refs"][who]["line"], case["refs"][who]["col"])
        return "the error %r at %s:%s is not the failure of any reference (first failing: #%d %s, '%s')" % (msg, e["line"], e["col"], first, rf["name"], vs[first][0])
    r = case["refs"][at]
    if vs[at][0] == "ok":
        return "the error %r is reported for reference #%d (%s of class %s), which the property resolves to %s" % (msg, at, r["name"], r["target"], vs[at][1])
    if vs[at][0] == "unknown":
        return "reference #%d must fail with an 'Unknown object' error for \"%s\", got %r (err_type %r)" % (at, r["name"], msg, e["err_type"])
    return "reference #%d must fail with a 'not unique' error for %s, got %r" % (at, r["name"], msg)


def oracle_nomm(case, o):
    """PlainName(multi_metamodel_support=False) - not the default provider, no Coq model: oracle only.  The lookup goes
    through parser._instances (objects by exact class and name) along _tx_inh_by; the part of the property that does not
    depend on the variant is demanded: a reference whose target is not OBJECT resolves to SOME object of the model whose
    name is the reference text and whose class conforms when there is one (no uniqueness check in this variant), else
    to the conforming builtins entry, else loading fails with the 'Unknown object' error located at such a reference."""
    if "harness" in o:
        return None
    R = reach(case["table"])
    objs = list(preorder(case["tree"]))
    bmap = {e["key"]: e for e in (case["builtins"] or [])}
    vs = []
    for rf in case["refs"]:
        cands = [] if rf["target"] == "OBJECT" else ["/" + "/".join(map(str, p)) for p, ob in objs if isinstance(ob["name"], str) and ob["name"]
                                                     and ob["name"] == rf["name"] and conforms(R, [ob["cls"]], rf["target"])]
        b = bmap.get(rf["name"])
        if cands:
            vs.append(cands)
        elif b is not None and conforms(R, directs(case, b["cls"], b["kind"]), rf["target"]):
            vs.append(["b:" + rf["name"]])
        else:
            vs.append(None)
    failing = [i for i, v in enumerate(vs) if v is None]
    if "ok" in o:
        if failing:
            rf = case["refs"][failing[0]]
            return "[multi_metamodel_support=False] reference #%d (%s of class %s) has no candidate and no conforming builtin, but the model loaded" % (failing[0], rf["name"], rf["target"])
        if len(o["ok"]) != len(vs) or any(t not in v for t, v in zip(o["ok"], vs)):
            return "[multi_metamodel_support=False] resolved targets %r are not among the candidates %r" % (o["ok"], vs)
        return None
    e = o["err"]
    if e["cls"] != "TextXSemanticError":
        return "[multi_metamodel_support=False] loading must succeed or fail with a TextXSemanticError, got %s: %s" % (e["cls"], e["message"])
    if not failing:
        return "[multi_metamodel_support=False] every reference has a candidate or a conforming builtin, but loading failed: %r" % e["message"]
    ok = any(e["err_type"] == "Unknown object" and '"%s"' % case["refs"][i]["name"] in (e["message"] or "")
             and (e["line"], e["col"]) == (case["refs"][i]["line"], case["refs"][i]["col"]) for i in failing)
    return None if ok else "[multi_metamodel_support=False] the error %r at %s:%s is not the Unknown-object failure of a reference without candidate" % (e["message"], e["line"], e["col"])


def run_nomm(chk, cases, failures, disagreements):
    for c in cases:
        c["nomm"] = True
    chunks = [c for c in (cases[i::core.NPROC] for i in range(core.NPROC)) if c]
    outs = core.run_impl_parallel("c07", [{"cases": [{k: c[k] for k in ("grammar", "text", "builtins", "class_names", "user", "other_text", "nomm") if k in c} for c in ch]} for ch in chunks])
    for ch, out in zip(chunks, outs):
        for c, o in zip(ch, out):
            chk.stat("stream=multi_metamodel_support=False (oracle only)")
            hp = harness_problem(c, o)
            if hp:
                disagreements.append({"case": public(c), "impl": o, "model": None, "what": "harness/glue: " + hp})
                continue
            adopt_metamodel_table(c, o)
            chk.stat("nomm outcome=" + ("ok" if "ok" in o else o["err"]["cls"]))
            bad = oracle_nomm(c, o)
            if bad:
                failures.append({"case": public(c), "impl": o, "model": None, "what": bad, "tags": []})


def case_key(case):
    return json.dumps([case["table"], tree_of_case(case), [[e["key"], e["kind"], e["cls"]] for e in (case["builtins"] or [])] if case["builtins"] is not None else None,
                       [[rf["name"], rf["target"]] for rf in case["refs"]]], sort_keys=True)


def nontrivial(case):
    names = {o["name"] for _, o in preorder(case["tree"]) if isinstance(o["name"], str)} | {e["key"] for e in (case["builtins"] or [])}
    return any(rf["name"] in names for rf in case["refs"])


def public(case):
    return {k: case[k] for k in ("grammar", "text", "builtins", "refs", "table", "stream", "class_names", "tree", "g", "intended_table", "user", "pysup", "other_text", "nomm") if k in case}


def enumerated_cases():
    """thorough tier: every assignment of (class, name) to <= 3 top-level objects over 3 classes x 2 names (plus a
    nested fourth object), each with one reference per target in {K0, A0 (abstract, cyclic), A1, OBJECT}."""
    g = {"commons": ["K0", "K1", "K2"], "extra": [], "abstracts": ["A0", "A1"], "fqn": False, "item_alts": ["K0", "K1", "K2"],
         "item_paren": False, "abs_alts": {"A0": [("plain", "K0"), ("paren", "A1")], "A1": [("plain", "K1"), ("paren", "A0")]},
         "shape": {"K0": {"ref": "K0", "refs": "A0", "sub": False, "kids": True},
                   "K1": {"ref": "A1", "refs": "OBJECT", "sub": False, "kids": False},
                   "K2": {"ref": "A0", "refs": "Item", "sub": False, "kids": False}},
         "uses": None, "root_named": False, "odd_kids": False}
    opts = [(c, n) for c in ("K0", "K1", "K2") for n in ("a", "b")]
    bl = [None, [{"key": "a", "kind": "same", "cls": "K1", "text": "k1 lib"}]]
    out = []

    def n(cls, name):
        return {"cls": cls, "name": name, "ref": None, "refs": [], "sub": None, "kids": [], "paren": False}

    def rec(prefix):
        if prefix:
            for holder in ("K0", "K1", "K2"):
                for which in ("ref", "refs"):
                    for b in bl:
                        items = [n(c, nm) for c, nm in prefix]
                        h = n(holder, "h")
                        if which == "ref":
                            h["ref"] = "a"
                        else:
                            h["refs"] = ["a"]
                        if holder == "K0" and len(prefix) == 3:
                            h["kids"] = [items.pop()]
                        out.append(finish_case(g, {"cls": "Model", "name": None, "items": items + [h], "uses": []}, b, "enum"))
        if len(prefix) < 3:
            for o in opts:
                rec(prefix + [o])
    rec([])
    return out


# ------------------------------------------------------------------ the check
def run_cases(chk, cases, tag, failures, disagreements):
    chunks = [cases[i::core.NPROC] for i in range(core.NPROC)]
    chunks = [c for c in chunks if c]
    outs = core.run_impl_parallel("c07", [{"cases": [{k: c[k] for k in ("grammar", "text", "builtins", "class_names", "user", "other_text", "nomm") if k in c} for c in ch]} for ch in chunks])
    res = {}
    for ch, o in zip(chunks, outs):
        for c, x in zip(ch, o):
            res[id(c)] = x
    for c in cases:
        if adopt_metamodel_table(c, res[id(c)]):
            chk.stat("inheritance entry missing in the metamodel: C03 finding inh-by-incomplete (table taken from the metamodel)")
    vals, errs = core.coq_eval(tag, IMPORTS, [coq_case(c) for c in cases])
    if errs:
        disagreements.append({"case": "coq evaluation", "model": errs[:2]})
    for c, mv in zip(cases, vals):
        o = res[id(c)]
        kv = None
        if mv is not None and "#K#" in mv:
            mv, kv = mv.split("#K#", 1)
        chk.count(case_key(c), nontrivial=nontrivial(c))
        want = expected(c)
        chk.stat("stream=" + c["stream"])
        chk.stat("outcome=" + ("ok" if "ok" in want else want["err"]))
        if "ok" in want:
            chk.stat("refs resolved to model objects", sum(1 for x in want["ok"] if x.startswith("/")))
            chk.stat("refs resolved to builtins", sum(1 for x in want["ok"] if x.startswith("b:")))
        if _cyclic(c["table"]):
            chk.stat("cyclic inheritance graph")
        if c.get("other_text"):
            chk.stat("cases with another loaded model of the same metamodel holding the same names")
        if c["user"]:
            chk.stat("metamodels with user-supplied classes")
            plain = dict(c, pysup={})
            chk.stat("references whose verdict depends on Python inheritance", sum(1 for a, b in zip(verdicts(c), verdicts(plain)) if a != b))
        hp = harness_problem(c, o)
        if hp:
            disagreements.append({"case": public(c), "impl": o, "model": mv, "what": "harness/glue: " + hp})
        elif mv is not None:
            # bridge to C03's model, checked per case: the class table the model runs on (the metamodel's, cross-checked
            # above) is what Kinds.determine_types records for this grammar - also when an inheritance edge is dropped
            if kv != kinds_expected(c):
                disagreements.append({"case": public(c), "impl": kinds_expected(c), "model": kv,
                                      "what": "rule kinds / _tx_inh_by of the metamodel differ from Kinds.determine_types on the generated grammar"})
            if "intended_table" in c and not inh_by_incomplete(c["intended_table"]):
                disagreements.append({"case": public(c), "impl": o["classes"], "model": kv,
                                      "what": "the metamodel lacks an inheritance entry although the grammar is outside the class of C03's finding inh-by-incomplete"})
            if not mv.startswith("wf=T|"):
                disagreements.append({"case": public(c), "impl": o, "model": mv, "what": "class table not well-formed"})
            elif mv[len("wf=T|"):] != impl_canon(c, o):
                disagreements.append({"case": public(c), "impl": impl_canon(c, o), "model": mv, "impl_raw": o})
        bad = oracle(c, o)
        if bad:
            failures.append({"case": public(c), "impl": o, "model": mv, "what": bad, "tags": []})
        if chk.cov["evaluations"] % 97 == 5:
            chk.sample({"grammar": c["grammar"], "text": c["text"], "builtins": c["builtins"], "impl": o.get("ok", o.get("err")), "model": mv})


def _cyclic(table):
    R = reach(table)
    inh = {n: i for n, _, i in table}
    return any(n in R[d] for n in inh for d in inh[n])


def run(chk):
    chk.prove([plain_tr.translate, kinds_tr.translate, nav_tr.translate])
    failures, disagreements = [], []
    cases = corpus_cases()
    n = 1500 if chk.thorough else 330
    for i in range(n):
        cases.append(gen_case(chk.rng.split(i)))
    run_cases(chk, cases, "C07", failures, disagreements)
    # the other variant of the provider (lookup through parser._instances); metamodels without user classes
    nomm, j = [], 0
    while len(nomm) < (300 if chk.thorough else 70):
        c = gen_case(chk.rng.split("nomm%d" % j))
        j += 1
        if not c["user"]:
            nomm.append(c)
    run_nomm(chk, nomm, failures, disagreements)
    if chk.thorough:
        en = enumerated_cases()
        chk.stat("enumerated cases", len(en))
        run_cases(chk, en, "C07e", failures, disagreements)
    chk.cov["rule"] = ("generated metamodels (2-4 named common classes, optional unnamed and int-named classes, 0-3 abstract reference targets whose "
                       "alternatives may refer to themselves or each other behind a token, i.e. cyclic inheritance graphs, ID or dotted names) x containment trees of "
                       "1-11 objects with colliding names (same name across related/unrelated classes, nested, root) x builtins dictionaries (absent, empty, entries "
                       "of metamodel classes, of a second metamodel instance, foreign objects) x references in single, list and root attributes to common, abstract and "
                       "OBJECT targets; a mostly-valid stream (every reference resolvable) and a wild stream (dangling / ambiguous names); thorough adds every "
                       "(class,name) assignment to <=3 objects over 3 classes x 2 names for 6 reference sites x 2 builtins settings. non-trivial = some reference names an "
                       "existing object or builtins key; distinct by (class table, tree, builtins, references)")
    chk.assumptions += ["translator plain_tr.py (dispatch on the number of matches, selector conjuncts, message templates, err_type constant; shape of the builtins "
                        "fallback and of textx_isinstance is checked, fail closed)",
                        "get_children and the grammar compiler's _tx_inh_by computation are tied by correspondence only (class tables and parsed trees are compared with the generator's)",
                        "an object is contained at most once (parse results are trees), so get_children's collected_ids test never fires and is not modelled",
                        "user-supplied classes are modelled through the Python-base lists of the class table (cpy); the runner's dump of each class's MRO is compared with the generator's",
                        "bridges to Model/Kinds.v (C03) and Model/Nav.v (C05) import those models read-only; their ties to the source (kinds_tr.py, nav_tr.py and the C03/C05 correspondences) are theirs"]
    decide(chk, failures, disagreements)


def replay(rep):
    case = rep.get("case")
    if not isinstance(case, dict) or "grammar" not in case:
        print(json.dumps(rep, indent=1))
        return 0
    o = core.run_impl("c07", {"cases": [{k: case[k] for k in ("grammar", "text", "builtins", "class_names", "user", "other_text", "nomm") if k in case}]})[0]
    vals, errs = core.coq_eval("C07r", IMPORTS, [coq_case(case)])
    print("grammar:\n" + case["grammar"])
    print("model text:\n" + case["text"])
    print("builtins:", json.dumps(case["builtins"]))
    print("implementation:", json.dumps(o.get("ok", o.get("err", o))))
    print("model        :", vals[0], errs or "")
    print("demanded     :", json.dumps(expected(case)))
    bad = oracle_nomm(case, o) if case.get("nomm") else oracle(case, o)
    if case.get("nomm"):
        print("(provider variant multi_metamodel_support=False: oracle only; the model line above is the default provider's)")
    print("property verdict:", "VIOLATED: " + bad if bad else "holds")
    return 1 if bad else 0
