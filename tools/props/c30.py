"""C30 — the textx CLI reports outcomes and passes generator arguments faithfully."""
import json
import os
from vt import core
from vt.main import decide
from translate import cli_tr

NAMES = ["alpha", "my-flag", "a-b-c", "x_y", "out-dir2", "k", "dry-run"]
VALUES = ["v1", "'quoted'", '"dq"', "some-val", "a_b", "7", "'", "x'y"]
# languages: 0 = c30lang (*.c30x, items are 'item'), 1 = c30other (*.c30y, items are 'entry'), 2 = "any" (the --grammar language)
EXT = {0: ".c30x", 1: ".c30y", None: ".c30z"}
LANGNAMES = {0: ["c30lang", "C30Lang"], 1: ["c30other", "C30OTHER"]}
# file contents: text, and for every meta-model (language 0, language 1, --grammar g.tx, --grammar g.tx -i) None = valid or the error position
KINDS = {
    "v0": ("model a item x; item y;", {"0": None, "1": (1, 9), "g": None, "gi": None}),
    "v1": ("model a entry x;", {"0": (1, 9), "1": None, "g": (1, 9), "gi": (1, 9)}),
    "vu": ("MODEL a ITEM x;", {"0": (1, 1), "1": (1, 1), "g": (1, 1), "gi": None}),
    "b0": ("model a item x item y;", {"0": (1, 16), "1": (1, 9), "g": (1, 16), "gi": (1, 16)}),
    "b1": ("model a\nitem x;\n item ;", {"0": (3, 7), "1": (2, 1), "g": (3, 7), "gi": (3, 7)}),
    "b2": ("modle a", {"0": (1, 1), "1": (1, 1), "g": (1, 1), "gi": (1, 1)}),
}
GRAMMAR_TX = "Model: 'model' name=ID items*=Item; Item: 'item' name=ID ';';"


def norm(s):
    return s.replace("-", "_")


def gen_mode(r):
    m = r.weighted([("perfile", 6), ("language", 2), ("grammar", 2)])
    if m == "language":
        l = r.below(2)
        return {"m": m, "l": l, "spelled": r.choice(LANGNAMES[l])}
    if m == "grammar":
        return {"m": m, "ic": r.chance(0.5), "flag": r.choice(["-i", "--ignore-case"])}
    return {"m": m}


def mode_argv(mode):
    if mode["m"] == "language":
        return ["--language", mode["spelled"]]
    if mode["m"] == "grammar":
        return ["--grammar", "g.tx"] + ([mode["flag"]] if mode["ic"] else [])
    return []


def mmkey(mode, x):
    """Which meta-model parses file x: '0'/'1' (a registered language), 'g'/'gi' (--grammar), None (no language for the file)."""
    if mode["m"] == "language":
        return str(mode["l"])
    if mode["m"] == "grammar":
        return "gi" if mode["ic"] else "g"
    return None if x["lang"] is None else str(x["lang"])


def lang_of(mode, x):
    return 2 if mode["m"] == "grammar" else (mode["l"] if mode["m"] == "language" else x["lang"])


def err_of(mode, x):
    k = mmkey(mode, x)
    return None if k is None else KINDS[x["kind"]][1][k]


def gen_files(r, prefix, mode, pbad):
    nfiles = r.weighted([(1, 5), (2, 4), (3, 1)])
    files, info = {}, []
    for k in range(nfiles):
        lang = r.weighted([(0, 6), (1, 4), (None, 1)])
        name = "%s%d%s" % (prefix, k, EXT[lang])
        if r.chance(pbad):
            kind = r.choice(["b0", "b1", "b2", "vu", "v0", "v1"])
        else:   # mostly a content that is valid for the meta-model that will be used
            kind = {"0": "v0", "1": "v1", "g": "v0", "gi": r.choice(["v0", "vu"]), None: "v0"}[mmkey(mode, {"lang": lang})]
        files[name] = KINDS[kind][0]
        info.append({"name": name, "lang": lang, "kind": kind})
    if mode["m"] == "grammar":
        files["g.tx"] = GRAMMAR_TX
    return files, info


def gen_case(r, i):
    mode = gen_mode(r)
    files, info = gen_files(r, "m", mode, 0.15)
    toks = []
    nargs = r.weighted([(0, 2), (1, 4), (2, 4), (3, 2), (4, 1)])
    used = []
    for _ in range(nargs):
        n = r.choice(NAMES)
        used.append(n)
        if r.chance(0.5):
            toks.append(["--" + n])
        else:
            toks.append(["--" + n, r.choice(VALUES)])
    ftoks = [[x["name"]] for x in info]
    if r.chance(0.7):
        order = ftoks + toks          # the documented shape: files first, then custom arguments
    else:
        order = r.shuffle(ftoks + toks)
    argv_custom = [t for grp in order for t in grp]
    declared = {}
    for lang in (0, 1, 2):
        mode_d = r.weighted([("free", 4), ("exact", 3), ("subset", 2), ("extra_mandatory", 2), ("empty", 1), ("absent", 2 if lang < 2 else 5)])
        if mode_d == "free":
            declared[lang] = None
        elif mode_d == "absent":
            declared[lang] = "absent"
        elif mode_d == "empty":
            declared[lang] = []
        else:
            names = sorted({norm(n) for n in used}) or [norm(r.choice(NAMES))]
            if mode_d == "subset":
                names = names[:-1] if len(names) > 1 else names
            decl = [[n, r.chance(0.4)] for n in names]
            if mode_d == "extra_mandatory":
                decl.append(["needed", True])
            declared[lang] = decl
    argv = ["generate", "--target", "{TARGET}"] + mode_argv(mode)
    if r.chance(0.2):
        argv += ["--overwrite"]
    argv += argv_custom
    return {"kind": "generate", "argv": argv, "custom": argv_custom, "files": files, "info": info, "mode": mode,
            "declared": {str(k): v for k, v in declared.items()}}


def gen_check_case(r, i):
    mode = gen_mode(r)
    files, info = gen_files(r, "c", mode, 0.3)
    return {"kind": "check", "argv": ["check"] + mode_argv(mode) + [x["name"] for x in info], "files": files, "info": info, "mode": mode}


def doc_generate(case):
    """Documented behaviour, written independently of the Coq model (property oracle).
    Returns exit status, generator calls (file, language of the generator, language of the meta-model), custom
    arguments, and the file that stopped the run with the reason."""
    args = list(case["custom"])
    files, d = [], {}
    while args:
        m = args.pop(0)
        if m.startswith("--"):
            if not args or args[0].startswith("--"):
                d[norm(m[2:])] = True
            else:
                d[norm(m[2:])] = args.pop(0).strip("\"'")
        else:
            files.append(m)
    calls = []
    info = {x["name"]: x for x in case["info"]}
    mode, reg = case["mode"], dict(case["declared"], **{"3": "absent"})
    if not files:
        # only custom arguments: one call without a model, for the given language or "textx" (3)
        if not d or mode["m"] == "grammar":      # --grammar: the language is "any", which has no registered meta-model
            return 1, calls, d, ("", "nomodel")
        l = mode["l"] if mode["m"] == "language" else 3
        gl = l
        if reg[str(l)] == "absent":
            if mode["m"] == "perfile" and reg["2"] != "absent":
                gl = 2
            else:
                return 1, calls, d, ("", "nogenerator")
        decl = reg[str(gl)]
        if decl is not None:
            if any(m and n not in d for n, m in decl):
                return 1, calls, d, ("", "mandatory")
            if decl and any(k not in [n for n, _ in decl] for k in d):
                return 1, calls, d, ("", "undeclared")
        return 0, [("", gl, l)], d, None
    for f in files:
        x = info.get(f)
        if x is None:
            return 1, calls, d, (f, "missing")
        l = lang_of(mode, x)
        if l is None:
            return 1, calls, d, (f, "nolang")
        if err_of(mode, x) is not None:
            return 1, calls, d, (f, "syntax")
        gl = l
        if reg[str(l)] == "absent":
            if mode["m"] == "perfile" and reg["2"] != "absent":
                gl = 2
            else:
                return 1, calls, d, (f, "nogenerator")
        decl = reg[str(gl)]
        if decl is not None:
            if any(m and n not in d for n, m in decl):
                return 1, calls, d, (f, "mandatory")
            if decl and any(k not in [n for n, _ in decl] for k in d):
                return 1, calls, d, (f, "undeclared")
        calls.append((f, gl, l))
    return 0, calls, d, None


def coq_mode(mode):
    return {"perfile": "PerFile", "grammar": "FromGrammar"}.get(mode["m"]) or "(Explicit %d)" % mode["l"]


def coq_info(case):
    out = []
    for x in case["info"]:
        v = KINDS[x["kind"]][1]
        g = v["gi" if case["mode"].get("ic") else "g"] is None
        out.append("(%s, {| f_lang := %s; f_valid := fun l => match l with 0%%nat => %s | 1%%nat => %s | _ => %s end |})" % (
            core.coq_str(x["name"]), "None" if x["lang"] is None else "(Some %d%%nat)" % x["lang"],
            core.coq_bool(v["0"] is None), core.coq_bool(v["1"] is None), core.coq_bool(g)))
    return core.coq_list(out)


def coq_case(case):
    args = core.coq_list([core.coq_str(a) for a in case["custom"]])

    def decl(v):
        if v == "absent":
            return "None"
        if v is None:
            return "(Some None)"
        return "(Some (Some %s))" % core.coq_list(["{| pname := %s; pmandatory := %s |}" % (core.coq_str(n), core.coq_bool(m)) for n, m in v])
    d = "(fun l => match l with 0%%nat => %s | 1%%nat => %s | 2%%nat => %s | _ => None end)" % tuple(decl(case["declared"][k]) for k in "012")
    return "show_gen (generate_cmd %s %s %s %s)" % (args, coq_info(case), coq_mode(case["mode"]), d)


IMPORTS = """From TxV Require Import Core.Base Core.Show Gen.SrcCli Model.Cli.
Open Scope string_scope.
Definition show_aval (v : aval) : string := match v with ATrue => "True" | AStr s => "s:" ++ show_str s end.
Definition show_gen (r : nat * list (list N * nat * nat) * list (list N * aval)) : string :=
  let '(e, calls, d) := r in
  show_nat e ++ "|" ++ sjoin "," (map (fun c => show_str (fst (fst c)) ++ ":" ++ show_nat (snd (fst c)) ++ ":" ++ show_nat (snd c)) calls)
  ++ "|" ++ sjoin "," (map (fun kv => show_str (fst kv) ++ "=" ++ show_aval (snd kv)) d)."""


def canon(exit_code, calls, d):
    return "%d|%s|%s" % (exit_code, ",".join("%s:%d" % (core.canon_text(f), l) for f, l in calls),
                         ",".join("%s=%s" % (core.canon_text(k), "True" if v is True else "s:" + core.canon_text(v)) for k, v in d.items()))


def corpus_cases():
    out = []
    cdir = os.path.join(core.VERIF, "corpus", "C30")
    for fn in sorted(os.listdir(cdir)) if os.path.isdir(cdir) else []:
        j = json.load(open(os.path.join(cdir, fn)))
        j.pop("note", None)
        out.append(j)
    return out


def located(log, name, pos):
    loc = "%s:%d:%d:" % (name, pos[0], pos[1])
    return any(l.startswith("ERROR") and loc in l for l in log), loc


def run(chk):
    chk.prove([cli_tr.translate])
    n = 1500 if chk.thorough else 320
    cases = corpus_cases()      # corpus first
    for i in range(n):
        r = chk.rng.split(i)
        cases.append(gen_case(r, i) if i % 5 else gen_check_case(r, i))
    chunks = [cases[i::core.NPROC] for i in range(core.NPROC)]
    chunks = [c for c in chunks if c]
    outs = core.run_impl_parallel("c30", [{"cases": ch} for ch in chunks])
    res = {}
    for ch, o in zip(chunks, outs):
        for c, x in zip(ch, o):
            res[id(c)] = x
    gens = [c for c in cases if c["kind"] == "generate"]
    vals, errs = core.coq_eval("C30", IMPORTS, [coq_case(c) for c in gens])
    disagreements, failures = [], []
    if errs:
        disagreements.append({"case": "coq evaluation", "model": errs[:2]})
    for c, mv in zip(gens, vals):
        o = res[id(c)]
        # the runner tags calls with the language whose generator ran and the meta-model that was handed over
        impl_calls = [(x["model"] or "", x["lang"], x["mm"]) for x in o["calls"]]
        kw = o["calls"][0]["kwargs"] if o["calls"] else None
        e_doc, calls_doc, d_doc, stop = doc_generate(c)
        chk.count(json.dumps([c["custom"], c["declared"], c["mode"], [(x["lang"], x["kind"]) for x in c["info"]]]),
                  nontrivial=len(c["custom"]) > len(c["info"]) or len(c["info"]) > 1 or c["mode"]["m"] != "perfile")
        chk.stat("generate exit=%d" % o["exit"])
        chk.stat("generate mode=" + c["mode"]["m"])
        if stop:
            chk.stat("generate stopped by " + stop[1])
        if len({lang_of(c["mode"], x) for x in c["info"]}) > 1 and o["exit"] == 0:
            chk.stat("generate ok over files of several languages")
        # correspondence with the Coq model
        if mv is not None:
            m_exit, m_calls, m_d = mv.split("|")
            impl_s = "%d|%s" % (o["exit"], ",".join("%s:%d:%d" % (core.canon_text(f), gl, l) for f, gl, l in impl_calls))
            ok = impl_s == m_exit + "|" + m_calls
            if ok and kw is not None:
                ok = canon(0, [], kw).split("|")[2] == m_d
            if not ok or o["exc"]:
                disagreements.append({"case": c, "impl": o, "model": mv})
        # property oracle on the implementation
        bad = None
        if o["exc"]:
            bad = "unexpected exception " + o["exc"]
        elif o["exit"] != e_doc:
            bad = "exit status %d, documented %d" % (o["exit"], e_doc)
        elif [(f, gl) for f, gl, _ in impl_calls] != [(f, gl) for f, gl, _ in calls_doc]:
            bad = "generator calls (file, language of the generator) %r differ from the documented ones %r" % ([(f, gl) for f, gl, _ in impl_calls], [(f, gl) for f, gl, _ in calls_doc])
        elif impl_calls != calls_doc:
            bad = "meta-models handed to the generators differ from the documented ones: %r vs %r" % (impl_calls, calls_doc)
        elif any(x["kwargs"] != d_doc for x in o["calls"]):
            bad = "custom arguments passed differ from the documented ones: %r vs %r" % (o["calls"][0]["kwargs"], d_doc)
        elif any(x["overwrite"] != ("--overwrite" in c["argv"]) for x in o["calls"]):
            bad = "--overwrite is not passed through"
        elif stop and stop[1] == "syntax":
            x = [i for i in c["info"] if i["name"] == stop[0]][0]
            found, loc = located(o["log"], stop[0], err_of(c["mode"], x))
            if not found:
                bad = "no located error message (%s) in %r" % (loc, o["log"])
        elif o["exit"] == 1 and not any(l.startswith("ERROR") for l in o["log"]):
            bad = "exit status 1 without an error message"
        if bad:
            failures.append({"case": c, "impl": o, "model": mv, "what": bad, "tags": []})
        if chk.cov["evaluations"] % 60 == 3:
            chk.sample({"argv": c["argv"], "declared": c["declared"], "impl": {"exit": o["exit"], "calls": o["calls"]}})
    # check command
    checks = [c for c in cases if c["kind"] == "check"]
    cvals, cerrs = core.coq_eval("C30c", IMPORTS, ["show_nat (check_cmd %s %s %s)" % (coq_mode(c["mode"]), coq_info(c), core.coq_list([core.coq_str(x["name"]) for x in c["info"]]))
                                                   for c in checks])
    if cerrs:
        disagreements.append({"case": "coq evaluation (check)", "model": cerrs[:2]})
    for c, mv in zip(checks, cvals):
        o = res[id(c)]
        chk.count(json.dumps([c["argv"], [(x["lang"], x["kind"]) for x in c["info"]]]), nontrivial=True)
        chk.stat("check exit=%d" % o["exit"])
        chk.stat("check mode=" + c["mode"]["m"])
        if mv is None or str(o["exit"]) != mv or o["exc"]:
            disagreements.append({"case": c, "impl": o, "model": mv})
        first_bad = next((x for x in c["info"] if lang_of(c["mode"], x) is None or err_of(c["mode"], x) is not None), None)
        want = 1 if first_bad else 0
        bad = None
        if o["exc"]:
            bad = "unexpected exception " + o["exc"]
        elif o["exit"] != want:
            bad = "check exit %d, documented %d" % (o["exit"], want)
        elif first_bad and lang_of(c["mode"], first_bad) is not None:
            found, loc = located(o["log"], first_bad["name"], err_of(c["mode"], first_bad))
            if not found:
                bad = "no located error message (%s) in %r" % (loc, o["log"])
        elif first_bad and not any(l.startswith("ERROR") and first_bad["name"] in l for l in o["log"]):
            bad = "no error message naming %s in %r" % (first_bad["name"], o["log"])
        elif not first_bad and [l for l in o["log"] if l.endswith(": OK.")] != [l for l in o["log"] if l.endswith(": OK.")][:len(c["info"])] or \
                (not first_bad and len([l for l in o["log"] if l.endswith(": OK.")]) != len(c["info"])):
            bad = "not every file is reported OK: %r" % o["log"]
        if bad:
            failures.append({"case": c, "impl": o, "what": bad, "tags": []})
    chk.cov["rule"] = ("random `textx generate` command lines (1-3 model files of two registered languages with different grammars or of no language, contents valid for "
                       "one/the other/only case-insensitively/none; language deduced per file, or --language NAME (any spelling), or --grammar g.tx with/without "
                       "-i/--ignore-case; 0-4 custom --name arguments with/without dashes, valued/bare, files-first or shuffled; per-language generators (and one for "
                       "'any') absent, free-form or with declared mandatory/optional parameters) and `textx check` runs with the same options, through click's CliRunner on "
                       "the real command group; non-trivial = a custom argument, several files or an explicit language/grammar (generate) / any (check); "
                       "distinct by (arguments, declarations, options, file languages and contents)")
    chk.assumptions += ["translator cli_tr.py; click passes unknown options through in order (validated end-to-end by the correspondence)",
                        "a generator registered with an empty parameter list is treated as free-form (as the code does)",
                        "which files parse with which meta-model (f_valid) and which language a file name belongs to (f_lang) are inputs of the model, computed by the harness from "
                        "the fixed test grammars; language and generator registries are the real ones, filled per case"]
    decide(chk, failures, disagreements)
