"""C30 — the textx CLI reports outcomes and passes generator arguments faithfully."""
import json
from vt import core
from vt.main import decide
from translate import cli_tr

NAMES = ["alpha", "my-flag", "a-b-c", "x_y", "out-dir2", "k", "dry-run"]
VALUES = ["v1", "'quoted'", '"dq"', "some-val", "a_b", "7", "'", "x'y"]
VALID = "model a item x; item y;"
INVALID = ["model a item x item y;", "model a\nitem x;\n item ;", "modle a"]
ERRPOS = [(1, 16), (3, 7), (1, 1)]
EXT = {0: ".c30x", 1: ".c30y"}


def norm(s):
    return s.replace("-", "_")


def gen_case(r, i):
    nfiles = r.weighted([(1, 6), (2, 3), (3, 1)])
    files, info = {}, []
    for k in range(nfiles):
        lang = 0 if r.chance(0.7) else 1
        name = "m%d%s" % (k, EXT[lang])
        bad = r.chance(0.15)
        j = r.below(len(INVALID))
        files[name] = INVALID[j] if bad else VALID
        info.append({"name": name, "valid": not bad, "lang": lang, "err": ERRPOS[j] if bad else None})
    toks = []
    nargs = r.weighted([(0, 2), (1, 4), (2, 4), (3, 2), (4, 1)])
    used = []
    for _ in range(nargs):
        n = r.choice(NAMES)
        used.append(n)
        if r.chance(0.5):
            toks.append(["--" + n])
        else:
            toks.append(["--" + n, r.choice(VALUES)])
    ftoks = [[f] for f in files]
    if r.chance(0.7):
        order = ftoks + toks          # the documented shape: files first, then custom arguments
    else:
        order = r.shuffle(ftoks + toks)
    argv_custom = [t for grp in order for t in grp]
    declared = {}
    for lang in (0, 1):
        mode = r.weighted([("free", 4), ("exact", 3), ("subset", 2), ("extra_mandatory", 2), ("empty", 1)])
        if mode == "free":
            declared[lang] = None
        elif mode == "empty":
            declared[lang] = []
        else:
            names = sorted({norm(n) for n in used}) or [norm(r.choice(NAMES))]
            if mode == "subset":
                names = names[:-1] if len(names) > 1 else names
            decl = [[n, r.chance(0.4)] for n in names]
            if mode == "extra_mandatory":
                decl.append(["needed", True])
            declared[lang] = decl
    argv = ["generate", "--target", "{TARGET}"]
    if r.chance(0.2):
        argv += ["--overwrite"]
    argv += argv_custom
    return {"kind": "generate", "argv": argv, "custom": argv_custom, "files": files, "info": info,
            "declared": {str(k): v for k, v in declared.items()}}


def gen_check_case(r, i):
    nfiles = r.range(1, 3)
    files, info = {}, []
    for k in range(nfiles):
        lang = 0 if r.chance(0.7) else 1
        name = "c%d%s" % (k, EXT[lang])
        bad = r.chance(0.3)
        j = r.below(len(INVALID))
        files[name] = INVALID[j] if bad else VALID
        info.append({"name": name, "valid": not bad, "lang": lang, "err": ERRPOS[j] if bad else None})
    return {"kind": "check", "argv": ["check"] + list(files), "files": files, "info": info}


def doc_generate(case):
    """Documented behaviour, written independently of the Coq model (property oracle)."""
    args = list(case["custom"])
    files, d = [], {}
    while args:
        m = args.pop(0)
        if m.startswith("--"):
            if not args or args[0].startswith("--"):
                d[norm(m[2:])] = True
            else:
                d[norm(m[2:])] = args.pop(0).strip("\"'")
        else:
            files.append(m)
    calls = []
    if not files:
        return 1, calls, d
    info = {x["name"]: x for x in case["info"]}
    for f in files:
        x = info.get(f)
        if x is None or not x["valid"]:
            return 1, calls, d
        decl = case["declared"][str(x["lang"])]
        if decl is not None:
            if any(m and n not in d for n, m in decl):
                return 1, calls, d
            if decl and any(k not in [n for n, _ in decl] for k in d):
                return 1, calls, d
        calls.append((f, x["lang"]))
    return 0, calls, d


def coq_case(case):
    args = core.coq_list([core.coq_str(a) for a in case["custom"]])
    info = core.coq_list(["(%s, (%s, %d%%nat))" % (core.coq_str(x["name"]), core.coq_bool(x["valid"]), x["lang"]) for x in case["info"]])

    def decl(v):
        if v is None:
            return "None"
        return "(Some %s)" % core.coq_list(["{| pname := %s; pmandatory := %s |}" % (core.coq_str(n), core.coq_bool(m)) for n, m in v])
    d = "(fun l => match l with 0%%nat => %s | _ => %s end)" % (decl(case["declared"]["0"]), decl(case["declared"]["1"]))
    return "show_gen (generate %s %s %s)" % (args, info, d)


IMPORTS = """From TxV Require Import Core.Base Core.Show Gen.SrcCli Model.Cli.
Open Scope string_scope.
Definition show_aval (v : aval) : string := match v with ATrue => "True" | AStr s => "s:" ++ show_str s end.
Definition show_gen (r : nat * list (list N * nat) * list (list N * aval)) : string :=
  let '(e, calls, d) := r in
  show_nat e ++ "|" ++ sjoin "," (map (fun c => show_str (fst c) ++ ":" ++ show_nat (snd c)) calls)
  ++ "|" ++ sjoin "," (map (fun kv => show_str (fst kv) ++ "=" ++ show_aval (snd kv)) d)."""


def canon(exit_code, calls, d):
    return "%d|%s|%s" % (exit_code, ",".join("%s:%d" % (core.canon_text(f), l) for f, l in calls),
                         ",".join("%s=%s" % (core.canon_text(k), "True" if v is True else "s:" + core.canon_text(v)) for k, v in d.items()))


def run(chk):
    chk.prove([cli_tr.translate])
    n = 1500 if chk.thorough else 320
    cases = []
    # corpus first
    cases.append({"kind": "generate", "argv": ["generate", "--target", "{TARGET}", "m0.c30x", "--my-flag"], "custom": ["m0.c30x", "--my-flag"],
                  "files": {"m0.c30x": VALID}, "info": [{"name": "m0.c30x", "valid": True, "lang": 0, "err": None}], "declared": {"0": None, "1": None}})
    cases.append({"kind": "generate", "argv": ["generate", "--target", "{TARGET}", "m0.c30x", "m1.c30y", "--p", "1"], "custom": ["m0.c30x", "m1.c30y", "--p", "1"],
                  "files": {"m0.c30x": VALID, "m1.c30y": VALID},
                  "info": [{"name": "m0.c30x", "valid": True, "lang": 0, "err": None}, {"name": "m1.c30y", "valid": True, "lang": 1, "err": None}],
                  "declared": {"0": None, "1": [["p", True], ["needed", True]]}})
    for i in range(n):
        r = chk.rng.split(i)
        cases.append(gen_case(r, i) if i % 5 else gen_check_case(r, i))
    chunks = [cases[i::core.NPROC] for i in range(core.NPROC)]
    chunks = [c for c in chunks if c]
    outs = core.run_impl_parallel("c30", [{"cases": ch} for ch in chunks])
    res = {}
    for ch, o in zip(chunks, outs):
        for c, x in zip(ch, o):
            res[id(c)] = x
    gens = [c for c in cases if c["kind"] == "generate"]
    vals, errs = core.coq_eval("C30", IMPORTS, [coq_case(c) for c in gens])
    disagreements, failures = [], []
    if errs:
        disagreements.append({"case": "coq evaluation", "model": errs[:2]})
    for c, mv in zip(gens, vals):
        o = res[id(c)]
        impl_calls = [(x["model"], c["info"][[i["name"] for i in c["info"]].index(x["model"])]["lang"] if x["gen"].endswith(str(0)) or True else 0) for x in o["calls"]]
        # generator identity: the runner tags calls with the language whose generator ran
        impl_calls = [(x["model"], x["lang"]) for x in o["calls"]]
        kw = o["calls"][0]["kwargs"] if o["calls"] else None
        e_doc, calls_doc, d_doc = doc_generate(c)
        chk.count(json.dumps([c["custom"], c["declared"], [x["valid"] for x in c["info"]]]), nontrivial=len(c["custom"]) > len(c["files"]))
        chk.stat("generate exit=%d" % o["exit"])
        # correspondence with the Coq model
        if mv is not None:
            m_exit, m_calls, m_d = mv.split("|")
            impl_s = "%d|%s" % (o["exit"], ",".join("%s:%d" % (core.canon_text(f), l) for f, l in impl_calls))
            ok = impl_s == m_exit + "|" + m_calls
            if ok and kw is not None:
                ok = canon(0, [], kw).split("|")[2] == m_d
            if not ok or o["exc"]:
                disagreements.append({"case": c, "impl": o, "model": mv})
        # property oracle on the implementation
        bad = None
        if o["exc"]:
            bad = "unexpected exception " + o["exc"]
        elif o["exit"] != e_doc:
            bad = "exit status %d, documented %d" % (o["exit"], e_doc)
        elif impl_calls != calls_doc:
            bad = "generator calls differ from the documented ones"
        elif any(x["kwargs"] != d_doc for x in o["calls"]):
            bad = "custom arguments passed differ from the documented ones: %r vs %r" % (o["calls"][0]["kwargs"], d_doc)
        if bad:
            tags = []
            failures.append({"case": c, "impl": o, "model": mv, "what": bad, "tags": tags})
        if chk.cov["evaluations"] % 60 == 3:
            chk.sample({"argv": c["argv"], "declared": c["declared"], "impl": {"exit": o["exit"], "calls": o["calls"]}})
    # check command
    checks = [c for c in cases if c["kind"] == "check"]
    cvals, cerrs = core.coq_eval("C30c", IMPORTS, ["show_nat (check_exit %s)" % core.coq_list([core.coq_bool(x["valid"]) for x in c["info"]]) for c in checks])
    for c, mv in zip(checks, cvals):
        o = res[id(c)]
        chk.count(json.dumps([c["argv"], [x["valid"] for x in c["info"]]]), nontrivial=True)
        chk.stat("check exit=%d" % o["exit"])
        if mv is None or str(o["exit"]) != mv or o["exc"]:
            disagreements.append({"case": c, "impl": o, "model": mv})
        first_bad = next((x for x in c["info"] if not x["valid"]), None)
        want = 1 if first_bad else 0
        bad = None
        if o["exc"]:
            bad = "unexpected exception " + o["exc"]
        elif o["exit"] != want:
            bad = "check exit %d, documented %d" % (o["exit"], want)
        elif first_bad:
            loc = "%s:%d:%d:" % (first_bad["name"], first_bad["err"][0], first_bad["err"][1])
            if not any(l.startswith("ERROR") and loc in l for l in o["log"]):
                bad = "no located error message (%s) in %r" % (loc, o["log"])
        if bad:
            failures.append({"case": c, "impl": o, "what": bad, "tags": []})
    chk.cov["rule"] = ("random `textx generate` command lines (1-3 model files of two registered languages, valid/invalid, 0-4 custom --name arguments with/without "
                       "dashes, valued/bare, files-first or shuffled; per-language generators free-form or with declared mandatory/optional parameters) and "
                       "`textx check` runs, through click's CliRunner on the real command group; non-trivial = at least one custom argument (generate) / any (check); "
                       "distinct by (arguments, declarations, validity)")
    chk.assumptions += ["translator cli_tr.py; click passes unknown options through in order (validated end-to-end by the correspondence)",
                        "a generator registered with an empty parameter list is treated as free-form (as the code does)"]
    decide(chk, failures, disagreements)
