"""Shared machinery of the C01 / C06 checks: case generation, the implementation run
(tools/impl/c01.py), evaluation of the Coq model (Model/Peg.v + Model/Build.v on the dumped parser
model and metamodel) and the comparison of the two.

The Coq side prints symbolic values (rule name + text for base-type conversions); `eval_sym`
evaluates them with Python's int/float/str (mirror of metamodel.py:300-316) and produces the same
JSON shape as the runner's dump of the real model.
"""
import ast
import json

from vt import core
import peggen
import pegdump
import mmdump

IMPORTS = ("From TxV Require Import Core.Base Core.Show Model.PegSyntax Model.Peg Model.PegShow Model.Build.\n"
           "Open Scope string_scope.")
FUEL = 120

# regexes with exactly one group (use_regexp_group); appended to the shared generator's table at run time
_EXTRA_RX = [(r"<(\w+)>", ["<ab>", "<x>"]), (r"(\d+)%", ["5%", "12%"]), (r"#(x)?", ["#x", "#"])]
for _e in _EXTRA_RX:
    if _e not in peggen.REGEXES:
        peggen.REGEXES.append(_e)


# ---------------------------------------------------------------- symbolic values -> python -> json shape
def _s(codes):
    return "".join(chr(c) for c in codes)


def _proc(rule, x):
    if rule == "BOOL":
        return x == "1" or x.lower() == "true"
    if rule == "INT":
        return int(x)
    if rule in ("FLOAT", "STRICTFLOAT"):
        return float(x)
    if rule == "STRING":
        return x[1:-1].replace('\\"', '"') if x[0] == '"' else x[1:-1].replace("\\'", "'")
    return x


_PYTYPE = {"ID": str, "BOOL": bool, "INT": int, "FLOAT": float, "STRICTFLOAT": float, "STRING": str,
           "NUMBER": float, "BASETYPE": str}


class Obj:
    def __init__(self, cls, pos, end, line, col, nchar, attrs):
        self.cls, self.pos, self.end, self.line, self.col, self.nchar, self.attrs = cls, pos, end, line, col, nchar, attrs

    def __str__(self):
        return "<obj>"


class Ref:
    """pending non-containment reference (name, position, class)"""
    def __init__(self, name, pos, cls):
        self.name, self.pos, self.cls = name, pos, cls


def eval_sym(t):
    k = t[0]
    if k == "none":
        return None
    if k == "bool":
        return bool(t[1])
    if k == "default":
        return _PYTYPE[_s(t[1])]()
    if k == "str":
        return _s(t[1])
    if k == "term":
        return _proc(_s(t[1]), _s(t[2]))
    if k == "join":
        return _proc(_s(t[1]), "".join(str(eval_sym(p)) for p in t[2]))
    if k == "conv":
        return _proc(_s(t[1]), eval_sym(t[2]))
    if k == "list":
        return [eval_sym(x) for x in t[1]]
    if k == "ref":
        return Ref(eval_sym(t[1]), t[2], _s(t[3]))
    if k == "obj":
        return Obj(_s(t[1]), t[2], t[3], t[4], t[5], t[6], [(_s(a), eval_sym(v)) for a, v in t[7]])
    raise ValueError(k)


def to_shape(v, file_name=None):
    """python value (with Obj) -> the runner's JSON shape, without the implementation-only fields"""
    if v is None:
        return None
    if isinstance(v, bool):
        return {"b": v}
    if isinstance(v, int):
        return {"i": v}
    if isinstance(v, float):
        return {"f": repr(v)}
    if isinstance(v, str):
        return {"s": v}
    if isinstance(v, list):
        return {"l": [to_shape(x, file_name) for x in v]}
    if isinstance(v, Ref):
        return {"ref": to_shape(v.name), "refpos": v.pos, "refcls": v.cls}
    return {"cls": v.cls, "pos": v.pos, "end": v.end, "loc": [v.line, v.col, v.nchar, file_name],
            "attrs": [[a, to_shape(x, file_name)] for a, x in v.attrs]}


def strip_impl(v):
    """drop the implementation-only fields (extra, parent_ok) of the runner's dump"""
    if isinstance(v, dict):
        if "cls" in v:
            return {"cls": v["cls"], "pos": v["pos"], "end": v["end"], "loc": v["loc"],
                    "attrs": [[a, strip_impl(x)] for a, x in v["attrs"]]}
        if "l" in v:
            return {"l": [strip_impl(x) for x in v["l"]]}
    return v


def shape_agree(m, i):
    """model value vs implementation value; a pending reference of the model agrees with a resolved target whose
    name is the referenced name (resolution itself is C07-C11's subject)"""
    if isinstance(m, dict) and "ref" in m:
        return isinstance(i, dict) and "refto" in i and m["ref"] == {"s": i["refto"]["name"]}
    if isinstance(m, dict) and "cls" in m:
        return (isinstance(i, dict) and "cls" in i and all(m[k] == i[k] for k in ("cls", "pos", "end", "loc"))
                and len(m["attrs"]) == len(i["attrs"])
                and all(a == b and shape_agree(x, y) for (a, x), (b, y) in zip(m["attrs"], i["attrs"])))
    if isinstance(m, dict) and "l" in m:
        return (isinstance(i, dict) and "l" in i and len(m["l"]) == len(i["l"])
                and all(shape_agree(x, y) for x, y in zip(m["l"], i["l"])))
    return m == i


def has_ref(m):
    if isinstance(m, dict):
        if "ref" in m:
            return True
        if "cls" in m:
            return any(has_ref(x) for _, x in m["attrs"])
        if "l" in m:
            return any(has_ref(x) for x in m["l"])
    return False


def model_outcome(mv, file_name=None):
    """Coq show_build string -> comparable outcome"""
    t = ast.literal_eval(mv)
    if t[0] == "ok":
        try:
            return {"ok": True, "value": to_shape(eval_sym(t[1]), file_name)}
        except Exception as e:   # conversion failed in the checker's evaluation
            return {"ok": False, "err": "eval:" + type(e).__name__}
    if t[0] == "err":
        return {"ok": False, "err": t[1]}
    if t[0] == "syntax":
        return {"ok": False, "err": "syntax", "pos": t[1]}
    return {"ok": False, "err": "abort%d" % t[1]}


def outcomes_agree(m, i):
    """model outcome vs implementation outcome (runner's `load`)"""
    if m["ok"] and not i["ok"] and i["err"] == "TextXSemanticError" and has_ref(m["value"]):
        return True      # an unresolvable reference: resolution is not modelled here
    if m["ok"] or i["ok"]:
        return m["ok"] and i["ok"] and shape_agree(m["value"], strip_impl(i["value"]))
    if m["err"] == "syntax":
        return i["err"] == "syntax" and i["pos"] == m["pos"]
    if m["err"] == "sem":
        return i["err"] == "TextXSemanticError"
    if m["err"] == "crash" or m["err"] == "abort1":
        return i["err"].startswith("crash:") and i["err"] != "crash:RecursionError"
    if m["err"] == "abort0":
        return i["err"] == "crash:RecursionError"
    return False


# ---------------------------------------------------------------- cases
CORPUS = [
    {"grammar": "Model: 'm' items+=Item[','] ';' tail=Tail?; Item: name=ID '=' v=Val; Val: INT | STRING | ID; Tail: 'end' flag?='!' n=INT;\n",
     "opts": {}, "inputs": ["m a=1, b = 'x' ,c=d ; end ! 3", " m a=1;", "m a=1 ;end 0", "m ;", "m a=1, ;"], "tag": "corpus-basic"},
    {"grammar": "Model: as+=A; A: 'k'- name=ID;\n", "opts": {}, "inputs": [" k foo  k bar ", "k a"], "tag": "corpus-suppressed-first"},
    {"grammar": "Model: as+=A; A: name=ID 'k'-;\n", "opts": {}, "inputs": [" foo k  bar k "], "tag": "corpus-suppressed-last"},
    {"grammar": "Model: a=A ',' b=B; A: xs+=X[',']; X: 'x'; B: 'b';\n", "opts": {}, "inputs": ["x , x , b", "x,b"], "tag": "corpus-trailing-sep"},
    {"grammar": "Model: as+=A; A: name=ID '';\n", "opts": {}, "inputs": [" foo  bar "], "tag": "corpus-empty-literal"},
    {"grammar": "Model: xs+=sep; sep: 'x'|'y';\n", "opts": {}, "inputs": ["x y x", "x"], "tag": "corpus-rule-named-sep"},
    {"grammar": "Model: xs+=sep[',']; sep: v=ID;\n", "opts": {}, "inputs": ["x, y", "x"], "tag": "corpus-rule-named-sep2"},
    {"grammar": "Model: x=INT x=INT y=FLOAT y=FLOAT;\n", "opts": {}, "inputs": ["0 5 0.0 1.5", "1 5 0 1", "0 0 0e3 7"], "tag": "corpus-multi-assign"},
    {"grammar": "Model: name+=ID[','] | n=INT;\n", "opts": {}, "inputs": ["a, b", "3"], "tag": "corpus-name-list"},
    {"grammar": "Model: es+=E; E: M | A; A: 'a' v=INT; M: 'm' INT '.' FLOAT | BOOL;\n", "opts": {},
     "inputs": ["a 1 m 007 . 1.50 true a 2", "m 1 . 2", "0 1"], "tag": "corpus-match-abstract"},
    {"grammar": "Model: a=A b=B?; A: x=ID?; B: 'b';\n", "opts": {}, "inputs": ["b", "q b", ""], "tag": "corpus-nullable-rule"},
    {"grammar": "Model: vs+=V; V: x=/<(\\w+)>/ | y=BOOL | z=/#(x)?/;\n", "opts": {"use_regexp_group": True},
     "inputs": ["<ab> true # #x 0", "<q>"], "tag": "corpus-regexp-group"},
    {"grammar": "M: ('a'- | 'b') 'c';\n", "opts": {}, "inputs": ["ac", "abc", "bc"], "tag": "corpus-choice-suppressed-alt"},
    {"grammar": "M: x=INT ('a'? | 'b') y=INT;\n", "opts": {}, "inputs": ["1 2", "1 a 2", "1 b 2"], "tag": "corpus-choice-empty-opt"},
    {"grammar": "Model: x=/a*/ 'b';\n", "opts": {"auto_init_attributes": False}, "inputs": ["b", "aab"], "tag": "corpus-empty-regex"},
    {"grammar": "Model: ('a'-)* 'b';\n", "opts": {}, "inputs": ["a a b", "b", "a b"], "tag": "corpus-rep-suppressed"},
    {"grammar": "Model[noskipws]: 'a'*;\n", "opts": {}, "inputs": ["a a", "aa"], "tag": "corpus-modifier-on-repetition"},
    {"grammar": "Model: a=A; A[noskipws]: (x+=ID)*;\n", "opts": {}, "inputs": ["a b", "ab", " ab"], "tag": "corpus-modifier-on-repetition2"},
    {"grammar": "Model: es+=E; E: 'e' A B | A | 'm' B 'x' A; A: 'a' x=INT; B: 'b' y=INT;\n", "opts": {},
     "inputs": ["e a 1 b 2 a 3 m b 4 x a 5", "a 1", "e a 1"], "tag": "corpus-abstract-first-nonterminal"},
    {"grammar": "Model: es+=E; E: 'e' W A B | W A | A; W: 'w' INT; A: 'a' x=INT; B: 'b' y=INT;\n", "opts": {},
     "inputs": ["e w 1 a 2 b 3 w 4 a 5 a 6", "w 1 a 2"], "tag": "corpus-abstract-first-nonmatch"},
    {"grammar": "Model: 'm' ts+=T; T: 't' flag?='!' n=INT s=STRING? f=FLOAT? b=BOOL? i=ID?;\n", "opts": {"auto_init_attributes": False},
     "inputs": ["m t 1 t ! 2 's' 1.5 true x", "m t 0"], "tag": "corpus-defaults-noauto"},
    {"grammar": "Model: 'm' ts+=T; T: 't' flag?='!' n=INT s=STRING? f=FLOAT? b=BOOL? i=ID?;\n", "opts": {},
     "inputs": ["m t 1 t ! 2 's' 1.5 true x", "m t 0"], "tag": "corpus-defaults-auto"},
    {"grammar": "Model: defs+=Def uses+=Use; Def: 'def' name=ID; Use: 'use' target=[Def] ('also' others+=[Def][','])?;\n", "opts": {},
     "inputs": ["def a def b use a use b also a, b", "def a\n use a also a", "def a use c", "def a use"], "tag": "corpus-references"},
    {"grammar": "Model: defs+=Def uses+=Use; Def: 'def' name=ID; Use: 'use' target=[Def] ('also' others+=[Def][','])?;\n", "opts": {"auto_init_attributes": False},
     "inputs": ["def x use x def", "def q use q also q"], "tag": "corpus-references-noauto"},
    {"grammar": "Model: xs+=A[eolterm] 'end';\nA[ws=' ']: 'a';\n", "opts": {}, "inputs": ["a a\nend", "a a end", "a\na end"], "tag": "corpus-eolterm-rule-ws"},
    {"grammar": "Model: xs+=A[eolterm] 'end';\nA: 'a';\n", "opts": {}, "inputs": ["a a\nend", "a a end", "a\na end"], "tag": "corpus-eolterm"},
    {"grammar": "Model: a=A 'x';\nA: &'x';\n", "opts": {}, "inputs": ["x", "y"], "tag": "corpus-predicate-root"},
    {"grammar": "Model: 'm' items+=Item;\nItem: name=ID;\nComment: /\\/\\*.*?\\*\\//;\n", "opts": {}, "inputs": ["m a /*c*/ /*d*/b", "m/**/a", "m a /*"], "tag": "corpus-comment-regex"},
    {"grammar": "Model: 'm' items+=Item;\nItem: name=ID;\nComment: /\\/\\*.*?\\*\\//;\n", "opts": {"skipws": False}, "inputs": ["ma/*c*/b", "mab"], "tag": "corpus-comment-noskipws"},
    {"grammar": "Model: 'm' ('a' 'b' x=INT)#;\n", "opts": {}, "inputs": ["m b 3 a", "m a b", "m 1 a b", "m a 1 b a"], "tag": "corpus-unordered"},
    {"grammar": "Model: objs+=O; O: 'o' name=ID ('{' kids+=O '}')?;\nComment: /\\/\\/.*?$/;\n", "opts": {},
     "inputs": ["o a { o b // c\n o c {o d} }\n\n  o e", "// x\no a{}", "o a {\r\n o b }"], "tag": "corpus-nested-comment"},
]


# ---------------------------------------------------------------- documented rule kinds (from the grammar AST)
def _walk(e):
    yield e
    k = e[0]
    if k in ("seq", "alt"):
        for x in e[1]:
            yield from _walk(x)
    elif k == "rep":
        yield from _walk(e[2])
    elif k == "pred":
        yield from _walk(e[2])
    elif k == "sup":
        yield from _walk(e[1])


def spec_kinds(g):
    """The documented rule kinds, computed from the grammar the generator produced (independent of textX):
    common iff the rule has assignments; otherwise abstract iff it references at least one rule that is common or
    abstract (least fixpoint over the reference graph, so cycles and definition order do not matter); otherwise match."""
    rules = {n: b for n, _, b in g["rules"]}
    has_asg = {n: any(x[0] == "asg" for x in _walk(b)) for n, b in rules.items()}
    refs = {n: [x[1] for x in _walk(b) if x[0] == "ref"] for n, b in rules.items()}
    nonmatch = {n for n in rules if has_asg[n]}
    changed = True
    while changed:
        changed = False
        for n in rules:
            if n not in nonmatch and any(y in nonmatch for y in refs[n]):
                nonmatch.add(n)
                changed = True
    return {n: ("common" if has_asg[n] else ("abstract" if n in nonmatch else "match")) for n in rules}


def check_kinds(case, res):
    """grammar-level oracle: the kind of every compiled rule is the documented one"""
    g = case.get("ast")
    if not g:
        return []
    want = dict(spec_kinds(g), **case.get("kinds", {}))
    bad = []
    seen = set()
    for e in res["mm"]:
        if e["k"] == "rule" and e["cls"] in want and e["cls"] not in seen:
            seen.add(e["cls"])
            if e["type"] != want[e["cls"]]:
                bad.append("rule %s is a %s rule in the metamodel, the grammar makes it %s" % (e["cls"], e["type"], want[e["cls"]]))
    return bad


def documented_mm(case, res):
    """the dumped metamodel with the rule kinds replaced by the documented ones (generated grammars only), so that
    the model side of the comparison does not believe a wrong kind"""
    g = case.get("ast")
    if not g:
        return res["mm"]
    want = spec_kinds(g)
    return [dict(e, type=want[e["cls"]]) if e["k"] == "rule" and e["cls"] in want else e for e in res["mm"]]


# grammars whose point is the rule-kind fixpoint: assignment-less rules that refer to each other (cycles through
# guarded references, forward and backward in the text), to common rules and to match rules
_KIND_COMMON = [("Num", ("asg", "v", "=", ("ref", "INT"), None, False)),
                ("Nm", ("seq", [("str", "n"), ("asg", "name", "=", ("ref", "ID"), None, False)])),
                ("Pr", ("seq", [("str", "p"), ("asg", "a", "=", ("ref", "INT"), None, False), ("asg", "b", "?=", ("str", "!"), None, False)]))]
_KIND_MATCH = [("Kw", ("alt", [("str", "kw"), ("str", "k")])), ("Wd", ("seq", [("str", "w"), ("ref", "FLOAT")]))]
_KIND_GUARDS = [("(", ")"), ("[", "]"), ("<", ">"), ("q", None), ("g", ";")]
_KIND_NAMES = ["Value", "Group", "Expr", "Term"]


def gen_kind_grammar(r):
    commons = r.sample(_KIND_COMMON, r.range(1, 2))
    matches = r.sample(_KIND_MATCH, r.range(0, 2))
    nl = r.range(2, 4)
    links = _KIND_NAMES[:nl]
    rank = dict(zip(r.shuffle(links), range(nl)))
    guards = r.shuffle(_KIND_GUARDS)
    only_match = r.chance(0.15) and matches          # a family that must stay match
    leaves = [n for n, _ in (matches if only_match else commons + matches)]
    rules = []
    cyc = False
    for i, name in enumerate(links):
        alts = []
        higher = [x for x in links if rank[x] > rank[name]]
        if i > 0 and r.chance(0.45):
            # a pure wrapper: its kind depends only on the rule it wraps (which may be defined before or after it and
            # may itself depend on this rule) - the situation the multi-pass kind resolution exists for
            o, c = guards[i % len(guards)]
            tgt = r.choice([x for x in links if x != name])
            cyc = True
            body = ("seq", [("str", o), ("ref", tgt)] + ([("str", c)] if c else []))
            if matches and r.chance(0.4):
                body = ("alt", r.shuffle([body, ("ref", matches[0][0])]))
            rules.append((name, {}, body))
            continue
        # a guarded reference to any link rule (cycles, self reference, backward reference)
        if r.chance(0.75) or (i == nl - 1 and not cyc):
            lo = [x for x in links if rank[x] <= rank[name]]
            tgt = r.choice(lo) if (r.chance(0.7) or not cyc) else r.choice(links)
            cyc = cyc or rank[tgt] <= rank[name]
            o, c = guards[i % len(guards)]
            alts.append(("seq", [("str", o), ("ref", tgt)] + ([("str", c)] if c else [])))
        if higher and r.chance(0.7):
            alts.append(("ref", r.choice(higher)))       # unguarded, forward in rank: no left recursion
        if not alts or r.chance(0.6) or not higher:
            leaf = r.choice(leaves)
            alts.append(("ref", leaf) if r.chance(0.7) else ("seq", [("str", "x"), ("ref", leaf)]))
        alts = r.shuffle(alts)
        if r.chance(0.5):                      # link references first, the deciding leaf last
            alts = [a for a in alts if a[0] == "ref" and a[1] in links] + [a for a in alts if not (a[0] == "ref" and a[1] in links)]
        rules.append((name, {}, alts[0] if len(alts) == 1 else ("alt", alts)))
    top = r.choice(links)
    style = r.below(3)
    if style == 0:
        root = [("Model", {}, ("asg", "items", "+=", ("ref", "Item"), None, False)),
                ("Item", {}, ("seq", [("str", "item"), ("asg", "value", "=", ("ref", top), None, False), ("str", ";")]))]
    elif style == 1:
        root = [("Model", {}, ("asg", "vs", "+=", ("ref", top), ("str", ","), False))]
    else:
        root = [("Model", {}, ("seq", [("str", "m"), ("rep", "*", ("asg", "vs", "+=", ("ref", top), None, False), None, False),
                                      ("rep", "?", ("asg", "last", "=", ("ref", r.choice(links)), None, False), None, False)]))]
    rest = rules + [(n, {}, b) for n, b in commons] + [(n, {}, b) for n, b in matches]
    return {"rules": root[:1] + r.shuffle(root[1:] + rest), "comment": None}


def _heights(g):
    INF = 10 ** 6
    H = {n: INF for n, _, _ in g["rules"]}

    def h(e):
        k = e[0]
        if k in ("str", "re"):
            return 0
        if k == "ref":
            return 0 if e[1] not in H else min(INF, 1 + H[e[1]])
        if k == "seq":
            return max(h(x) for x in e[1])
        if k == "alt":
            return min(h(x) for x in e[1])
        if k == "rep":
            return h(e[2]) if e[1] == "+" else 0
        if k == "asg":
            return 0 if e[2] in ("?=", "*=") else h(e[3])
        return h(e[2]) if k == "pred" else h(e[1])
    for _ in range(len(H) + 1):
        for n, _, b in g["rules"]:
            H[n] = h(b)
    return H, h


def derive_valid(r, g, depth=5):
    """a sentence of the grammar (kind grammars: no predicates / suppression / regexes), tokens separated by blanks;
    when the depth budget is used up the shallowest alternatives are taken, so the derivation always terminates"""
    rules = {n: b for n, _, b in g["rules"]}
    H, h = _heights(g)
    out = []

    def d(e, depth):
        k = e[0]
        if k == "str":
            out.append(e[1])
        elif k == "ref":
            if e[1] in rules:
                if H[e[1]] >= 10 ** 6:
                    out.append("a")            # a rule without a finite sentence (e.g. V: '[' V ']';)
                else:
                    d(rules[e[1]], depth - 1)
            else:
                out.append(r.choice(peggen.BASE[e[1]]))
        elif k == "seq":
            for x in e[1]:
                d(x, depth)
        elif k == "alt":
            alts = e[1]
            if depth <= 0:
                m = min(h(x) for x in alts)
                alts = [x for x in alts if h(x) == m]
            d(r.choice(alts), depth)
        elif k == "rep":
            n = r.range(0, 2) if depth > 0 else 0
            if e[1] == "+":
                n = max(n, 1)
            if e[1] == "?":
                n = min(n, 1)
            for j in range(n):
                if j and e[3]:
                    out.append(e[3][1])
                d(e[2], depth)
        elif k == "asg":
            op = e[2]
            n = 1 if op == "=" else (r.range(0, 1) if op == "?=" else r.range(0 if op == "*=" else 1, 3))
            for j in range(n):
                if j and e[4]:
                    out.append(e[4][1])
                d(e[3], depth)
    d(rules[g["rules"][0][0]], depth)
    return r.choice([" ", " ", "\n", "  "]).join(out)


def gen_kind_cases(chk, n, per, files=False):
    cases = []
    for i in range(n):
        r = chk.rng.split("k%d" % i)
        g = gen_kind_grammar(r)
        opts = {}
        if r.chance(0.4):
            opts["auto_init_attributes"] = False
        inputs = [derive_valid(r.split("v%d" % k), g) for k in range(per)] + [peggen.gen_input(r.split("i%d" % k), g, opts) for k in range(1)]
        cases.append({"grammar": peggen.grammar_text(g), "opts": opts, "inputs": inputs, "tag": "kinds", "files": files, "ast": g})
    return cases


def gen_cases(chk, n, per, files=False, features=None):
    cases = [dict(c, files=files) for c in CORPUS]
    cases += gen_kind_cases(chk, max(30, n // 4), 2, files)
    for i in range(n):
        r = chk.rng.split("g%d" % i)
        style = r.weighted([("plain", 5), ("ctx", 3)])
        feats = {"plain": dict(modifiers=False, eolterm=False, comment=r.chance(0.35)), "ctx": dict()}[style]
        feats.update(features or {})
        g = peggen.gen_grammar(r, feats)
        opts = {}
        if r.chance(0.15):
            opts["skipws"] = False
        if r.chance(0.1):
            opts["ws"] = r.choice([" ", " \t", "\n "])
        if r.chance(0.4):
            opts["auto_init_attributes"] = False
        if r.chance(0.3):
            opts["use_regexp_group"] = True
        inputs = []
        for k in range(per):
            inputs.append(peggen.gen_input(r.split("i%d" % k), g, opts))
        if r.chance(0.2):
            inputs.append("")
        cases.append({"grammar": peggen.grammar_text(g), "opts": opts, "inputs": inputs, "tag": style, "files": files,
                      "ast": g})
    return cases


def run_impl(cases):
    idx = [list(range(i, len(cases), core.NPROC)) for i in range(core.NPROC)]
    idx = [ix for ix in idx if ix]
    outs = core.run_impl_parallel("c01", [{"cases": [{"grammar": cases[i]["grammar"], "opts": cases[i]["opts"],
                                                      "inputs": cases[i]["inputs"], "files": cases[i].get("files", False)}
                                                     for i in ix]} for ix in idx])
    results = [None] * len(cases)
    for ix, o in zip(idx, outs):
        for i, x in zip(ix, o):
            results[i] = (cases[i], x)
    return results


def coq_defs(results):
    defs = []
    for ci, (case, res) in enumerate(results):
        if res.get("dump") is None:
            continue
        d = res["dump"]
        defs.append("Definition g%d : grammar := %s.\nDefinition c%d : config := %s.\nDefinition m%d : list ninfo := %s." % (
            ci, pegdump.coq_grammar(d), ci, pegdump.coq_config(d), ci, mmdump.coq_mm(documented_mm(case, res))))
    return "\n".join(defs)


def build_expr(ci, res, run, text):
    return "show_build g%d c%d m%d %s %s %s %s %d %s" % (
        ci, ci, ci, pegdump.coq_table(run["table"]), mmdump.coq_gtable(run["gtable"]),
        "true" if res["auto"] else "false", "true" if res["use_grp"] else "false", FUEL, pegdump.coq_str(text))


def eval_model(tag, results, expr_fns, imports=None):
    """expr_fns: list of functions (ci, res, run, text) -> Coq expression of type string.
    Returns dict (ci, ii) -> list of values (one per expr fn), and the list of evaluation errors."""
    exprs, index = [], []
    for ci, (case, res) in enumerate(results):
        if res.get("dump") is None:
            continue
        for ii, (text, run) in enumerate(zip(case["inputs"], res["runs"])):
            if run.get("timeout") or run.get("unsupported"):
                continue
            for f in expr_fns:
                exprs.append(f(ci, res, run, text))
            index.append((ci, ii))
    vals, errs = core.coq_eval(tag, imports or IMPORTS, exprs, defs=coq_defs(results), shard=120)
    k = len(expr_fns)
    out = {}
    for j, key in enumerate(index):
        out[key] = vals[j * k:(j + 1) * k]
    return out, errs


# ---------------------------------------------------------------- structural facts about the dumped parser model
def reach(dump, start):
    seen, todo = set(), [start]
    while todo:
        i = todo.pop()
        if i in seen:
            continue
        seen.add(i)
        n = dump["nodes"][i]
        todo += n["kids"] + ([n["sep"]] if n["sep"] is not None else [])
    return seen


def iter_objects(v, parent=None, attr=None):
    """yield (obj dict, parent obj dict, attr name) over a runner dump"""
    if isinstance(v, dict):
        if "cls" in v:
            yield v, parent, attr
            for a, x in v["attrs"]:
                yield from iter_objects(x, v, a)
        elif "l" in v:
            for x in v["l"]:
                yield from iter_objects(x, parent, attr)


def debug_dump(chk, failures, disagreements):
    """developer aid: VERIF_DEBUG=1 writes all failures/disagreements to out/<pid>/debug.json"""
    import os
    if os.environ.get("VERIF_DEBUG"):
        with open(os.path.join(chk.outdir, "debug.json"), "w") as f:
            json.dump({"failures": failures, "disagreements": disagreements}, f, indent=1, default=str)
