"""C32 — scope provider selection follows the documented precedence."""
import itertools
import json
import os
from vt import core
from vt.main import decide
from translate import scope_tr

KEYS = ["RefA.single", "RefA.many", "RefB.single", "*.single", "*.many", "RefA.*", "RefB.*", "*.*"]
DECOYS = ["Item.single", "RefA.other", "*.other", "Model.*", "refa.single", "RefA.Single"]
REFS = [("RefA", "single", 1), ("RefA", "many", 2), ("RefB", "single", 1), ("RefB", "many", 1)]
RRELS = ["~items.subs", "~items.~subs.subs", "items", "^items", "~items.subs,items", "~items*.subs", "(~items.subs)"]


def configs(chk):
    cfgs = []
    subsets = list(itertools.chain.from_iterable(itertools.combinations(KEYS, n) for n in range(len(KEYS) + 1)))
    for on in ("N", "A", "B"):
        for i, sub in enumerate(subsets):
            keys = list(sub)
            if (i % 3) == 1:
                keys += chk.rng.sample(DECOYS, 1 + chk.rng.below(3))
            cfgs.append({"keys": keys, "rrel_on": on, "rrel": "^items", "name_a": "x" if on == "A" else "y", "name_b": "x" if on == "B" else "y"})
    if not chk.thorough:   # quick: all subsets for RREL on B, a third for RREL on A
        cfgs = [c for j, c in enumerate(cfgs) if c["rrel_on"] == "N" or j % 3 == 0]
    return cfgs


def history_configs(chk):
    """Sequences of register_scope_providers calls on ONE meta-model (grow, shrink, replace, empty, same), a model loaded after each."""
    out = []
    cfile = os.path.join(core.VERIF, "corpus", "C32", "registration_history.json")
    for j in (json.load(open(cfile)) if os.path.exists(cfile) else []):      # corpus first
        on = j["rrel_on"]
        out.append({"steps": j["steps"], "rrel_on": on, "rrel": "^items", "name_a": "x" if on == "A" else "y", "name_b": "x" if on == "B" else "y"})
    n = 160 if chk.thorough else 48
    for i in range(n):
        r = chk.rng.split(("hist", i))
        steps = [sorted(r.sample(KEYS, r.below(5)))]
        for _ in range(r.range(1, 3)):
            prev = steps[-1]
            how = r.weighted([("shrink", 4), ("grow", 2), ("replace", 3), ("empty", 2), ("same", 1)])
            if how == "shrink" and prev:
                nxt = r.sample(prev, r.below(len(prev)))
                if r.chance(0.5):
                    nxt = nxt + [r.choice(["*.*", "RefA.*", "*.single"])]     # the less specific key that should now win
            elif how == "grow":
                nxt = prev + r.sample(KEYS, 1 + r.below(2))
            elif how == "empty":
                nxt = []
            elif how == "same":
                nxt = list(prev)
            else:
                nxt = r.sample(KEYS, r.below(4))
            steps.append(sorted(set(nxt)))
        on = r.weighted([("N", 3), ("A", 1), ("B", 1)])
        out.append({"steps": steps, "rrel_on": on, "rrel": "^items", "name_a": "x" if on == "A" else "y", "name_b": "x" if on == "B" else "y"})
    return out


def run(chk):
    chk.prove([scope_tr.translate])
    cfgs = configs(chk)
    hcfgs = history_configs(chk)
    impl = []
    allc = cfgs + hcfgs
    chunks = [allc[i::core.NPROC] for i in range(core.NPROC)]
    outs = core.run_impl_parallel("c32", [{"configs": ch} for ch in chunks if ch])
    impl_by_idx = {}
    k = 0
    for ci, ch in enumerate([c for c in chunks if c]):
        for j, c in enumerate(ch):
            impl_by_idx[id(c)] = outs[ci][j]
    # a history configuration is one unit per registration step: keys = that call's keys, history = the earlier calls
    for h in hcfgs:
        o = impl_by_idx[id(h)]
        for i, keys in enumerate(h["steps"]):
            u = {"keys": keys, "history": h["steps"][:i], "rrel_on": h["rrel_on"], "rrel": h["rrel"], "name_a": h["name_a"], "name_b": h["name_b"]}
            impl_by_idx[id(u)] = o["steps"][i] if "steps" in o and i < len(o["steps"]) else {"error": o.get("error", "no output for this step")}
            cfgs.append(u)
    # model: one Coq evaluation per config: the whole pass over the references (select_pass), in the order of REFS
    exprs = []
    index = []
    for c in cfgs:
        regs = "(active_keys %s [])" % core.coq_list([core.coq_list([core.coq_str(k) for k in ks]) for ks in c.get("history", []) + [c["keys"]]])
        refs = []
        for (cls, attr, n) in REFS:
            has_rrel = cls[-1] == c["rrel_on"]
            index.append((c, cls, attr, n, has_rrel))
            refs.append("(%s, %s, %s)" % (core.coq_str(cls), core.coq_str(attr), core.coq_bool(has_rrel)))
        exprs.append("sjoin \"|\" (map show_choice (select_pass %s %s []))" % (regs, core.coq_list(refs)))
    imports = ("From TxV Require Import Core.Base Core.Show Model.ScopeDefs Gen.SrcScope Model.RrelSyntax Model.Scope.\n"
               "Open Scope string_scope.\n"
               "Definition show_choice (c : choice) : string := match c with FromGrammar => \"grammar\" "
               "| Registered k => show_str k | Default => \"default\" end.\n"
               "Definition show_prov (p : provider) : string := match p with PRrel e => \"rrel\" | PInvalid => \"invalid\" | PCallable _ => \"callable\" end.")
    pvals, errs = core.coq_eval("C32", imports, exprs)
    vals = []
    for v in pvals:
        parts = v.split("|") if v is not None else [None] * len(REFS)
        vals.extend(parts if len(parts) == len(REFS) else [None] * len(REFS))
    disagreements, failures = [], []
    if errs:
        disagreements.append({"case": "coq evaluation", "model": errs[:2]})
    # group by config
    pos = 0
    for c in cfgs:
        o = impl_by_idx[id(c)]
        exp_log, exp_targets, doc_log = [], {}, []
        for (cls, attr, n) in REFS:
            _, _, _, _, has_rrel = index[pos]
            choice = vals[pos]
            pos += 1
            # documented precedence computed independently in Python (property oracle)
            doc = "grammar" if has_rrel else next((k for k in (cls + "." + attr, "*." + attr, cls + ".*", "*.*") if k in c["keys"]), "default")
            for _ in range(n):
                if choice not in ("grammar", "default", None):
                    exp_log.append([choice, cls, attr])
                if doc not in ("grammar", "default"):
                    doc_log.append([doc, cls, attr])
            tgt = {"grammar": "x", "default": "x/y"}.get(doc, "q")
            exp_targets[cls + "." + attr] = tgt if attr == "single" else [tgt] * n
        key = (tuple(c["keys"]), c["rrel_on"], tuple(tuple(h) for h in c.get("history", [])))
        chk.count(key, nontrivial=True)
        if c.get("history"):
            stale = set(k for h in c["history"] for k in h) - set(c["keys"])
            chk.stat("registration history: " + ("earlier keys omitted by the latest call" if stale else "no omitted key"))
        chk.stat("registered_keys=%d" % len([k for k in c["keys"] if k in KEYS]))
        # the rule with the grammar RREL `^items` refers to 'x' (two objects: only the RREL finds the top-level one);
        # the other rule refers to 'y' (unique: the default provider finds x/y); registered providers return q
        impl_log = sorted(o.get("log", []))
        if sorted(exp_log) != impl_log:
            disagreements.append({"case": c, "impl": o, "model": exp_log})
        # property oracle on the implementation
        ok = sorted(doc_log) == impl_log and "error" not in o
        if ok:
            for k2, t in exp_targets.items():
                t_impl = o["targets"].get(k2)
                want = t
                if t_impl != want:
                    ok = False
        if not ok:
            failures.append({"case": c, "impl": o, "what": "provider used differs from documented precedence", "model": doc_log, "tags": []})
        if chk.cov["evaluations"] % 97 == 1:
            chk.sample({"config": c, "impl_log": o.get("log"), "targets": o.get("targets")})
    # RREL strings registered vs written in the grammar
    rcfgs = []
    for r in RRELS:
        rcfgs.append(({"keys": [], "rrel_on": "A", "rrel": r}, {"keys": [], "string_keys": {"RefA.single": r, "RefA.many": r}, "rrel_on": "B", "rrel": r}))
    flat = [x for pair in rcfgs for x in pair]
    res = core.run_impl("c32", {"configs": flat})
    for i, (g, s) in enumerate(rcfgs):
        og, os_ = res[2 * i], res[2 * i + 1]
        chk.count(("rrelstr", g["rrel"]))
        tg = {k: v for k, v in og.get("targets", {}).items() if k.startswith("RefA")} or og.get("error")
        ts = {k: v for k, v in os_.get("targets", {}).items() if k.startswith("RefA")} or os_.get("error")
        if tg != ts:
            failures.append({"case": {"rrel": g["rrel"]}, "impl": {"grammar": og, "string": os_},
                             "what": "registered RREL string behaves differently from the grammar RREL", "tags": []})
    # the model's RREL parser (Model/RrelSyntax.v) accepts exactly the strings the implementation accepts at registration
    bad_strings = ["items.", "(items", "~"]
    allr = RRELS + bad_strings
    svals, serrs = core.coq_eval("C32s", imports, ["show_prov (registered_provider (RString %s))" % core.coq_str(r) for r in allr])
    sres = core.run_impl("c32", {"configs": [{"keys": [], "string_keys": {"RefA.single": r}, "rrel_on": "N", "rrel": "^items"} for r in bad_strings]})
    accepted = {r: True for r in RRELS}
    for r, o in zip(bad_strings, sres):
        accepted[r] = "error" not in o
    for r, mv in zip(allr, svals):
        chk.count(("rrelparse", r))
        if mv is None or (mv == "rrel") != accepted[r]:
            disagreements.append({"case": {"registered_string": r}, "impl": "accepted" if accepted[r] else "rejected", "model": mv})
    chk.sample({"rrel_string_vs_grammar": RRELS})
    chk.cov["rule"] = ("all %d subsets of the 8 registration keys relevant to rules RefA/RefB (a third with decoy keys), grammar RREL on rule A, on rule B or on neither, "
                       "single and list attributes; plus %d sequences of 2-4 register_scope_providers calls on ONE meta-model (shrink / grow / replace / empty / same), a model loaded "
                       "and compared after every call; distinct = distinct (key set, RREL placement, earlier registrations); plus %d RREL strings registered vs written in the grammar" % (2 ** len(KEYS), len(hcfgs), len(RRELS)))
    chk.cov["exhaustive"] = bool(chk.thorough)
    chk.assumptions += ["translator tools/translate/scope_tr.py (fail-closed ast match of resolve_one_step, register_scope_providers, RuleCrossRef.__init__, create_rrel_scope_provider)",
                        "rrel.parse is an oracle in C32_rrel_string (its agreement with the grammar-embedded RREL syntax is C12/C24)"]
    decide(chk, failures, disagreements)
