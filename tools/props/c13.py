"""C13 — object processors run once each, bottom-up, on a fully linked model."""
import json
import os
from vt import core
from vt.main import decide
from props import c13_common as cm
from translate import load_tr, proc_tr

IMPORTS = """From TxV Require Import Core.Base Core.Show Model.Proc Gen.SrcLoad Gen.SrcProc.
Open Scope string_scope.
Definition show_lev (e : lev) : string :=
  match e with LResolve _ => "R" | LInit _ => "I" | LProc _ => "P" | LRaise => "X" end.
Definition show_trace (u : bool) : string := sjoin "" (map show_lev (run_phases load_phases [0%nat; 1%nat; 2%nat; 3%nat] u))."""

FALSY = {"i:0", "s:", "b:False", "f:0.0"}     # canonical atom texts of falsy Python values

CORPUS = os.path.join(core.VERIF, "corpus", "C13")


def load_corpus():
    cases = []
    if os.path.isdir(CORPUS):
        for f in sorted(os.listdir(CORPUS)):
            if f.endswith(".json"):
                c = json.load(open(os.path.join(CORPUS, f)))
                c["corpus"] = f
                cases.append(c)
    return cases


def coq_case(case, o):
    """Returns (Coq expression, Terms table used to recode the implementation's strings)."""
    idx = {n: i for i, n in enumerate(o["names"])}
    T = cm.Terms()
    regl = core.coq_list(["%d" % idx[n] for n in case["reg"] if n in idx])
    byname = {}
    acc = []
    for m in o["models"]:
        cm.objects_of(m["root_d"], m["root_match"], m["tree"], acc)
    for _, v in acc:
        if "id" in v and v.get("name") is not None:
            byname[v["name"]] = v["id"]
    trees = [(T.dcl(m["root_d"], m["root_match"]), T.value(m["tree"])) for m in o["models"]]
    tbl = []
    for p, on, kind, k in case["actions"]:
        if p not in idx:
            continue
        if on == "":
            i = 0
        elif on in byname:
            i = byname[on]
        else:
            continue
        act = "AChild" if kind == "child" else "(AAtom %d)" % T.atom("i:%d" % (k if kind == "atom" else 0))
        tbl.append("(%d, %d, %s)" % (idx[p], i, act))
    ms = core.coq_list(["(%s, %s)" % t for t in trees])
    # Python-falsy values among the atoms of this case (only consulted when a translated fact is a truthiness test)
    falsy = core.coq_list(["%d" % i for a, i in sorted(T.atoms.items(), key=lambda x: x[1]) if a in FALSY])
    mreg = [(idx[n], suf) for n, suf in sorted(case.get("match_reg", {}).items()) if n in idx]
    mexpr = "run_match %s %s %s" % (core.coq_list(["%d" % i for i, _ in mreg]),
                                    core.coq_list(["(%d, %s)" % (i, core.coq_str(suf)) for i, suf in mreg]),
                                    core.coq_list([cm.coq_ptree(t) for t in o.get("forest", [])]))
    return "%sString.append (run_models src_facts %s %s %s %s) (String.append \"%%\" (%s))" % (T.lets(), regl, falsy, core.coq_list(tbl), ms, mexpr), T


def impl_string(o, T):
    procs = [e for e in o["events"] if e["k"] == "proc"]
    return T.recode("|".join("%d(%s)" % (e["p"], e["snap"]) for e in procs) + "$" + "$".join(m["final"] for m in o["models"])) + "%" + \
        "|".join("%d(%s)" % (e["p"], core.canon_text(e["v"])) for e in o["events"] if e["k"] == "match")


def classify(case, o):
    return []


def run(chk):
    chk.prove([load_tr.translate, proc_tr.translate])
    n = 600 if chk.thorough else 100
    cases = load_corpus()
    for i in range(n):
        cases.append(cm.gen_case(chk.rng.split(i), thorough=chk.thorough and i % 2 == 0))
    chunks = [cases[i::core.NPROC] for i in range(core.NPROC)]
    chunks = [c for c in chunks if c]
    outs = core.run_impl_parallel("c13", [{"cases": ch} for ch in chunks])
    res = {}
    for ch, oo in zip(chunks, outs):
        for c, x in zip(ch, oo):
            res[id(c)] = x
    failures, disagreements = [], []
    evald = [c for c in cases if res[id(c)]["ok"]]
    terms = [coq_case(c, res[id(c)]) for c in evald]
    tabs = {id(c): t[1] for c, t in zip(evald, terms)}
    vals, errs = core.coq_eval("C13", IMPORTS, ["show_trace false", "show_trace true"] + [t[0] for t in terms])
    if errs:
        disagreements.append({"case": "coq evaluation", "model": errs[:2]})
    trace_ok, trace_err = vals[0] or "", vals[1] or ""
    vals = vals[2:]
    mv = {id(c): v for c, v in zip(evald, vals)}
    for c in cases:
        o = res[id(c)]
        if (o.get("error_type") or "").startswith("HARNESS"):
            raise RuntimeError("harness failure: %s" % o["error"])
        procs = [e for e in o["events"] if e["k"] == "proc"]
        kinds = [e["k"] for e in o["events"]]
        nobj = len(set(e["id"] for e in procs if e["id"]))
        chk.count(json.dumps([c["grammars"], c["model"], c.get("files"), c["reg"], c["actions"], c["user"]], sort_keys=True),
                  nontrivial=len(procs) >= 3)
        chk.stat("load " + ("ok" if o["ok"] else "error:" + str(o["error_type"]) + (" (postponed forever)" if c.get("postpone_bad") else "")))
        chk.stat("objects processed %s" % ("0" if nobj == 0 else "1-3" if nobj <= 3 else "4-9" if nobj <= 9 else "10+"))
        if any(a[2] in ("atom", "falsy") for a in c["actions"]):
            chk.stat("with atom replacements")
        if any(a[2] == "child" for a in c["actions"]):
            chk.stat("with child-returning processors")
        if "init" in kinds:
            chk.stat("with user classes")
        if c.get("files"):
            chk.stat("import graph %s (%d models under construction)" % (c.get("shape") or "pair", len(c["files"]) + 1))
        if "resolve" in kinds:
            chk.stat("with references")
        nm = kinds.count("match")
        chk.stat("match-rule processor calls %s" % ("0" if nm == 0 else "1-4" if nm <= 4 else "5+"))
        if any(e["id"] == 0 for e in procs):
            chk.stat("abstract-rule processor on a primitive value")
        # correspondence with the translated phase order: the blocks of events the load produced
        blocks = []
        for k in kinds:
            ch = {"resolve": "R", "init": "I", "proc": "P"}.get(k)
            if ch and (not blocks or blocks[-1] != ch):
                blocks.append(ch)
        if not o["ok"]:
            blocks.append("X")
        want = trace_ok if o["ok"] else trace_err
        it = iter(want)
        if not all(b in it for b in blocks) or (o["ok"] and ("P" in blocks) != (len(procs) > 0)):
            disagreements.append({"case": c, "impl": "phases " + "".join(blocks), "model": "phases " + want})
        # correspondence with the Coq model
        if o["ok"]:
            m = mv.get(id(c))
            impl_s = impl_string(o, tabs[id(c)])
            if m is None or m != impl_s:
                disagreements.append({"case": c, "impl": impl_s, "model": m})
        # property oracle on the implementation
        idx = {nm: i for i, nm in enumerate(o["names"])}
        bad = cm.oracle(c, o, idx)
        if bad:
            failures.append({"case": c, "impl": {k: o.get(k) for k in ("ok", "error_type", "error")} | {"calls": [(e["pn"], e["id"]) for e in procs]},
                             "model": mv.get(id(c)), "what": "; ".join(bad[:4]), "tags": classify(c, o)})
        if chk.cov["evaluations"] % 50 == 7:
            chk.sample({"grammar": c["grammars"][c["main"]], "model": c["model"], "reg": c["reg"], "actions": c["actions"][:6],
                        "calls": [(e["pn"], e["id"]) for e in procs][:12]})
    chk.cov["rule"] = ("generated grammars (2-6 common rules with single/many/optional containment, references, primitive and OBJECT-typed "
                       "attributes, 0-3 abstract rules incl. nested and with INT/STRING alternatives, recursion) with a derived model text, a "
                       "registration set (all / subset / none of the rules incl. abstract and OBJECT), replacement actions (atom, falsy 0, return "
                       "first child) per (processor, object), user classes on a subset of rules, plus unresolved-reference models; loaded through "
                       "metamodel_from_file/model_from_str; non-trivial = at least 3 processor calls; distinct by (grammar, model, registration, actions, user classes)")
    chk.assumptions += ["translator proc_tr.py: statement-by-statement match of call_obj_processors; the facts it extracts instantiate the model",
                        "object processors only observe their argument and return a value (no side effects on the model) - the harness processors do exactly that",
                        "object identity is represented by ids assigned in containment pre-order before reference resolution",
                        "the linked tree and attribute metadata given to the Coq model are read from the live metamodel/model at the first processor call"]
    decide(chk, failures, disagreements)


def replay(rep):
    case = rep.get("case")
    if not isinstance(case, dict):
        print(json.dumps(rep, indent=1))
        return 0
    o = core.run_impl("c13", {"cases": [case]})[0]
    idx = {nm: i for i, nm in enumerate(o["names"])}
    procs = [e for e in o["events"] if e["k"] == "proc"]
    print("grammar:\n" + "\n".join(case["grammars"].values()))
    print("model: " + case["model"] + "".join("\n%s: %s" % kv for kv in (case.get("files") or {}).items()))
    print("registered: %s  actions: %s  user classes: %s" % (case["reg"], case["actions"], case["user"]))
    print("implementation: ok=%s error=%s %s" % (o["ok"], o["error_type"], o["error"]))
    print("calls: " + " ".join("%s(#%d)" % (e["pn"], e["id"]) for e in procs))
    if o["ok"]:
        expr, T = coq_case(case, o)
        vals, errs = core.coq_eval("C13r", IMPORTS, [expr])
        print("model    : %s" % vals[0])
        print("impl     : %s" % impl_string(o, T))
        print("atoms    : %s" % sorted((i, a) for a, i in T.atoms.items()))
    bad = cm.oracle(case, o, idx)
    print("property verdict: " + ("VIOLATED: " + "; ".join(bad) if bad else "holds"))
    return 1 if bad else 0
