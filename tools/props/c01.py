"""C01 - the compiled parser and the model follow the grammar's PEG semantics.

Pipeline: Props/C01.v (refinement theorem Peg.run ~ Spec for the class wfg, refuted witnesses outside
it) -> generated grammars x derived/mutated inputs x metamodel options -> the real textX
(tools/impl/c01.py) vs
  (a) Build(Peg.run ...) on the dumped parser model + metamodel  [correspondence: the interpreter and
      model-construction models are the code],
  (b) the reference semantics Model/Spec.v on the same table: acceptance, parse tree, and the model
      Build gives for the reference tree  [property oracle: the implementation follows the documented
      semantics]; deviations inside the theorem's class are violations, outside it they are
      attributed to the known findings by the classifier that mirrors wfg,
  (c) the declared rule modifiers are carried by the rule's root node  [grammar-level oracle]
-> decide.
"""
import json

from vt import core
from vt.main import decide
from props import build_common as bc
import pegdump
import mmdump
import peggen

SPEC_IMPORTS = ("From TxV Require Import Core.Base Core.Show Model.PegSyntax Model.Peg Model.PegShow Model.Build Model.Spec.\n"
                "From TxV Require Proofs.PegTerm Proofs.SpecCmt.\nOpen Scope string_scope.\n" + r"""
Fixpoint show_ext_tree (t : stree) : list string :=
  match t with
  | ST _ _ _ _ => []
  | SNT n kids =>
    (show_nat n ++ ":" ++ match sext t with Some (a, b) => show_nat a ++ ":" ++ show_nat b | None => "-" end)
      :: (fix go (l : list stree) : list string := match l with [] => [] | x :: l' => (show_ext_tree x ++ go l')%list end) kids
  | SSup kids => (fix go (l : list stree) : list string := match l with [] => [] | x :: l' => (show_ext_tree x ++ go l')%list end) kids
  end.
Definition show_spec (g : grammar) (c : config) (tbl : list ((nat * nat) * nat)) (fuel : nat) (input : list N) : string :=
  match spec_run g c (orc_of tbl) fuel input with
  | SOk ts p => "ok|" ++ sjoin "," (map (show_tree g) (erase_all ts)) ++ "|" ++ sjoin "," (flat_map show_ext_tree ts) ++ "|" ++
                match spec_run_q g c (orc_of tbl) fuel input with
                | SOk tsq _ => sjoin "," (map (show_tree g) (erase_all tsq))
                | _ => "?"
                end
  | SFail => "fail"
  | SOut => "out"
  end.
Definition show_spec_build (g : grammar) (c : config) (mm : list ninfo) (tbl : list ((nat * nat) * nat))
           (gtbl : list ((nat * nat) * (nat * nat))) (auto use_grp : bool) (fuel : nat) (input : list N) : string :=
  match spec_run g c (orc_of tbl) fuel input with
  | SOk ts _ =>
    match erase_all ts with
    | [t] => match build g mm input (grp_of gtbl) auto use_grp (RTree t) with
             | BOk v => "('ok'," ++ show_value input v ++ ")"
             | BErr e => "('err','" ++ show_berr e ++ "')"
             end
    | _ => "('err','shape')"
    end
  | SFail => "('syntax',0)"
  | SOut => "('abort',0)"
  end.
Definition show_wfg (g : grammar) (tbl : list ((nat * nat) * nat)) : string :=
  (if (wfg g 24 || SpecCmt.wfgc g 24 || wfgu g 24)%bool then "T" else "F") ++
  (if existsb (fun e => Nat.eqb (snd e) 0) tbl then "z" else "") ++
  (if PegTerm.terminating PegTerm.none_nullable g then "t" else "").
""")


# the reference side gets |input| + 2 more fuel than the interpreter (C01_refinement_comments); inputs are <= 60 characters
SPEC_FUEL = bc.FUEL + 64


def spec_expr(ci, res, run, text):
    return "show_spec g%d c%d %s %d %s" % (ci, ci, pegdump.coq_table(run["table"]), SPEC_FUEL, pegdump.coq_str(text))


def spec_build_expr(ci, res, run, text):
    return "show_spec_build g%d c%d m%d %s %s %s %s %d %s" % (
        ci, ci, ci, pegdump.coq_table(run["table"]), mmdump.coq_gtable(run["gtable"]),
        "true" if res["auto"] else "false", "true" if res["use_grp"] else "false", SPEC_FUEL, pegdump.coq_str(text))


def wfg_expr(ci, res, run, text):
    return "show_wfg g%d %s" % (ci, pegdump.coq_table(run["table"]))


def spec_extents(sv):
    """show_spec string -> {"ok": bool, "spans": set of (nid, start, end)} with nid replaced later; None if no value"""
    if sv is None:
        return None
    if not sv.startswith("ok|"):
        return {"ok": False, "spans": set()}
    _, tree, ext, qtree = sv.split("|", 3)
    spans = set()
    for part in ext.split(","):
        if not part or part.endswith(":-"):
            continue
        nid, a, b = part.split(":")
        spans.add((int(nid), int(a), int(b)))
    return {"ok": True, "spans": spans, "tree": tree, "qtree": qtree}


# ---------------------------------------------------------------- classifier: mirror of Spec.wfg
def prod_table(dump):
    nodes = dump["nodes"]
    n = len(nodes)
    cur = [False] * n
    for _ in range(24):             # prod_tbl g 24
        nxt = []
        for nd in nodes:
            k = nd["kind"]
            kids = nd["kids"]
            if nd["suppress"]:
                v = False
            elif k == "KStr":
                v = len(nd["text"]) > 0
            elif k == "KRegex":
                v = True
            elif k == "KSeq":
                v = any(cur[c] for c in kids)
            elif k == "KChoice":
                v = bool(kids) and all(cur[c] for c in kids)
            elif k == "KPlus":
                v = bool(kids) and cur[kids[0]]
            else:
                v = False
            nxt.append(v)
        cur = nxt
    return cur


def feature_tags(dump):
    """constructs present in the parser model (used to attribute the known span / tree findings)"""
    tags = set()
    for nd in dump["nodes"]:
        if nd["suppress"]:
            tags.add("suppression")
        if nd["sep"] is not None:
            tags.add("separator")
        if nd["kind"] == "KStr" and len(nd["text"]) == 0:
            tags.add("empty_literal")
    return tags


def classify_dump(dump):
    """Tags of the constructs outside the class of C01_refinement_partial (mirror of Spec.node_ok / wfg).
    Empty set <=> wfg g 24 = true."""
    tags = set()
    prod = prod_table(dump)
    nodes = dump["nodes"]
    if dump["comments"] is not None:
        # SpecCmt.wfgc: the Comment rule is a single regex terminal and the table never changes the whitespace mode
        if nodes[dump["comments"]]["kind"] != "KRegex":
            tags.add("comments_complex")
        if any(nd["ws"] is not None or nd["skipws"] is not None or nd["eolterm"] for nd in nodes):
            tags.add("comments_modifiers")
    if any(nd["eolterm"] for nd in nodes) and any(nd["ws"] is not None for nd in nodes):
        tags.add("eolterm_ws")         # eol_ws_ok: a rule-level ws inside an eolterm repetition is restored wrongly
    for nd in nodes:
        k, kids = nd["kind"], nd["kids"]
        live_root = nd["root"] and not nd["suppress"]
        if nd["sep"] is not None and k not in ("KStar", "KPlus", "KUnord"):
            tags.add("malformed")
        if nd["eolterm"] and k not in ("KStar", "KPlus", "KOpt", "KUnord"):
            tags.add("malformed")
        if (nd["ws"] is not None or nd["skipws"] is not None) and k not in ("KSeq", "KChoice"):
            tags.add("malformed")
        if k == "KUnord":
            # Spec.ug_ok (class wfgu): no separator, no eolterm, all members productive; and no Comment rule
            if not (nd["sep"] is None and not nd["eolterm"] and kids and all(prod[c] for c in kids)) or dump["comments"] is not None:
                tags.add("unordered_group")
        if k in ("KAnd", "KNot", "KEmpty") and live_root:
            tags.add("nullable_rule")
        if k == "KStr" and len(nd["text"]) == 0:
            tags.add("empty_literal")
        if k == "KChoice" and not (kids and all(prod[c] for c in kids)):
            tags.add("choice_alt_nonproductive")
        if k in ("KStar", "KPlus") and not (kids and prod[kids[0]]):
            tags.add("rep_elem_nonproductive")
        if k == "KOpt" and ((live_root and not (kids and prod[kids[0]])) or not kids):
            tags.add("nullable_rule" if kids else "malformed")
        if k == "KSeq" and live_root and not any(prod[c] for c in kids):
            tags.add("nullable_rule")
    return tags


def nid_class(res):
    return {nid: e["cls"] for nid, e in enumerate(res["mm"]) if e["k"] == "rule" and e["type"] == "common"}


def check_modifiers(case, res):
    """(c): every rule declared with modifiers has a root node carrying them."""
    bad = []
    g = case.get("ast")
    if not g:
        return bad
    by_rule = {}
    present = set()
    for nd in res["dump"]["nodes"]:
        present.add(nd["rule"])
        if nd["root"] and nd["rule"] and nd["kind"] in ("KSeq", "KChoice"):
            by_rule.setdefault(nd["rule"], []).append(nd)
    for name, params, body in g["rules"]:
        if not params or name not in present:     # rules unreachable from the root are not in the parser model
            continue
        nds = by_rule.get(name, [])
        ok = any(("ws" not in params or (nd["ws"] is not None and set(nd["ws"]) == set(params["ws"]))) and ("skipws" not in params or nd["skipws"] == params["skipws"])
                 for nd in nds)
        if not ok:
            bad.append("rule %s declares modifiers %r but no root node of the compiled parser carries them" % (name, params))
    return bad


# ---------------------------------------------------------------- (d) the compiled parser is the image of the grammar
ASG_KIND = {"=": "KSeq", "?=": "KOpt", "*=": "KStar", "+=": "KPlus"}
REP_KIND = {"?": "KOpt", "*": "KStar", "+": "KPlus", "#": "KUnord"}


def ast_signature(e, sig):
    """multiset of the constructs a rule body must compile to (sequence/choice nesting is not counted:
    textX collapses single-element groups)"""
    k = e[0]

    def add(x):
        sig[x] = sig.get(x, 0) + 1
    if k == "str":
        add(("lit", e[1]))
    elif k == "re":
        add(("re", peggen.REGEXES[e[1]][0]))
    elif k == "ref":
        add(("ref", e[1]))
    elif k in ("seq", "alt"):
        for x in e[1]:
            ast_signature(x, sig)
    elif k == "rep":
        add(("rep", REP_KIND[e[1]], e[3] is not None, bool(e[4])))
        if e[3] is not None:
            add(("sep", e[3][1] if e[3][0] == "str" else peggen.REGEXES[e[3][1]][0]))
        if e[1] == "#":
            for x in (e[2][1] if e[2][0] == "seq" else [e[2]]):
                ast_signature(x, sig)
        else:
            ast_signature(e[2], sig)
    elif k == "pred":
        add(("pred", "KAnd" if e[1] == "&" else "KNot"))
        ast_signature(e[2], sig)
    elif k == "sup":
        add(("suppress",))
        ast_signature(e[1], sig)
    elif k == "asg":
        add(("asg", e[1], ASG_KIND[e[2]], e[4] is not None, bool(e[5])))
        if e[4] is not None:
            add(("sep", e[4][1] if e[4][0] == "str" else peggen.REGEXES[e[4][1]][0]))
        ast_signature(e[3], sig)
    return sig


def dump_signature(res, root, names):
    dump, mm = res["dump"], res["mm"]
    nodes = dump["nodes"]
    sig = {}

    def add(x):
        sig[x] = sig.get(x, 0) + 1

    def term_key(nd):
        if nd["kind"] == "KStr":
            return nd["text"]
        return dump["oracles"][nd["oid"]][1]
    seen = set()

    def walk(i, top):
        nd = nodes[i]
        if not top and nd["rule"] in names and nd["root"]:
            add(("ref", nd["rule"]))
            return
        if i in seen:
            return
        seen.add(i)
        if nd["suppress"]:
            add(("suppress",))
        k = nd["kind"]
        if mm[i]["k"] == "asgn":
            add(("asg", mm[i]["attr"], k, nd["sep"] is not None, bool(nd["eolterm"])))
        elif k in ("KOpt", "KStar", "KPlus", "KUnord"):
            add(("rep", k, nd["sep"] is not None, bool(nd["eolterm"])))
        elif k in ("KAnd", "KNot"):
            add(("pred", k))
        elif k == "KStr":
            add(("lit", nd["text"]))
        elif k == "KRegex":
            add(("re", term_key(nd)))
        if nd["sep"] is not None:
            add(("sep", term_key(nodes[nd["sep"]])))
        for c in nd["kids"]:
            walk(c, False)
    walk(root, True)
    return sig


def check_compiled(case, res):
    """every reachable rule of the generated grammar compiles to the constructs its body lists"""
    bad = []
    g = case.get("ast")
    if not g:
        return bad
    if any(b[0] == "sup" and b[1][0] == "ref" for _, _, b in g["rules"]):
        return bad                         # `A: B-;` aliases B's node and moves the flag: not compared
    names = {n for n, _, _ in g["rules"]} | set(peggen.BASE) | {"CB", "CL", "Comment"}
    alias = {n: b[1] for n, p_, b in g["rules"] if b[0] == "ref" and not p_}
    roots = {}
    for i, nd in enumerate(res["dump"]["nodes"]):
        if nd["root"] and nd["rule"] in names and res["mm"][i]["k"] != "asgn":
            roots.setdefault(nd["rule"], i)
    top = res["dump"]["nodes"][res["dump"]["top"]]
    for idx, (name, params, body) in enumerate(g["rules"]):
        if body[0] == "ref" and not params:
            continue                       # `A: B;` has no node of its own
        if idx == 0:
            root = top["kids"][0]
        elif name in roots:
            root = roots[name]
        else:
            continue                       # unreachable rule
        want = {}
        for key, cnt in ast_signature(body, {}).items():
            if key[0] == "ref":            # `A: B;` is an alias: references to A are references to B's node
                t = key[1]
                for _ in range(10):
                    if t in alias:
                        t = alias[t]
                key = ("ref", t)
            want[key] = want.get(key, 0) + cnt
        got = dump_signature(res, root, names)
        if want != got:
            miss = {k: v for k, v in want.items() if got.get(k) != v}
            extra = {k: v for k, v in got.items() if want.get(k) != v}
            bad.append("rule %s does not compile to its body: grammar lists %r, compiled parser has %r" % (name, sorted(miss.items(), key=repr), sorted(extra.items(), key=repr)))
    return bad


def check_metaattrs(res):
    """(g) metamodel attributes agree with the assignment nodes of the class' rule: bool_assignment <=> assigned by
    ?=; assigned by += => multiplicity 1..*; assigned by *= => a many multiplicity"""
    bad = []
    nodes, mm = res["dump"]["nodes"], res["mm"]
    for nid, e in enumerate(mm):
        if e["k"] != "rule" or e["type"] != "common":
            continue
        ops = {}
        seen, todo = set(), [nid]
        while todo:
            i = todo.pop()
            if i in seen:
                continue
            seen.add(i)
            if mm[i]["k"] == "asgn":
                ops.setdefault(mm[i]["attr"], set()).add(mm[i]["op"])
                continue                                  # the right-hand side belongs to another rule or is a match
            if i != nid and mm[i]["k"] == "rule":
                continue
            nd = nodes[i]
            todo += nd["kids"] + ([nd["sep"]] if nd["sep"] is not None else [])
        for a in e["attrs"]:
            o = ops.get(a["name"])
            if o is None:
                continue                                  # inherited / not assigned in this rule's own body
            if a["bool"] != ("optional" in o):
                bad.append("class %s: attribute %s is assigned by %s but bool_assignment is %s" % (e["cls"], a["name"], sorted(o), a["bool"]))
            if "oneormore" in o and a["mult"] != "1..*":
                bad.append("class %s: attribute %s is assigned by += but its multiplicity is %s" % (e["cls"], a["name"], a["mult"]))
            if "zeroormore" in o and a["mult"] not in ("0..*", "1..*"):
                bad.append("class %s: attribute %s is assigned by *= but its multiplicity is %s" % (e["cls"], a["name"], a["mult"]))
    return bad


def check_attr_shapes(case, im):
    """?= attributes are booleans, += / *= attributes are lists (generated grammars: the operator is known)"""
    g = case.get("ast")
    if not g or not im.get("ok"):
        return []
    ops = {}

    def walk(e, rule):
        if e[0] == "asg":
            ops.setdefault((rule, e[1]), set()).add(e[2])
        elif e[0] in ("seq", "alt"):
            for x in e[1]:
                walk(x, rule)
        elif e[0] == "rep":
            walk(e[2], rule)
        elif e[0] == "pred":
            walk(e[2], rule)
        elif e[0] == "sup":
            walk(e[1], rule)
    for n, _, b in g["rules"]:
        walk(b, n)
    bad = []
    for o, parent, attr in bc.iter_objects(im["value"]):
        for a, v in o["attrs"]:
            op = ops.get((o["cls"], a))
            if not op:
                continue
            if op == {"?="} and not (isinstance(v, dict) and "b" in v):
                bad.append("%s.%s is assigned with ?= but its value is %r, not a boolean" % (o["cls"], a, v))
            if op <= {"+=", "*="} and not (isinstance(v, dict) and "l" in v):
                bad.append("%s.%s is assigned with +=/*= but its value is %r, not a list" % (o["cls"], a, v))
    return bad


def run(chk):
    chk.prove([])
    n, per = (400, 4) if chk.thorough else (100, 3)
    cases = bc.gen_cases(chk, n, per, files=False)
    results = bc.run_impl(cases)
    vals, errs = bc.eval_model("C01", results, [bc.build_expr, spec_expr, spec_build_expr, wfg_expr], imports=SPEC_IMPORTS)
    disagreements, failures = [], []
    if errs:
        disagreements.append({"case": "coq evaluation", "model": errs[:2]})
    for ci, (case, res) in enumerate(results):
        if res["grammar_error"]:
            chk.stat("grammar rejected: " + res["grammar_error"].split(":")[0])
            continue
        tags = classify_dump(res["dump"])
        ftags = feature_tags(res["dump"])
        chk.stat("grammars: %s" % ("in the theorem's class (wfg)" if not tags else "outside wfg"))
        for t in sorted(tags):
            chk.stat("grammar has: " + t)
        for what in check_modifiers(case, res) + check_compiled(case, res) + check_metaattrs(res) + bc.check_kinds(case, res):
            failures.append({"case": {"grammar": case["grammar"], "opts": case["opts"]}, "what": what, "tags": []})
        for ii, (text, run_) in enumerate(zip(case["inputs"], res["runs"])):
            if run_.get("timeout") or run_.get("unsupported"):
                chk.stat("input skipped (timeout/unsupported)")
                continue
            cinfo = {"grammar": case["grammar"], "opts": case["opts"], "input": text, "tag": case.get("tag")}
            im = run_["model"]
            tree = run_["tree"]
            mv = vals.get((ci, ii))
            accepted = tree.startswith("P:")
            chk.count(json.dumps([case["grammar"], case["opts"], text]), nontrivial=accepted or not tree.startswith("E:0"))
            chk.stat("impl: %s" % ("accepted" if im["ok"] else im["err"].split(":")[0]))
            if mv is None or any(v is None for v in mv):
                disagreements.append({"case": cinfo, "impl": im, "model": None})
                continue
            # ---- (a) correspondence: Build(Peg.run) vs the implementation
            m = bc.model_outcome(mv[0])
            if m.get("err") == "unsup":
                chk.stat("model: outside the modelled fragment")
            elif not bc.outcomes_agree(m, im):
                disagreements.append({"case": cinfo, "impl": im, "model": m})
            # ---- classifier consistency: the Python mirror of wfg is the Coq wfg
            wf_coq = mv[3].startswith("T")
            zero = "z" in mv[3]
            if wf_coq and "t" in mv[3] and ii == 0:
                chk.stat("grammars: wfg and terminating (C01_refinement_total applies)")
            if wf_coq != (not tags):
                disagreements.append({"case": cinfo, "impl": sorted(tags), "model": "Coq wfg = %s" % mv[3]})
            ctags = sorted(tags) + (["empty_regex_match"] if zero else [])
            if res["dump"]["comments"] is not None and not res["dump"]["skipws"]:
                ctags.append("comments_noskipws")        # hypothesis of C01_refinement_comments (config, not table)
            has_sep = "separator" in ftags
            ttags = ctags + (["separator"] if has_sep else [])      # tree / model level: the trailing-separator variant
            # ---- (b) the reference semantics vs the implementation
            sp = spec_extents(mv[1])
            bad = None
            btags = ctags
            if mv[1] == "out":
                chk.stat("spec: out of fuel")
            elif sp["ok"] != accepted:
                if tree.startswith("X:"):
                    bad = "the parser crashed (%s) where the reference semantics %s" % (tree, "accept" if sp["ok"] else "reject")
                else:
                    bad = "acceptance differs: reference semantics %s, implementation %s" % (
                        "accept" if sp["ok"] else "reject", tree[:80])
            elif accepted and not ctags and "P:" + sp["qtree"] != tree:
                # inside the class the tree is the trailing-separator variant's (C01_refinement_partial)
                bad = "parse tree differs from the trailing-separator variant of the reference: %s, implementation %s" % (sp["qtree"][:200], tree[2:202])
                btags = []
            elif accepted and "P:" + sp["tree"] != tree:
                bad = "parse tree differs: reference %s, implementation %s" % (sp["tree"][:200], tree[2:202])
                btags = ttags
            elif accepted:
                btags = ttags
                sm = bc.model_outcome(mv[2])
                if sm.get("err") != "unsup" and not bc.outcomes_agree(sm, im):
                    bad = "model differs from the one the reference semantics prescribe: reference %s, implementation %s" % (
                        json.dumps(sm)[:300], json.dumps(bc.strip_impl(im.get("value")) if im["ok"] else im)[:300])
            if accepted and im["ok"]:
                # exactly the declared attributes; containment
                for o, parent, attr in bc.iter_objects(im["value"]):
                    if o["extra"]:
                        bad = bad or "object %s has undeclared attributes %r" % (o["cls"], o["extra"])
                    if not o["parent_ok"]:
                        bad = bad or "object %s: parent link is not its container" % o["cls"]
            for what in check_attr_shapes(case, im):
                failures.append({"case": cinfo, "what": what, "tags": [], "impl": im})
            if bad:
                chk.stat("impl deviates from the reference semantics")
                failures.append({"case": cinfo, "what": bad, "tags": btags, "impl": [tree[:300], im], "model": mv[1][:300]})
            elif not ctags:
                chk.stat("cases inside the theorem's class agreeing with the reference")
            # per-case counts per exclusion reason (evidence: coverage.distribution)
            if ctags:
                chk.stat("cases outside the proved classes")
                for t in ctags:
                    chk.stat("cases excluded by: " + t)
                if len(ctags) == 1:
                    chk.stat("cases excluded ONLY by: " + ctags[0])
            else:
                chk.stat("cases inside the proved classes")
            if chk.cov["evaluations"] % 80 == 7:
                chk.sample({"grammar": case["grammar"], "input": text, "impl": tree[:120], "spec": mv[1][:120]})
    chk.cov["rule"] = ("generated textX grammars (2-6 rules; common, abstract and match rules; = ?= *= += ; string/regex matches incl. "
                       "nullable regexes and one-group regexes; base types; ? * + # with separators and eolterm; & ! predicates; "
                       "suppression; rule modifiers noskipws/skipws/ws; Comment rules) + a corpus of known-deviation shapes x inputs "
                       "derived from the grammar with random layout and token/character mutations x metamodel options skipws/ws/"
                       "auto_init_attributes/use_regexp_group; each loaded by the real textX and evaluated by the Coq interpreter+Build "
                       "on the dumped parser model/metamodel and by the reference semantics Spec; non-trivial = accepted, or rejected "
                       "after position 0; distinct by (grammar, options, input)")
    chk.assumptions += ["tools/pegdump.py and tools/mmdump.py dump the live parser model and metamodel faithfully (fail closed); the grammar compiler is not modelled",
                        "regex terminals: matched lengths and group spans supplied by Python's re for the concrete input; theorems hold for every oracle",
                        "Model/Peg.v (Arpeggio interpreter) is validated by correspondence, not verified",
                        "Model/Spec.v is the reading of the documented PEG semantics fixed in design/C01.md",
                        "base-type conversions are evaluated by the checker with Python's int/float/str (mirror of metamodel.py:300-316)"]
    bc.debug_dump(chk, failures, disagreements)
    decide(chk, failures, disagreements)
