"""C15 — a failed load leaves nothing behind."""
from props import c14


def run(chk):
    c14.run(chk, pid="C15")


replay = c14.replay
