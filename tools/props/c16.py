"""C16 — loading is independent of the metamodel's history.

Histories (metamodel creations, valid and failing, and model loads from strings and files, valid
and failing at every phase, interleaved over a pool of metamodels with/without memoization, user
classes, object/model processors, global repositories, debug) are run in one process; every
operation's result is compared with the result of the same operation on a fresh process state
(property oracle), and the persistent state after every operation is compared with the state
predicted by the Coq state machine Model/History.v (correspondence).  The theorems of
Props/C16.v are re-proved against the facts translated from the source (Gen/SrcHistory.v)."""
import itertools
import json
import os
import re

from vt import core
from vt.main import decide
from translate import history_tr

GRAMS = ["GA", "GB", "GC", "GD", "GE", "BAD1", "BAD2", "BAD3", "BAD4", "GF", "GH", "BAD5", "BAD6", "BAD7"]
USES_BASE = {"GB", "GC", "GE"}
CLS_KEYS = ["Item:plain", "Item:set", "Item:boom", "Model:plain", "Ref:plain", "Item:get"]
CLS_FOR = {"GA": ["Item:plain", "Item:set", "Item:boom", "Item:get", "Model:plain", "Ref:plain"], "GB": ["Item:plain", "Item:set", "Item:boom", "Item:get"],
           "GC": [], "GD": ["Item:plain", "Item:set", "Ref:plain", "Model:plain"], "GE": ["Item:plain", "Item:set", "Item:get"],
           "GF": ["Item:set", "Item:get", "Item:plain"], "GH": ["Item:plain", "Item:set"]}

INPUTS = {
    "GA": ["A item x = 1; ref x;", "A item x = 1; item y = 22; ref y; ref x;", "A item x = 1; ref zz;", "A item x = 1 ref x;",
           "A item bad = 3;", "A item boom = 3; item k = 1;", "A item mperr = 1;", "A item perr = 2; ref perr;", "",
           "A item x = 1; item x = 2; ref x;", "A item y = 5; ref x;",
           "A item x = 1; item y = 13; ref x;", "A item x = 1; item nope = 2; ref x;"],
    "GB": ["item a 5", "item a 3.5 !", "5", "'str'", "item", "item a b", "item boom 1", "item bad 2.0", "item a 13", "item nope 4 !"],
    "GC": ["C 1, 2.5, 'x', abc opt 12", "C 1 # comment\n, two", "C 1,, 2", "C 'a' opt true", "C x opt 3.0e1", "C 1 opt"],
    "GD": ['import "lib.gd"; item m; ref a; ref m;', 'import "lib2.gd"; ref c; ref c;', 'import "lib.gd"; ref zz;',
           'import "broken.gd"; item q;', 'import "missing.gd"; item q;', "item p = 2.0; ref p;",
           'import "cyc.gd"; item r; ref s;', "item ; ", 'import "lib.gd"; item mperr; ref b;', 'import "lib.gd"; item bad; ref a;',
           "item y; ref p;"],
    "GE": ["12", "true", "item a 3", "3.5", "item a x", "item boom 4", "item c 13", "item nope 1"],
    "GH": ["H item a = 1; item b;", "H item ;", "H item a = 13;", "H"],
    # GF: the root value is whatever the object processors of the match rules return (Decimal, Fraction, tuple, frozenset,
    # list, a plain Python object) or an Item
    "GF": ["item a 3", "12.5mm", "3:4", "item b 7", "item", "7mm", "12.5 mm", "10:2", "item c 13", "item nope 2"],
}
EXTRA_FILES = {"lib.gd": "item a = 1.5; item b;", "lib2.gd": 'import "lib.gd"; item c;', "broken.gd": "item ;",
               "cyc.gd": 'import "GD_6.gd"; item s; ref r;'}


def all_files():
    files = dict(EXTRA_FILES)
    for g, ins in INPUTS.items():
        for k, t in enumerate(ins):
            files["%s_%d.%s" % (g, k, g.lower())] = t
    return files


FILES = all_files()
FILE_IDS = {n: i for i, n in enumerate(sorted(FILES))}


def cls_id(g, key):
    return GRAMS.index(g) * 8 + CLS_KEYS.index(key)


# ------------------------------------------------------------------ generators
def rand_cfg(r, g=None):
    g = g or r.weighted([("GA", 5), ("GB", 5), ("GC", 3), ("GD", 4), ("GE", 3), ("GF", 5), ("GH", 3)])
    cfg = {"g": g}
    if r.chance(0.45):
        cfg["memo"] = True
    avail = CLS_FOR[g]
    cl = []
    if avail and r.chance(0.65):
        items = [k for k in avail if k.startswith("Item:")]
        if items and r.chance(0.85):
            cl.append(r.choice(items))
        for k in avail:
            if not k.startswith("Item:") and r.chance(0.3):
                cl.append(k)
    if cl:
        cfg["classes"] = cl
    objp = []
    if g == "GF":          # what the root rule yields for its match-rule alternatives
        m = r.weighted([("Measure:decimal", 4), ("Measure:fraction", 2), ("Measure:obj", 2), (None, 1)])
        q = r.weighted([("Pair:tuple", 4), ("Pair:frozenset", 2), ("Pair:list", 2), (None, 1)])
        objp += [x for x in (m, q) if x]
    if g in ("GA", "GB", "GE", "GF", "GH") and r.chance(0.5):
        # base-type processors: a conversion, or a rejection that raises in the middle of the object-graph construction
        objp.append(r.weighted([("INT:inc", 2), ("INT:no13", 3), ("ID:nope", 2)]))
    if g in ("GB", "GC") and r.chance(0.3):
        objp.append("STRING:up")
    if g != "GC" and r.chance(0.45):
        objp.append(r.choice(["Item:check", "Item:mark", "Item:raise"]))
    if objp:
        cfg["objp"] = objp
    mp = [p for p in ("count", "bump", "raise") if r.chance(0.3)]
    if mp:
        cfg["modelp"] = mp
    if g == "GA" and r.chance(0.5):
        cfg["nest"] = True      # hooks (scope provider, object processor, model processor) that can start a load
    if g == "GD":
        cfg["provider"] = r.choice(["plain", "fqn"])
    if r.chance(0.5 if g == "GD" else 0.15):
        cfg["repo"] = True
    if r.chance(0.15):
        cfg["auto_init"] = False
    if r.chance(0.1):
        cfg["tools"] = True
    if r.chance(0.12):
        cfg["debug"] = True
    if r.chance(0.1):
        cfg["from_file"] = True
    return cfg


def bad_cfg(r):
    cfg = {"g": r.choice(["BAD1", "BAD2", "BAD3", "BAD4", "BAD5", "BAD6", "BAD7"])}
    if r.chance(0.5):
        cfg["memo"] = True
    if r.chance(0.1):
        cfg["debug"] = True
    return cfg


VIA_FIXED = False     # quick tier: the access path is a function of the input, so fresh evaluations are shared


def rand_load(r, cfg, slot, last):
    g = cfg["g"]
    n = len(INPUTS[g])
    if last is not None and last[0] == g and r.chance(0.3):
        k = last[1]
    else:
        k = r.below(n)
    if g == "GF" and r.chance(0.6):
        # alternate between inputs whose model is a non-textX value and inputs that instantiate the (user) class
        items, values = [0, 3], [1, 2, 5, 7]
        k = r.choice(values if last is None or last[0] != g or last[1] in items else items)
    via = r.weighted([("file", 6), ("strfn", 3), ("str", 1)]) if g == "GD" else r.weighted([("str", 5), ("file", 3), ("strfn", 2)])
    if VIA_FIXED:
        via = (["file", "strfn", "file"] if g == "GD" else ["str", "file", "strfn"])[(k + len(g) + GRAMS.index(g)) % 3]
    return {"op": "load", "slot": slot, "g": g, "k": k, "via": via}


def make_pool(r, n):
    """the run's pool of metamodel configurations (histories draw from it, so fresh evaluations are shared)"""
    pool = []
    for i, g in enumerate(["GA", "GB", "GD", "GF", "GC", "GE", "GH"][:n]):
        pool.append(rand_cfg(r, g))
    gf = next(c for c in pool if c["g"] == "GF")      # always a user class with its own attribute methods where the root
    if not any(k in gf.get("classes", []) for k in ("Item:set", "Item:get")):   # rule can yield non-textX values
        gf["classes"] = [r.choice(["Item:set", "Item:get"])]
    while len(pool) < n:
        pool.append(rand_cfg(r))
    next(c for c in pool if c["g"] == "GA")["nest"] = True
    gd = next(c for c in pool if c["g"] == "GD")      # always one multi-file configuration with a global repository
    gd["repo"] = True
    if r.chance(0.5):
        gd["classes"] = sorted(set(gd.get("classes", []) + ["Model:plain"]))
    twins = []
    for base in r.sample([c for c in pool if c.get("classes")] or pool, 2):
        twin = dict(base)           # same grammar and the same (shared) user classes, other options
        twin["memo"] = not base.get("memo", False)
        if r.chance(0.5):
            twin.pop("objp", None)
        twins.append((base, twin))
    bad = [bad_cfg(r), bad_cfg(r)]
    return {"cfgs": pool, "twins": twins, "bad": bad}


def gen_history(r, maxops, pool):
    cfgs = r.sample(pool["cfgs"], r.range(2, 3))
    if r.chance(0.5):
        base, twin = r.choice(pool["twins"])
        if base not in cfgs:
            cfgs.append(base)
        cfgs.append(twin)
    if r.chance(0.6):
        cfgs.append(r.choice(pool["bad"]))
    nslots = r.range(1, 3)
    slot_cfg = {}
    ops = []
    last = None
    good = [i for i, c in enumerate(cfgs) if not c["g"].startswith("BAD")]
    first = r.choice(good)
    ops.append({"op": "new", "slot": 0, "cfg": first})
    slot_cfg[0] = first
    for _ in range(r.range(3, maxops - 1)):
        if r.chance(0.27):
            ci = r.below(len(cfgs))
            s = r.below(nslots)
            ops.append({"op": "new", "slot": s, "cfg": ci})
            if ci in good:
                slot_cfg[s] = ci
        else:
            s = r.choice(sorted(slot_cfg)) if not r.chance(0.03) else nslots
            if s in slot_cfg:
                op = rand_load(r, cfgs[slot_cfg[s]], s, last)
                last = (op["g"], op["k"])
                if cfgs[slot_cfg[s]].get("nest") and r.chance(0.4):
                    # this load starts another one from a scope provider / object processor / model processor
                    op["k"] = r.choice([0, 1, 9, 10, 2])
                    s2 = r.choice(sorted(slot_cfg))
                    inner = rand_load(r, cfgs[slot_cfg[s2]], s2, None)
                    op["nest"] = {"phase": r.choice(["provider", "objproc", "modelproc"]), "slot": s2, "g": inner["g"], "k": inner["k"], "via": inner["via"]}
                ops.append(op)
            else:
                ops.append({"op": "load", "slot": s, "g": "GA", "k": 0, "via": "str"})
    return {"cfgs": cfgs, "ops": ops}


def corpus_cases():
    d = os.path.join(core.VERIF, "corpus", "C16")
    out = []
    if os.path.isdir(d):
        for f in sorted(os.listdir(d)):
            if f.endswith(".json"):
                c = json.load(open(os.path.join(d, f)))
                c["kind"] = "corpus:" + f
                out.append(c)
    return out


def enum_cases(depth):
    """all histories of length <= depth over 3 metamodels x 3 inputs (after creating the three metamodels)"""
    cfgs = [{"g": "GB", "classes": ["Item:set"], "memo": True}, {"g": "GE", "classes": ["Item:plain"], "objp": ["INT:inc"]},
            {"g": "GB", "classes": ["Item:set"], "modelp": ["count"]}]
    loads = []
    for s, (g, ks) in enumerate([("GB", [0, 2, 4]), ("GE", [0, 2, 4]), ("GB", [1, 3, 5])]):
        for k in ks:
            loads.append({"op": "load", "slot": s, "g": g, "k": k, "via": "str"})
    alphabet = loads + [{"op": "new", "slot": 0, "cfg": 2}, {"op": "new", "slot": 2, "cfg": 0}]
    head = [{"op": "new", "slot": s, "cfg": s} for s in range(3)]
    out = []
    for n in range(1, depth + 1):
        for seq in itertools.product(alphabet, repeat=n):
            out.append({"cfgs": cfgs, "ops": head + [dict(o) for o in seq], "kind": "enum"})
    return out


# ------------------------------------------------------------------ jobs
def impl_op(op):
    if op["op"] == "new":
        return {"op": "new", "slot": op["slot"], "cfg": op["cfg"]}
    name = "%s_%d.%s" % (op["g"], op["k"], op["g"].lower())
    o = {"op": "load", "slot": op["slot"], "input": INPUTS[op["g"]][op["k"]], "via": op["via"], "file": name}
    if op.get("nest"):
        n = op["nest"]
        o["nest"] = {"phase": n["phase"], "slot": n["slot"], "input": INPUTS[n["g"]][n["k"]], "via": n["via"],
                     "file": "%s_%d.%s" % (n["g"], n["k"], n["g"].lower())}
    return o


def files_for(ops):
    """only the files the operations can touch (process creation and file I/O dominate the run time)"""
    files = {}
    ops = list(ops) + [dict(o["nest"], op="load") for o in ops if o.get("nest")]
    for o in ops:
        if o["op"] == "load":
            name = "%s_%d.%s" % (o["g"], o["k"], o["g"].lower())
            files[name] = FILES[name]
            if o["g"] == "GD":
                files.update(EXTRA_FILES)
                files["GD_6.gd"] = FILES["GD_6.gd"]
    return files


def job_of(case):
    return {"files": files_for(case["ops"]), "cfgs": case["cfgs"], "ops": [impl_op(o) for o in case["ops"]]}


def ckey(cfg):
    return json.dumps(cfg, sort_keys=True)


def fresh_key(case, slot_cfg, op):
    if op["op"] == "new":
        return ("new", ckey(case["cfgs"][op["cfg"]]))
    if op["slot"] not in slot_cfg:
        return None
    base = ("load", ckey(case["cfgs"][slot_cfg[op["slot"]]]), op["g"], op["k"], op["via"])
    if op.get("nest"):
        n = op["nest"]
        inner = ckey(case["cfgs"][slot_cfg[n["slot"]]]) if n["slot"] in slot_cfg else None
        return ("nest",) + base[1:] + (n["phase"], n["slot"] == op["slot"], inner, n["g"], n["k"], n["via"])
    return base


def inner_key(case, slot_cfg, op):
    """the load a nested operation starts, as a top-level load of its own (what it has to be equal to)"""
    n = op.get("nest")
    if not n or op["slot"] not in slot_cfg or n["slot"] not in slot_cfg:
        return None
    return ("load", ckey(case["cfgs"][slot_cfg[n["slot"]]]), n["g"], n["k"], n["via"])


def fresh_job(key):
    cfg = json.loads(key[1])
    cfgs = [cfg]
    ops = [{"op": "new", "slot": 0, "cfg": 0}]
    if key[0] == "load":
        ops.append({"op": "load", "slot": 0, "g": key[2], "k": key[3], "via": key[4]})
    elif key[0] == "nest":
        phase, same, inner, g2, k2, via2 = key[5:]
        if not same and inner is not None:
            cfgs.append(json.loads(inner))
            ops.append({"op": "new", "slot": 1, "cfg": 1})
        ops.append({"op": "load", "slot": 0, "g": key[2], "k": key[3], "via": key[4],
                    "nest": {"phase": phase, "slot": 0 if same else 1, "g": g2, "k": k2, "via": via2}})
    return {"files": files_for(ops), "cfgs": cfgs, "ops": [impl_op(o) for o in ops]}


def run_jobs(jobs):
    if not jobs:
        return []
    n = min(core.NPROC, len(jobs))
    chunks = [jobs[i::n] for i in range(n)]
    outs = core.run_impl_parallel("c16", [{"jobs": ch} for ch in chunks])
    res = [None] * len(jobs)
    for ci, o in enumerate(outs):
        for j, x in enumerate(o):
            res[ci + j * n] = x
    return res


def walk_slots(case, outs):
    """yield (index, op, cfg index of the slot before the op, fresh key); follows successful creations"""
    slot_cfg = {}
    for j, op in enumerate(case["ops"]):
        key = fresh_key(case, slot_cfg, op)
        yield j, op, dict(slot_cfg), key
        if op["op"] == "new" and outs is not None and "ok" in outs[j]["res"]:
            slot_cfg[op["slot"]] = op["cfg"]


# ------------------------------------------------------------------ Coq side
IMPORTS = """From TxV Require Import Core.Base Core.Show Model.History Gen.SrcHistory.
Open Scope string_scope.
Definition poisonC := {| k_kind := COk; k_dump := 0 |}.
Definition poisonL := {| l_kind := LOk; l_dump := 0; l_leak := []; l_files := [] |}.
Fixpoint alookup {A} (k : nat) (l : list (nat * A)) : option A :=
  match l with [] => None | (k', v) :: l' => if Nat.eqb k k' then Some v else alookup k l' end.
Definition mk_create (tab : list (nat * cres)) (c : cfg) (g : gview) : cres :=
  match gv_cache g with [] => match alookup (c_opts c) tab with Some r => r | None => poisonC end | _ => poisonC end.
Definition fresh_like (c : cfg) (v : view) : bool :=
  (negb (v_bp_dirty v) && (match v_caches v with [] => true | _ => false end) && negb (v_stale v)
  && forallb (fun g => match g with Some g => Nat.eqb g (c_gram c) | None => false end) (v_cgram v) && Bool.eqb (v_memo v) (c_memo c))%bool.
Definition mk_load (tab : list (nat * list (nat * lres))) (c : cfg) (i : nat) (v : view) : lres :=
  if fresh_like c v then match alookup (c_opts c) tab with Some t => match alookup i t with Some r => r | None => poisonL end | None => poisonL end else poisonL.
Definition show_out (o : out) : string :=
  match o with OCreate r => "C" ++ show_nat (k_dump r) | OLoad r => "L" ++ show_nat (l_dump r) | ONoSlot => "N"
  | ONest r (OLoad r2) => "L" ++ show_nat (l_dump r) ++ "/L" ++ show_nat (l_dump r2) | ONest r _ => "L" ++ show_nat (l_dump r) ++ "/N" end.
Definition show_gp (st : pst) : string :=
  sjoin "," (map (fun k => match gparsers st (fst k) (snd k) with
                           | Some gp => show_bool (fst k) ++ show_bool (gp_memo gp) ++ show_nat (List.length (gp_cache gp)) | None => "?" end) (gp_keys st)).
Definition show_slot (st : pst) (s : nat) : string :=
  match slots st s with None => "-" | Some m => show_nat (m_ser m) ++ ":" ++ show_bool (m_bp_dirty m) ++ ":" ++ show_nat (List.length (m_cache m)) ++ ":" ++
    (if c_repo (m_cfg m) then sjoin "." (map show_nat (m_repo m)) else "x") ++ (if m_stale m then "!stale" else "") end.
Definition show_cls (st : pst) (id : nat) : string :=
  let u := classes st id in show_nat (u_instr u) ++ ":" ++ show_nat (u_store u) ++ ":" ++ show_nat (u_owner u).
Definition show_st (ss cs : list nat) (st : pst) : string :=
  "gp=" ++ show_gp st ++ ";bc=" ++ show_nat (List.length (base_cache st)) ++ ";own=" ++ show_nat (base_owner st) ++ ";S=" ++ sjoin "," (map (show_slot st) ss)
  ++ ";K=" ++ sjoin "," (map (show_cls st) cs).
Fixpoint trace (co : cfg -> gview -> cres) (lo : cfg -> nat -> view -> lres) (st : pst) (ops : list op) (ss cs : list nat) : list string :=
  match ops with [] => [] | o :: ops' => let '(st1, x) := step src_facts co lo st o in (show_out x ++ "|" ++ show_st ss cs st1) :: trace co lo st1 ops' ss cs end.
Definition go ctab ltab ops ss cs : string := sjoin " # " (trace (mk_create ctab) (mk_load ltab) init ops ss cs).
"""

LK = {"imm": "LOkImm", "importsyntax": "LImportSyntax", "syntax": "LSyntax", "before": "LBeforeEnd", "after": "LAfterEnd", "modelproc": "LModelProc", "prim": "LOkPrim", "ok": "LOk"}


def c_nats(xs):
    return "[" + "; ".join(str(x) for x in xs) + "]"


def c_cfg(cfg, idx):
    g = cfg["g"]
    cl = [cls_id(g, k) for k in cfg.get("classes", [])]
    return "{| c_gram := %d; c_memo := %s; c_debug := %s; c_base := %s; c_classes := %s; c_repo := %s; c_root_user := %s; c_opts := %d |}" % (
        GRAMS.index(g), core.coq_bool(cfg.get("memo", False)), core.coq_bool(cfg.get("debug", False)), core.coq_bool(g in USES_BASE),
        c_nats(cl), core.coq_bool(cfg.get("repo", False)), core.coq_bool("Model:plain" in cfg.get("classes", [])), idx)


def load_kind(o):
    """phase of the outcome, from what the fresh run did (events recorded by the runner)"""
    res, ev = o["res"], o["ev"]
    if "ok" in res:
        return "prim" if res.get("prim") else ("imm" if res.get("imm") else "ok")
    if "R" not in ev:
        return "syntax"
    if "M" in ev:
        return "modelproc"
    if "E" in ev:
        return "after"
    return "importsyntax" if res["err"]["exc"] == "TextXSyntaxError" else "before"


class Ids:
    def __init__(self):
        self.t = {}

    def get(self, x):
        k = json.dumps(x, sort_keys=True)
        if k not in self.t:
            self.t[k] = len(self.t) + 1
        return self.t[k]


def input_id(op):
    return (GRAMS.index(op["g"]) * 16 + op["k"]) * 4 + ["str", "file", "strfn"].index(op["via"])


def model_input_id(op, j):
    """a load that starts another load is an input of its own for the outer oracle"""
    return 900 + j if op.get("nest") else input_id(op)


def model_expr(case, outs, fresh, ids):
    """Coq expression evaluating the state machine on this history with the fresh-run oracle tables."""
    ctab, ltab = [], {}
    for j, op, slot_cfg, key in walk_slots(case, outs):
        if key is None:
            continue
        fo = fresh[key]
        if op["op"] == "new":
            r = fo[0]["res"]
            kind = "COk" if "ok" in r else ("CSyntax" if r["err"]["exc"] == "TextXSyntaxError" else "CLate")
            ctab.append("(%d, {| k_kind := %s; k_dump := %d |})" % (op["cfg"], kind, ids.get(r)))
        else:
            def entry(ci, o, iid):
                cfg = case["cfgs"][ci]
                cl = cfg.get("classes", [])
                leak = [o["st"]["cls"].get(cfg["g"] + "/" + k, {"store": 0})["store"] for k in cl]
                kind = load_kind(o)
                if "ok" in o["res"] or kind == "modelproc":
                    files = ((o["st"]["slots"].get("0") or {}).get("repo") or [])
                else:
                    files = o["opened"]
                plain = {k: v for k, v in o["res"].items() if k != "inner"}
                ltab.setdefault(ci, {})[iid] = "(%d, {| l_kind := %s; l_dump := %d; l_leak := %s; l_files := %s |})" % (
                    iid, LK[kind], ids.get(plain), c_nats(leak), c_nats(sorted(FILE_IDS[f] for f in files if f in FILE_IDS)))
            entry(slot_cfg[op["slot"]], fo[-1], model_input_id(op, j))
            ik = inner_key(case, slot_cfg, op)
            if ik is not None:
                entry(slot_cfg[op["nest"]["slot"]], fresh[ik][1], input_id(op["nest"]))
    ops = []
    for j, op in enumerate(case["ops"]):
        if op["op"] == "new":
            ops.append("New %d %s" % (op["slot"], c_cfg(case["cfgs"][op["cfg"]], op["cfg"])))
        elif op.get("nest") and outs[j]["res"].get("inner") is not None:
            n = op["nest"]
            ops.append("Nested %d %d %s %d %d" % (op["slot"], model_input_id(op, j), "PhProvider" if n["phase"] == "provider" else "PhAfter",
                                                  n["slot"], input_id(n)))
        else:      # no nested load happened (the hook was not reached)
            ops.append("Load %d %d" % (op["slot"], model_input_id(op, j)))
    ss = sorted({op["slot"] for op in case["ops"]})
    cs = sorted({cls_id(c["g"], k) for c in case["cfgs"] for k in c.get("classes", [])})
    lt = core.coq_list(["(%d, %s)" % (ci, core.coq_list(list(t.values()))) for ci, t in sorted(ltab.items())])
    return "go %s %s %s %s %s" % (core.coq_list(ctab), lt, core.coq_list(ops), c_nats(ss), c_nats(cs)), ss, cs


def impl_state_fields(case, outs, j, ss, cs, born):
    """the implementation's persistent state after operation j, in the vocabulary of the model"""
    st = outs[j]["st"]
    f = {}
    f["gp"] = sorted("%s%s" % ("T" if d else "F", "T" if m else "F") for d, m in st["gp"])
    f["gpc"] = st["gpc"]
    f["bc"] = st["basec"]
    f["own"] = st["owner"]
    for s in ss:
        x = st["slots"].get(str(s))
        if x is None:
            f["S%d" % s] = "-"
        else:
            repo = "x" if x["repo"] is None else ".".join(str(i) for i in sorted(FILE_IDS.get(n, 999) for n in x["repo"]))
            f["S%d" % s] = "%d:%s:%d:%s" % (x["ser"], "T" if x["bp"] != born.get((s, x["ser"]), x["bp"]) else "F", x["rc"], repo)
    inv = {cls_id(c["g"], k): c["g"] + "/" + k for c in case["cfgs"] for k in c.get("classes", [])}
    for c in cs:
        x = st["cls"].get(inv[c])
        f["K%d" % c] = "0:0:0" if x is None else "%d:%d:%d" % (x["instr"], x["store"], x["owner"])
    return f


def model_state_fields(text, ss, cs):
    out, _, st = text.partition("|")
    f = {"out": out}
    parts = dict(p.split("=", 1) for p in st.split(";"))
    gps = [g for g in parts["gp"].split(",") if g]
    f["gp"] = sorted(g[:2] for g in gps)
    f["gpc"] = sum(int(g[2:]) for g in gps)
    f["bc"] = int(parts["bc"])
    f["own"] = [int(parts["own"])]
    for s, x in zip(ss, parts["S"].split(",")):
        if x != "-":
            a = x.split(":")
            stale = a[3].endswith("!stale")
            a[3] = a[3].replace("!stale", "")
            if a[3] not in ("x", ""):
                a[3] = ".".join(str(i) for i in sorted(int(t) for t in a[3].split(".")))
            x = ":".join(a) + ("!stale" if stale else "")
        f["S%d" % s] = x
    for c, x in zip(cs, parts["K"].split(",") if parts["K"] else []):
        f["K%d" % c] = x
    return f


def store_only_lower(key, m, i):
    """per-object storage is keyed by id(obj): an entry left by a failed load can be overwritten when a later object
    reuses the address, so the implementation may hold fewer (never more, never none) entries than the model's sum"""
    if not key.startswith("K") or m is None:
        return False
    a, b = m.split(":"), i.split(":")
    return a[0] == b[0] and a[2] == b[2] and 0 < int(b[1]) < int(a[1])


# ------------------------------------------------------------------ the check
def key_grams(k):
    gs = {json.loads(k[1])["g"]}
    if k[0] == "nest" and k[7] is not None:
        gs.add(json.loads(k[7])["g"])
    return gs


def key_classes(k):
    """the process-wide objects an evaluation shares with evaluations of other metamodels: its user classes"""
    cs = set()
    for c in [k[1]] + ([k[7]] if k[0] == "nest" and k[7] is not None else []):
        c = json.loads(c)
        cs |= {c["g"] + "/" + x for x in c.get("classes", [])}
    return cs


def fresh_eval(keys, batch):
    """Fresh-state results for the keys.  Process creation dominates the run time, so up to `batch` evaluations share one
    child forked from the pristine process - only evaluations with pairwise disjoint user classes: each builds its own
    metamodel (own parser model, blueprint, repository) in slots of its own."""
    groups = []
    for k in keys:
        gs = key_classes(k)
        for g in groups:
            if len(g["keys"]) < batch and not (g["grams"] & gs):
                g["keys"].append(k)
                g["grams"] |= gs
                break
        else:
            groups.append({"keys": [k], "grams": set(gs)})
    jobs, layout = [], []
    for g in groups:
        job = {"files": {}, "cfgs": [], "ops": []}
        lay = []
        for t, k in enumerate(g["keys"]):
            j = fresh_job(k)
            coff, soff = len(job["cfgs"]), 2 * t
            for o in j["ops"]:
                o = dict(o)
                o["slot"] += soff
                if o["op"] == "new":
                    o["cfg"] += coff
                if o.get("nest"):
                    o["nest"] = dict(o["nest"], slot=o["nest"]["slot"] + soff)
                job["ops"].append(o)
            job["cfgs"] += j["cfgs"]
            job["files"].update(j["files"])
            lay.append((k, len(j["ops"]), soff))
        jobs.append(job)
        layout.append(lay)
    outs = run_jobs(jobs)
    fresh = {}
    for lay, out in zip(layout, outs):
        if isinstance(out, dict):
            raise RuntimeError("runner error (fresh): %s" % out.get("runner_error"))
        pos = 0
        for k, n, soff in lay:
            part = []
            for x in out[pos:pos + n]:
                x = dict(x)
                st = dict(x["st"])
                st["slots"] = {str(int(sl) - soff): v for sl, v in st["slots"].items() if soff <= int(sl) < soff + 2}
                x["st"] = st
                part.append(x)
            fresh[k] = part
            pos += n
    return fresh, len(jobs)


def fresh_view_of(outs, k):
    """what the check uses of a fresh evaluation: results, events, files opened, repository contents, and the counters and
    storage sizes of its own user classes"""
    own = key_classes(k)
    return [{"res": x["res"], "ev": x["ev"], "opened": x["opened"],
             "repo": {s: v["repo"] for s, v in x["st"]["slots"].items()},
             "store": {c: (v["instr"], v["store"]) for c, v in x["st"]["cls"].items() if c in own}} for x in outs]


def evaluate(chk, cases, failures, disagreements, spawn_check=0, alone_check=0, batch=1):
    import time
    t0 = time.time()
    jobs = [job_of(c) for c in cases]
    outs_all = run_jobs(jobs)
    chk.notes.append("histories run: %d in %.0fs" % (len(jobs), time.time() - t0))
    need = {}
    for c, outs in zip(cases, outs_all):
        if isinstance(outs, dict):
            raise RuntimeError("runner error: %s" % outs.get("runner_error"))
        for j, op, slot_cfg, key in walk_slots(c, outs):
            if key is not None:
                need.setdefault(key, None)
                ik = inner_key(c, slot_cfg, op)
                if ik is not None:
                    need.setdefault(ik, None)
    with_load = {k[1] for k in need if k[0] == "load"}
    keys = sorted((k for k in need if k[0] != "new" or k[1] not in with_load), key=lambda k: json.dumps(k))
    fresh, nforks = fresh_eval(keys, batch)
    for k in keys:                       # the creation half of a [new, load] evaluation is the fresh creation result
        if k[0] == "load" and ("new", k[1]) in need and ("new", k[1]) not in fresh:
            fresh[("new", k[1])] = fresh[k][:1]
    chk.stat("fresh evaluations", len(keys))
    chk.stat("processes forked from a pristine process for them", nforks)
    chk.notes.append("fresh evaluations done at %.0fs" % (time.time() - t0))
    # evaluations that shared a forked child (pairwise different grammars, hence different metamodels, user classes and
    # parser models) are re-done for a sample, each alone in its own child; in thorough also in newly started interpreters
    rs = chk.rng.split("spawn")
    if batch > 1 and alone_check:
        sample = rs.sample(keys, min(alone_check, len(keys)))
        alone, _ = fresh_eval(sample, 1)
        for k in sample:
            chk.stat("fresh evaluations repeated alone in a forked child")
            if fresh_view_of(alone[k], k) != fresh_view_of(fresh[k], k):
                disagreements.append({"case": {"fresh": k}, "impl": fresh_view_of(alone[k], k), "model": fresh_view_of(fresh[k], k),
                                      "what": "a fresh evaluation sharing a child with evaluations of other metamodels differs from the evaluation alone"})
    if spawn_check:
        sample = rs.sample(keys, min(spawn_check, len(keys)))
        again = core.run_impl_parallel("c16", [{"jobs": [fresh_job(k)]} for k in sample])
        for k, a in zip(sample, again):
            chk.stat("fresh evaluations repeated in a newly started interpreter")
            if fresh_view_of(a[0], k) != fresh_view_of(fresh[k], k):
                disagreements.append({"case": {"fresh": k}, "impl": fresh_view_of(a[0], k), "model": fresh_view_of(fresh[k], k),
                                      "what": "forked and spawned fresh evaluation differ"})
    ids = Ids()
    exprs, meta = [], []
    for c, outs in zip(cases, outs_all):
        e, ss, cs = model_expr(c, outs, fresh, ids)
        exprs.append(e)
        meta.append((ss, cs))
    chk.notes.append("model evaluation starts at %.0fs" % (time.time() - t0))
    ngroups = max(1, min(core.NPROC, len(exprs) // 24))          # few coqc processes: start-up dominates
    groups = [exprs[i::ngroups] for i in range(ngroups)]
    gvals, errs = core.coq_eval("C16", IMPORTS, ['sjoin " @@ " %s' % core.coq_list(["(%s)" % e for e in g]) for g in groups], shard=1)
    vals = [None] * len(exprs)
    for gi, gv in enumerate(gvals):
        if gv is not None:
            parts = gv.split(" @@ ")
            if len(parts) == len(groups[gi]):
                for j, x in enumerate(parts):
                    vals[gi + j * ngroups] = x
            else:
                errs.append("group %d: %d results for %d histories" % (gi, len(parts), len(groups[gi])))
    chk.notes.append("model evaluation done at %.0fs" % (time.time() - t0))
    if errs:
        disagreements.append({"case": "coq evaluation", "model": errs[:2]})
    for c, outs, mv, (ss, cs) in zip(cases, outs_all, vals, meta):
        kind = c.get("kind", "random")
        chk.stat("history:" + kind.split(":")[0])
        nload = sum(1 for o in c["ops"] if o["op"] == "load")
        nfail = sum(1 for o in outs if "err" in o["res"])
        multi = len({o["slot"] for o in c["ops"]}) > 1
        chk.count(json.dumps([c["cfgs"], c["ops"]], sort_keys=True), nontrivial=nload >= 2 and (nfail >= 1 or multi))
        chk.stat("ops", len(c["ops"]))
        first_bad = None
        born = {}
        for j, op, slot_cfg, key in walk_slots(c, outs):
            o = outs[j]
            if op["op"] == "new" and "ok" in o["res"]:
                x = o["st"]["slots"][str(op["slot"])]
                born[(op["slot"], x["ser"])] = x["bp"]
            if key is None:
                chk.stat("op:load-empty-slot")
                continue
            f = fresh[key][-1]
            if op["op"] == "new":
                chk.stat("op:new:" + ("ok" if "ok" in o["res"] else "fail"))
            else:
                chk.stat("op:load:" + load_kind(f) + ":" + op["via"])
            ik = inner_key(c, slot_cfg, op) if op["op"] == "load" else None
            inner = o["res"].get("inner") if ik is not None else None
            if inner is not None:
                chk.stat("op:nested:" + op["nest"]["phase"])
                top = fresh[ik][1]["res"]
                if inner != top and first_bad is None:
                    first_bad = j
                    failures.append({"case": {"cfgs": c["cfgs"], "ops": c["ops"][:j + 1]}, "impl": inner, "model": top, "tags": [],
                                     "what": "operation %d: the load started from a %s of another load answers differently than the same load "
                                             "at top level on a fresh process state" % (j, op["nest"]["phase"])})
            if o["res"] != f["res"] and first_bad is None:
                first_bad = j
                cfgi = op["cfg"] if op["op"] == "new" else slot_cfg[op["slot"]]
                failures.append({"case": {"cfgs": c["cfgs"], "ops": c["ops"][:j + 1]}, "impl": o["res"], "model": f["res"], "tags": [],
                                 "what": "operation %d (%s with configuration %s) answers differently after this history than on a fresh process state"
                                         % (j, json.dumps(op), json.dumps(c["cfgs"][cfgi]))})
        if mv is None:
            continue
        steps = mv.split(" # ")
        if len(steps) != len(outs):
            disagreements.append({"case": c, "model": mv, "what": "model trace length"})
            continue
        for j, (text, o) in enumerate(zip(steps, outs)):
            mf = model_state_fields(text, ss, cs)
            imf = impl_state_fields(c, outs, j, ss, cs, born)
            r = o["res"]
            if r.get("ok") == "noslot":
                want = "N"
            elif c["ops"][j]["op"] == "new":
                want = "C" + str(ids.get(r))
            else:
                want = "L" + str(ids.get({k: v for k, v in r.items() if k != "inner"}))
                if r.get("inner") is not None:
                    want += "/N" if r["inner"].get("ok") == "noslot" else "/L" + str(ids.get(r["inner"]))
            diffs = [k for k in imf if mf.get(k) != imf[k] and not store_only_lower(k, mf.get(k), imf[k])]
            if mf["out"] != want:
                diffs.append("result")
            if diffs:
                disagreements.append({"case": {"cfgs": c["cfgs"], "ops": c["ops"][:j + 1]}, "what": "after operation %d: %s" % (j, ",".join(diffs)),
                                      "impl": {k: imf.get(k) for k in diffs if k != "result"}, "model": {k: mf.get(k) for k in diffs if k != "result"},
                                      "impl_result": r, "model_result": mf["out"], "want_result": want})
                break
        if chk.cov["evaluations"] % 40 == 3:
            chk.sample({"cfgs": c["cfgs"], "ops": c["ops"], "results": [json.dumps(o["res"])[:90] for o in outs]})


def run(chk):
    chk.prove([history_tr.translate])
    failures, disagreements = [], []
    cases = corpus_cases()
    global VIA_FIXED
    VIA_FIXED = not chk.thorough
    nrand = 60 if chk.thorough else 6
    pool = make_pool(chk.rng.split("pool"), 12 if chk.thorough else 6)
    for i in range(nrand):
        r = chk.rng.split(i)
        c = gen_history(r, 14 if chk.thorough else 10, pool)
        c["kind"] = "random"
        cases.append(c)
    cases += enum_cases(2) if chk.thorough else enum_cases(1)[::2]
    evaluate(chk, cases, failures, disagreements, spawn_check=8 if chk.thorough else 0, alone_check=8 if chk.thorough else 3,
             batch=4 if chk.thorough else 6)
    chk.cov["rule"] = ("corpus + %d random histories over a pool of %d configurations drawn for the run (2-5 metamodel configurations per history incl. a twin sharing the user classes and an invalid grammar, 1-3 slots, "
                       "up to %d operations: creations and loads via string/file/string+filename over valid inputs and inputs failing at the parse, before and after the end "
                       "of construction and in a model processor; root values that are textX objects, primitives, other immutable values and plain objects) + all (quick: every second) "
                       "histories of length <= %d over 3 metamodels x 3 inputs + 2 re-creations; every operation compared with "
                       "the same operation on a fresh process state; persistent state after every operation compared with Model/History.v; non-trivial = at least two loads and "
                       "(a failing operation or two slots); distinct by configuration list and operation list" % (nrand, len(pool["cfgs"]), 14 if chk.thorough else 10, 2 if chk.thorough else 1))
    chk.cov["exhaustive"] = False
    chk.assumptions += [
        "parsing, model construction, reference resolution and processors are oracles of the state machine (they may depend arbitrarily on the modelled view of the persistent state); "
        "their fresh-state values are measured by running the operation on a process state forked before any metamodel existed (a sample is repeated in newly started interpreters)",
        "cache_ok: the textX-grammar parser is memo-transparent (creation outcome independent of the memoization flag of the cached grammar parser) - hypothesis of C16_history_independent, "
        "validated here by creating metamodels (valid and invalid grammars) after a metamodel with the other flag; C16_memo_flag_visible shows it is necessary",
        "repo_blind (global_repository=True only): files do not change during a history; returning a cached model is not observable in the structural dump",
        "a user class is used only by configurations of the grammar it is written for (wf_op); nested loads started from inside processors are not modelled",
        "facts about the source are extracted by tools/translate/history_tr.py (ast shapes; fail closed), including arpeggio's Parser.parse clearing memo caches in finally",
    ]
    decide(chk, failures, disagreements)


def replay(rep):
    case = rep.get("case") or {}
    if "cfgs" not in case:
        print(json.dumps(rep, indent=1))
        return 0
    outs = run_jobs([job_of(case)])[0]
    bad = 0
    for j, op, slot_cfg, key in walk_slots(case, outs):
        if key is None:
            continue
        f = run_jobs([fresh_job(key)])[0][-1]
        same = outs[j]["res"] == f["res"]
        print("op %d %s\n   history: %s\n   fresh:   %s\n   %s" % (j, json.dumps(op), json.dumps(outs[j]["res"])[:400], json.dumps(f["res"])[:400],
                                                                  "same" if same else "DIFFERENT"))
        bad += 0 if same else 1
    print("property verdict: %s" % ("violated" if bad else "holds on this history"))
    return 1 if bad else 0
