"""C25 — grammar imports resolve rules in the documented order.

Cases are trees of grammar files (nested folders, diamonds, cycles, overlapping rule names,
qualified and unqualified references, odd import spellings, missing files).  Every case is
  * loaded by the real textX (tools/impl/c25.py) and evaluated on the Coq model
    (Model/Imports.v) -> canonical outcomes are diffed (correspondence), and
  * judged by the property oracle below, which is the documented resolution written
    directly in Python (independent of the Coq model) applied to what textX produced:
    resolved classes of every reference, class identity, _tx_fqn, metamodel[name] and the
    _tx_fqn of objects parsed from model texts that exercise each reachable reference.
"""
import json
import os

from vt import core
from vt.main import decide
from translate import imports_tr

BASE = "__base__"
BASE_NAMES = ["ID", "STRING", "BOOL", "INT", "FLOAT", "STRICTFLOAT", "NUMBER", "BASETYPE", "OBJECT"]
POOL = ["X", "Y", "Z", "W", "V"]
BASE_POOL = ["INT", "ID", "STRING"]
LEAF = {"INT": ("42", "py:int"), "ID": ("abc", "py:str"), "STRING": ('"s"', "py:str")}
FNAMES = ["a", "b", "c", "d", "e", "g"]
DIRS = ["", "", "", "p", "p", "p.q", "r"]
CLASSIFIER = "cyclic_back_reference"
LANGS = [["c25lang", ["Ext", "Other"]]]       # languages registered in the runner; `reference c25lang as l`


# ---------------------------------------------------------------- documented behaviour (oracle)
class FS(dict):
    """namespace -> file, plus the namespace of the main grammar"""
    main = None


def abs_import(cur, imp, main):
    # the main grammar sits in the root folder whatever its file name is (fixed 76155a4)
    name = (cur.rsplit(".", 1)[0] + "." + imp) if ("." in cur and cur != main) else imp
    return ".".join(p for p in name.split(".") if p)


def fs_map(case):
    fsm = FS((ns, f) for ns, f in case["fs"])
    fsm.main = case["mainns"]
    return fsm


def defines(fsm, ns, name):
    f = fsm.get(ns)
    return f is not None and any(r["name"] == name for r in f["rules"])


def spec_resolve(fsm, cur, name):
    """(namespace, rule) the name stands for in grammar `cur`, or None."""
    if "." in name:
        q, n = name.rsplit(".", 1)
        for alias, lang in fsm[cur].get("refs", []):
            if q == alias:          # an alias of a referenced language: resolved in that language's meta-model
                return ("@" + lang, n) if n in dict(LANGS).get(lang, []) else None
        if defines(fsm, q, n):
            return (q, n)
        return (BASE, n) if q == BASE and n in BASE_NAMES else None
    if defines(fsm, cur, name):
        return (cur, name)
    if name in BASE_NAMES:
        return (BASE, name)
    for imp in fsm[cur]["imports"]:
        a = abs_import(cur, imp, fsm.main)
        if defines(fsm, a, name):
            return (a, name)
    return None


def fqn_of(t):
    return t[1] if t[0] == BASE else t[0] + "." + t[1]


def aliases_of(f):
    return [a for a, _ in f.get("refs", [])]


def load_order(fsm, main):
    """Simulate which files get read (depth first, imports in order, each once) and which
    imports hit a grammar that is still being loaded.  Returns (order, missing, backs)."""
    order, backs, missing = [], [], []
    seen = {BASE}

    def go(ns, stack):
        if missing:
            return
        if ns not in fsm:
            missing.append(ns)
            return
        order.append(ns)
        for imp in fsm[ns]["imports"]:
            a = abs_import(ns, imp, fsm.main)
            if a in seen:
                if a in stack + [ns]:
                    backs.append((ns, a))
            else:
                seen.add(a)
                go(a, stack + [ns])
                if missing:
                    return
    seen.add(main)
    go(main, [])
    return order, missing, backs


def harmful_back_import(fsm, main):
    """Negation of the Coq predicate `safe`: a followed import (cur, a) of a grammar still being loaded
    such that some unqualified name written in cur is not cur's own, not a built-in, and defined by a."""
    order, missing, backs = load_order(fsm, main)
    for cur, a in backs:
        for r in fsm[cur]["rules"]:
            for kind, name in r["items"]:
                if "." not in name and not defines(fsm, cur, name) and name not in BASE_NAMES and defines(fsm, a, name):
                    return True
    return False


def classify(fsm, main):
    """Finding class: some grammar refers (unqualified, not defined by itself, not a built-in;
    or qualified) to a rule of a grammar that is still being loaded when it is imported/used."""
    order, missing, backs = load_order(fsm, main)
    # ancestors of every loaded file at the time of its second pass
    anc = {}

    def go(ns, stack, seen):
        anc[ns] = list(stack)
        for imp in fsm[ns]["imports"]:
            a = abs_import(ns, imp, fsm.main)
            if a not in seen and a in fsm:
                seen.add(a)
                go(a, stack + [ns], seen)
    if main in fsm and not missing:
        go(main, [], {BASE, main})
    for ns, stack in anc.items():
        if not stack:
            continue
        imps = [abs_import(ns, i, fsm.main) for i in fsm[ns]["imports"]]
        for r in fsm[ns]["rules"]:
            for kind, name in r["items"]:
                if "." in name:
                    q, n = name.rsplit(".", 1)
                    if q in stack and defines(fsm, q, n):
                        return True
                elif not defines(fsm, ns, name) and name not in BASE_NAMES:
                    if any(i in stack and defines(fsm, i, name) for i in imps):
                        return True
    return False


# ---------------------------------------------------------------- generator
def kw(fidx, name):
    return "k%d_%s" % (fidx, name)


def render(fsm_entry, fidx):
    lines = ["reference %s as %s" % (lang, a) if a != lang else "reference %s" % lang for a, lang in fsm_entry.get("refs", [])]
    lines += ["import %s" % i for i in fsm_entry["imports"]]
    for r in fsm_entry["rules"]:
        parts = ["'%s'" % kw(fidx, r["name"]), "t?='!'"]
        for k, (kind, name) in enumerate(r["items"]):
            rhs = name if kind == "r" else "[%s]" % name
            parts.append("('<%d' a%d=%s '>')?" % (k, k, rhs))
        lines.append("%s: %s;" % (r["name"], " ".join(parts)))
    return "\n".join(lines) + "\n"


def gen_case(r, i):
    nfiles = r.weighted([(2, 3), (3, 4), (4, 4), (5, 2), (6, 1)])
    mode = r.weighted([("valid", 7), ("mixed", 3)])
    cyclic = r.chance(0.3)
    nss = [r.choice(FNAMES)]               # the main grammar sits in the main folder
    if r.chance(0.12):
        nss[0] = r.choice(["my.", "p.", "v1."]) + nss[0]     # a main file name with a dot: `p.a.tx` next to the folder p/
    while len(nss) < nfiles:
        # the same file name may occur in several folders (p/b.tx and b.tx are different grammars)
        d = r.choice(DIRS)
        n = r.choice(FNAMES[:4]) if r.chance(0.5) else r.choice(FNAMES)
        ns = (d + "." + n) if d else n
        if ns not in nss:
            nss.append(ns)
    files = []
    for k, ns in enumerate(nss):
        nrules = r.weighted([(1, 3), (2, 4), (3, 2), (4, 1)])
        pool = list(POOL)
        if r.chance(0.15):
            pool += BASE_POOL
        rn = r.shuffle(pool)[:nrules]
        refs = []
        if r.chance(0.22):
            refs = [[r.choice(["l", "c25lang", "ext"]), "c25lang"]]
        files.append({"ns": ns, "refs": refs, "imports": [], "rules": [{"name": n, "items": []} for n in rn]})
    # imports: acyclic by construction (only files later in the list), optional back edges
    for k, f in enumerate(files):
        d = f["ns"].rsplit(".", 1)[0] + "." if ("." in f["ns"] and k > 0) else ""
        cands = [g for j, g in enumerate(files) if g["ns"].startswith(d) and (j > k or (cyclic and j != k and r.chance(0.5)) or (cyclic and j == k and r.chance(0.1)))]
        nimp = r.weighted([(0, 1), (1, 3), (2, 4), (3, 2)]) if k < len(files) - 1 else r.weighted([(0, 5), (1, 2), (2, 1)])
        if k == 0:
            nimp = max(nimp, 1)
        for g in r.shuffle(cands)[:nimp]:
            rel = g["ns"][len(d):]
            sp = r.weighted([("plain", 20), ("dd", 1), ("lead", 1), ("trail", 1)])
            if sp == "dd" and "." in rel:
                rel = rel.replace(".", "..", 1)
            elif sp == "lead":
                rel = "." + rel
            elif sp == "trail":
                rel = rel + "."
            f["imports"].append(rel)
        if r.chance(0.12) and f["imports"]:
            f["imports"].append(r.choice(f["imports"]))          # the same file imported twice
        if mode == "mixed" and r.chance(0.06):
            f["imports"].insert(r.below(len(f["imports"]) + 1), r.choice(["nofile", "p.nofile", BASE]))
    fsm = FS((f["ns"], f) for f in files)
    fsm.main = files[0]["ns"]
    # references
    for f in files:
        ns = f["ns"]
        imps = [abs_import(ns, x, fsm.main) for x in f["imports"]]
        visible = [x["name"] for x in f["rules"]]
        for a in imps:
            if a in fsm:
                visible += [x["name"] for x in fsm[a]["rules"]]
        for rule in f["rules"]:
            n = r.weighted([(0, 1), (1, 3), (2, 4), (3, 3), (4, 1)])
            for _ in range(n):
                kind = "r" if r.chance(0.75) else "c"
                ch = r.weighted([("vis", 60), ("qual", 18), ("base", 6 if kind == "r" else 0), ("alias", 30 if f["refs"] else 0),
                                 ("anyq", 5 if mode == "mixed" else 0), ("any", 6 if mode == "mixed" else 0),
                                 ("junk", 2 if mode == "mixed" else 0)])
                if ch == "vis":
                    name = r.choice(visible)
                elif ch == "qual":
                    a = r.choice([x for x in imps + [ns] if x in fsm])
                    name = a + "." + r.choice(fsm[a]["rules"])["name"]
                elif ch == "base":
                    name = r.choice(BASE_POOL)
                elif ch == "alias":
                    name = f["refs"][0][0] + "." + r.choice(["Ext", "Other"] if mode == "valid" or r.chance(0.8) else ["Nope"])
                elif ch == "anyq":
                    a = r.choice(files)
                    name = a["ns"] + "." + r.choice(POOL)
                elif ch == "any":
                    name = r.choice(POOL)
                else:
                    name = r.choice(["nons.X", "q.X", "a.b.c.X"])
                if kind == "c" and name in BASE_NAMES:
                    kind = "r"           # [INT] is rejected by the grammar language itself
                rule["items"].append([kind, name])
    return build_case(files, r.chance(0.3))


def build_case(files, nested_root):
    """files: list of {ns, imports, rules:[{name, items}]}; first is the main grammar."""
    fsm = FS((f["ns"], f) for f in files)
    main = files[0]["ns"]
    fsm.main = main
    prefix = "w/" if nested_root else ""
    phys = {}
    for k, f in enumerate(files):
        path = f["ns"] if k == 0 else f["ns"].replace(".", "/")     # the main file name may contain dots
        if k > 0 and prefix + path + ".tx" in phys:
            continue
        phys[prefix + path + ".tx"] = render(f, k)
    if nested_root:
        # decoys outside the main grammar's folder must never be picked up
        for k, f in enumerate(files[1:], 1):
            if "." not in f["ns"]:
                phys[f["ns"] + ".tx"] = "Decoy: 'decoy' t?='!';\n"
    fidx = {f["ns"]: k for k, f in enumerate(files)}
    # queries for metamodel[name]
    queries = list(POOL) + ["INT", "nope", "nons.X", "X."]
    for f in files:
        queries.append(f["ns"] + "." + f["rules"][-1]["name"])
    queries.append(files[-1]["ns"] + ".Nope")
    for a in aliases_of(files[0]):
        queries += [a + ".Ext", a + ".Nope"]
    # model texts exercising every reference reachable from the root rule (documented resolution)
    texts = []
    root = (main, files[0]["rules"][0]["name"])
    paths = {root: []}
    todo = [root]
    edges = []
    def tainted(node):
        # textX converts values of attributes whose class is NAMED like a built-in type, even
        # when it is a user rule; such objects cannot be instantiated (outside this property)
        if node[1] in BASE_NAMES:
            return True
        rule = next(x for x in fsm[node[0]]["rules"] if x["name"] == node[1])
        for kind, name in rule["items"]:
            t = spec_resolve(fsm, node[0], name)
            if t is not None and t[0] != BASE and t[1] in BASE_NAMES:
                return True
        return False

    if tainted(root):
        todo = []
    while todo:
        node = todo.pop(0)
        rule = next(x for x in fsm[node[0]]["rules"] if x["name"] == node[1])
        for k, (kind, name) in enumerate(rule["items"]):
            if kind != "r":
                continue
            t = spec_resolve(fsm, node[0], name)
            if t is None or (t[0] != BASE and t[0] not in fsm):
                continue
            if t[0] == BASE and t[1] not in LEAF:
                continue
            if t[0] != BASE and (t[1] in BASE_NAMES or tainted(t)):
                continue     # a user rule named like a built-in is converted by name (outside this property)
            edges.append((node, k, t))
            if t[0] != BASE and t not in paths:
                paths[t] = paths[node] + [(node, k)]
                todo.append(t)

    def text_for(chain, leaf):
        # chain: [(node, k), ...] from the root; leaf: final target
        s_open, s_close = [], []
        for node, k in chain:
            s_open.append("%s <%d" % (kw(fidx[node[0]], node[1]), k))
            s_close.append(">")
        inner = LEAF[leaf[1]][0] if leaf[0] == BASE else kw(fidx[leaf[0]], leaf[1])
        return " ".join(s_open + [inner] + s_close)

    for node, k, t in edges[:10]:
        chain = paths[node] + [(node, k)]
        expect = [fqn_of(n) for n, _ in chain] + [LEAF[t[1]][1] if t[0] == BASE else fqn_of(t)]
        texts.append({"text": text_for(chain, t), "path": [kk for _, kk in chain], "expect": expect})
    if not texts and not tainted(root):
        texts.append({"text": kw(0, root[1]), "path": [], "expect": [fqn_of(root)]})
    return {"files": phys, "main": prefix + main + ".tx", "mainns": main,
            "fs": [[f["ns"], {"refs": f.get("refs", []), "imports": f["imports"], "rules": f["rules"]}] for f in files],
            "queries": queries, "texts": texts}


def F(ns, imports, rules, refs=()):
    return {"ns": ns, "refs": [list(x) for x in refs], "imports": imports, "rules": [{"name": n, "items": [list(x) for x in items]} for n, items in rules]}


def corpus_cases():
    cs = []
    # the documented example: qualified rule reference overrides the search order (fixed 3299436)
    cs.append(build_case([F("a", ["component.types"], [("MyRule", [("r", "component.types.List"), ("r", "List"), ("c", "component.types.List")]), ("List", [])]),
                          F("component.types", [], [("List", [])])], False))
    # the same file imported under odd spellings is one namespace (fixed 87d10e6)
    cs.append(build_case([F("a", ["p.b", "p..b", ".p.b", "p.c"], [("Main", [("r", "X"), ("c", "a.Main"), ("r", "INT")])]),
                          F("p.b", ["c"], [("X", [("r", "Y"), ("r", "INT")])]),
                          F("p.c", [], [("Y", []), ("INT", [])])], False))
    # a main grammar whose file name contains a dot imports relative to its own folder (fixed 76155a4)
    cs.append(build_case([F("my.g", ["b", "p.c"], [("Main", [("r", "X"), ("r", "Y"), ("r", "my.g.Main")])]),
                          F("b", [], [("X", [])]),
                          F("p.c", ["d"], [("Y", [("r", "Z")])]),
                          F("p.d", [], [("Z", [])])], False))
    # rules of a referenced language through an alias (`reference c25lang as l`), next to grammar-file namespaces
    cs.append(build_case([F("a", ["b"], [("Main", [("r", "l.Ext"), ("c", "l.Other"), ("r", "b.Y"), ("r", "Y")])], refs=[("l", "c25lang")]),
                          F("b", [], [("Y", [("r", "c25lang.Other")])], refs=[("c25lang", "c25lang")])], False))
    # diamond with overriding names
    cs.append(build_case([F("a", ["b", "c"], [("Main", [("r", "X"), ("r", "Y"), ("r", "W"), ("r", "c.W")]), ("Y", [])]),
                          F("b", ["d"], [("X", [("r", "W")]), ("Y", [])]),
                          F("c", ["d"], [("Y", [("r", "W")]), ("W", [])]),
                          F("d", [], [("W", []), ("X", [])])], True))
    # harmless cycle: nobody refers back
    cs.append(build_case([F("a", ["b"], [("Main", [("r", "Y")]), ("X", [])]),
                          F("b", ["a"], [("Y", [("r", "Y")])])], False))
    # known finding witnesses (cycles with back references)
    for name in ("cycle_silent.json", "cycle_unexisting.json"):
        p = os.path.join(core.VERIF, "corpus", "C25", name)
        w = json.load(open(p))
        cs.append(build_case([F(*x) for x in w["files"]], False))
    return cs


# ---------------------------------------------------------------- Coq side
class Interner:
    """Every distinct text becomes one Coq definition (keeps the case terms small)."""

    def __init__(self):
        self.names = {}

    def __call__(self, text):
        if text not in self.names:
            self.names[text] = "s%d" % len(self.names)
        return self.names[text]

    def defs(self):
        return "\n".join("Definition %s : list N := %s." % (n, core.coq_str(t)) for t, n in self.names.items())


def coq_fs(case, S):
    ents = []
    for ns, f in case["fs"]:
        rules = []
        for rule in f["rules"]:
            rr = [S(n) for k, n in rule["items"] if k == "r"]
            cr = [S(n) for k, n in rule["items"] if k == "c"]
            rules.append("{| rname := %s; rrefs := %s; rcrefs := %s |}" % (S(rule["name"]), core.coq_list(rr), core.coq_list(cr)))
        refs = core.coq_list(["(%s, %s)" % (S(a), S(lang)) for a, lang in f.get("refs", [])])
        ents.append("(%s, {| grefs := %s; gimports := %s; grules := %s |})" % (S(ns), refs, core.coq_list([S(x) for x in f["imports"]]), core.coq_list(rules)))
    return core.coq_list(ents)


def coq_case(case, S):
    langs = core.coq_list(["(%s, %s)" % (S(l), core.coq_list([S(x) for x in rules])) for l, rules in LANGS])
    return "run_case %s %s %s %s" % (langs, coq_fs(case, S), S(case["mainns"]), core.coq_list([S(q) for q in case["queries"]]))


def coq_run(tag, cases):
    S = Interner()
    exprs = [coq_case(c, S) for c in cases]
    return core.coq_eval(tag, IMPORTS, exprs, shard=60, defs=S.defs())


IMPORTS = "From TxV Require Import Core.Base Core.Show Model.Imports Model.ImportsShow.\nOpen Scope string_scope."


def parse_model(s):
    d = {}
    for part in s.split("|"):
        k, _, v = part.partition(":")
        d[k] = v
    return d


def cl(x):
    return "None" if x is None else "%s#%d" % (core.canon_text(x[0]), x[1])


def canon_impl(case, o):
    """Canonical outcome of the implementation in the model's format (dict of fields)."""
    T = core.canon_text
    d = {"L": ",".join(T(x) for x in o["loads"]), "C": str(o["created"])}
    if "error" in o:
        d["E"] = o["error"]
        return d
    d["E"] = "ok"
    d["S"] = ";".join("%s{%s}" % (T(ns), ",".join("%s=%s" % (T(n), cl(c)) for n, c in ents)) for ns, ents in o["spaces"])
    d["I"] = ";".join("%s[%s]" % (T(ns), ",".join(T(x) for x in l)) for ns, l in o["imports"])
    ks = []
    for ns, rule, kind, name, acls, pcls in o["links"]:
        ks.append("%s/%s/%s/%s>%s" % (T(ns), T(rule), kind, T(name), cl(acls)))
    d["K"] = sorted(ks)
    d["Q"] = ";".join("%s>%s" % (T(q), cl(c)) for q, c in o["queries"])
    return d


def compare(case, o, mv):
    """Correspondence: list of differing fields (empty = agree)."""
    if mv is None:
        return ["model not evaluated"]
    m = parse_model(mv)
    i = canon_impl(case, o)
    diffs = []
    if m["E"] == "ok" or i["E"] == "ok":
        if m["E"] != i["E"]:
            return ["E: impl %r model %r" % (i["E"], m["E"])]
    else:
        kind, _, rest = m["E"].partition(":")
        if kind != i["E"][0]:
            diffs.append("E: impl %r model %r" % (i["E"], m["E"]))
        elif kind == "filenotfound":
            if rest != core.canon_text(i["E"][1]):
                diffs.append("E: impl %r model %r" % (i["E"], m["E"]))
        elif kind in ("unexisting", "unknowncls"):
            if core.canon_text(i["E"][1]) not in rest.partition(":")[2].split(","):
                diffs.append("E: impl %r model %r" % (i["E"], m["E"]))
        else:
            diffs.append("E: model %r" % m["E"])
    for k in ("L", "C"):
        if m[k] != i[k]:
            diffs.append("%s: impl %r model %r" % (k, i[k], m[k]))
    if i["E"] == "ok":
        # the model's log of imports of a grammar still being loaded = the static simulation
        # used by the finding classifier (the theorem's hypothesis is `backs = []`)
        sim = ";".join("%s>%s" % (core.canon_text(a), core.canon_text(b)) for a, b in load_order(fs_map(case), case["mainns"])[2])
        if m["B"] != sim:
            diffs.append("B: classifier simulation %r model %r" % (sim, m["B"]))
        # the theorem's hypothesis `safe` (Coq) = no harmful back import by the classifier's rule
        if m["F"] != ("F" if harmful_back_import(fs_map(case), case["mainns"]) else "T"):
            diffs.append("F: classifier and the model's `safe` differ (model %s)" % m["F"])
        for k in ("S", "I", "Q"):
            if m[k] != i[k]:
                diffs.append("%s: impl %r model %r" % (k, i[k], m[k]))
        mk = sorted(x for x in m["K"].split(";") if x)
        if mk != i["K"]:
            diffs.append("K: impl %r model %r" % (i["K"], mk))
    return diffs


# ---------------------------------------------------------------- property oracle
def oracle(case, o):
    """The property, stated on the implementation's outputs.  Returns list of failure texts."""
    fsm = fs_map(case)
    main = case["mainns"]
    order, missing, backs = load_order(fsm, main)
    bad = []
    # what the documented resolution expects of every reference in every loaded grammar
    expected_err = bool(missing)
    unresolvable = []
    for ns in order:
        for rule in fsm[ns]["rules"]:
            for kind, name in rule["items"]:
                t = spec_resolve(fsm, ns, name)
                if t is None:
                    unresolvable.append((ns, name))
                elif "." in name and t[0] not in order and not t[0].startswith("@"):
                    unresolvable.append((ns, name))      # names a grammar that is never loaded
    # a qualified name may legitimately fail when the named grammar is not imported (directly)
    # by the referring one and is simply not loaded yet: the property does not say.
    lenient = False
    for ns in order:
        imps = [abs_import(ns, i, fsm.main) for i in fsm[ns]["imports"]]
        for rule in fsm[ns]["rules"]:
            for kind, name in rule["items"]:
                if "." in name and name.rsplit(".", 1)[0] not in imps + [ns] + aliases_of(fsm[ns]):
                    lenient = True
    if "error" in o:
        e = o["error"]
        if e[0] == "filenotfound":
            if not missing or e[1] != missing[0]:
                bad.append("FileNotFoundError for %r; the first missing import is %r" % (e[1], missing[:1]))
        elif e[0] in ("unexisting", "unknowncls"):
            if not missing and not any(n == e[1] for _, n in unresolvable) and not lenient:
                bad.append("load failed (%s %r) although every reference resolves by the documented order" % (e[0], e[1]))
        else:
            bad.append("unexpected exception: %s" % e[1])
        return bad
    if missing:
        bad.append("load succeeded although the import %r names no file" % missing[0])
    if unresolvable and not lenient:
        bad.append("load succeeded although %r has no rule to resolve to" % (unresolvable[0],))
    # each grammar file is read once and yields one set of classes
    if len(set(o["loads"])) != len(o["loads"]):
        bad.append("a grammar file was read more than once: %r" % o["loads"])
    if o["loads"] != order:
        bad.append("files read %r, documented %r" % (o["loads"], order))
    if o["dup_fqn"]:
        bad.append("two classes for the same file and rule: %r" % o["dup_fqn"])
    nrules = sum(len(fsm[ns]["rules"]) for ns in order)
    if o["created"] != len(BASE_NAMES) + nrules:
        bad.append("%d classes created for %d rules in %d files" % (o["created"] - len(BASE_NAMES), nrules, len(order)))
    # each class reports its file-based qualified name and sits under its name in its namespace
    table = {}
    for ns, ents in o["spaces"]:
        for name, c in ents:
            table[(ns, name)] = c
            if c[0] != ns + "." + name:
                bad.append("class %s.%s reports _tx_fqn %r" % (ns, name, c[0]))
    for ns in order:
        for rule in fsm[ns]["rules"]:
            if (ns, rule["name"]) not in table:
                bad.append("rule %s.%s has no class in namespace %s" % (ns, rule["name"], ns))
    # every reference resolved to the documented class (same class object as in the namespace)
    for ns, rule, kind, name, acls, pcls in o["links"]:
        if ns not in order or kind is None:
            continue
        t = spec_resolve(fsm, ns, name)
        if t is None:
            continue
        want_fqn = fqn_of(t)
        for what, got in (("attribute class", acls), ("parser rule", pcls)):
            if what == "parser rule" and kind != "r":
                continue
            if got is None:
                bad.append("%s of %s.%s -> %s is missing" % (what, ns, rule, name))
            elif got[0] != want_fqn:
                bad.append("%s.%s refers to %r: %s is %s, documented %s" % (ns, rule, name, what, got[0], want_fqn))
            elif t[0] != BASE and table.get(t) is not None and got[1] != table[t][1]:
                bad.append("%s.%s refers to %r: %s is a second class object for %s" % (ns, rule, name, what, want_fqn))
    # metamodel[name] from the main grammar's point of view
    for q, c in o["queries"]:
        t = spec_resolve(fsm, main, q)
        if t is not None and t[0] != BASE and t[0] not in order and not t[0].startswith("@"):
            t = None
        want = None if t is None else fqn_of(t)
        got = None if c is None else c[0]
        if want != got:
            bad.append("metamodel[%r] is %r, documented %r" % (q, got, want))
    # parsed objects
    for t, res in zip(case["texts"], o["parses"]):
        if isinstance(res, str):
            bad.append("model %r does not parse: %s" % (t["text"], res))
        elif [x[0] for x in res] != t["expect"]:
            bad.append("model %r: objects are %r, documented %r" % (t["text"], [x[0] for x in res], t["expect"]))
        else:
            for x in res:
                key = tuple(x[0].rsplit(".", 1)) if "." in x[0] else None
                if key and key in table and table[key][1] != x[1]:
                    bad.append("model %r: object class %s is not the class of the namespace" % (t["text"], x[0]))
    return bad


# ---------------------------------------------------------------- run
def run_cases(cases):
    chunks = [cases[i::core.NPROC] for i in range(core.NPROC)]
    chunks = [c for c in chunks if c]
    outs = core.run_impl_parallel("c25", [{"cases": ch, "langs": LANGS} for ch in chunks])
    res = {}
    for ch, o in zip(chunks, outs):
        for c, x in zip(ch, o):
            res[id(c)] = x
    return [res[id(c)] for c in cases]


def exhaustive_cases():
    """thorough: all import graphs on three files a, b, c (each ordered subset of the other two
    plus optional self import is too many; we take every subset in both orders) with fixed
    overlapping rules and references."""
    cs = []
    names = ["a", "b", "c"]
    opts = {}
    for n in names:
        others = [m for m in names if m != n]
        opts[n] = [[], [others[0]], [others[1]], others, others[::-1]]
    rules = {"a": [("Main", [("r", "X"), ("r", "Y"), ("r", "Z")]), ("X", [])],
             "b": [("Y", [("r", "X"), ("r", "Z")]), ("X", [])],
             "c": [("Z", [("r", "X"), ("r", "Y")]), ("Y", []), ("X", [])]}
    for ia in opts["a"]:
        for ib in opts["b"]:
            for ic in opts["c"]:
                cs.append(build_case([F("a", ia, rules["a"]), F("b", ib, rules["b"]), F("c", ic, rules["c"])], False))
    return cs


def run(chk):
    chk.prove([imports_tr.translate])
    n = 900 if chk.thorough else 130
    cases = corpus_cases()
    ncorpus = len(cases)
    for i in range(n):
        cases.append(gen_case(chk.rng.split(i), i))
    if chk.thorough:
        cases += exhaustive_cases()
    outs = run_cases(cases)
    vals, errs = coq_run("C25", cases)
    disagreements, failures = [], []
    if errs:
        disagreements.append({"case": "coq evaluation", "model": errs[:2]})
    for idx, (c, o, mv) in enumerate(zip(cases, outs, vals)):
        fsm = fs_map(c)
        order, missing, backs = load_order(fsm, c["mainns"])
        nref = sum(len(r["items"]) for _, f in c["fs"] for r in f["rules"])
        chk.count(json.dumps([c["fs"], c["mainns"]]), nontrivial=len(order) >= 2 and nref >= 1)
        chk.stat("outcome " + ("ok" if "error" not in o else o["error"][0]))
        chk.stat("files loaded %d" % min(len(order), 6))
        if backs:
            chk.stat("import cycles")
        if "." in c["mainns"]:
            chk.stat("main file name with a dot")
        if any(k and k[0].startswith("@") for _, _, _, _, k, _ in o.get("links", [])):
            chk.stat("reference resolved in a referenced language")
        if any("." in ns for ns in order):
            chk.stat("nested folders")
        diffs = compare(c, o, mv)
        if diffs:
            disagreements.append({"case": c, "impl": o, "model": mv, "diffs": diffs[:4]})
        bad = oracle(c, o)
        if bad:
            tags = [CLASSIFIER] if classify(fsm, c["mainns"]) else []
            failures.append({"case": c, "impl": o, "model": mv, "what": "; ".join(bad[:4]), "tags": tags})
            if tags:
                chk.stat("known finding class")
        if idx % 50 == 7:
            chk.sample({"files": c["files"], "main": c["main"], "impl": {k: o.get(k) for k in ("error", "loads", "links")}})
    chk.cov["rule"] = ("trees of 2-6 grammar files in nested folders (main grammar optionally below the working root, with decoys), random import graphs "
                       "(acyclic, diamonds, 30% with cycles/self-imports, repeated imports, odd spellings `p..b`/`.b`/`b.`, missing files), 1-4 rules per file from a "
                       "5-name pool (+ INT/ID/STRING overrides), 0-4 references per rule (unqualified visible names, qualified names, built-ins, link references "
                       "[Class]; 30% of cases also unresolvable/foreign names); the real loader's namespaces, import lists, creation counts, per-reference resolved "
                       "classes, metamodel[name] and parses of texts exercising each reachable reference are compared with the Coq model and judged by the "
                       "documented resolution; non-trivial = at least two files loaded and at least one reference; distinct by (files, main)")
    chk.assumptions += ["Model/Imports.v transcribes metamodel.py namespaces/_new_import/__getitem__/_cls_fqn and the visit order of lang.py; look-up order, qualified split, import registration/normalisation, initial import list and _cls_fqn are translated from the source on every run (imports_tr.py), the rest is compared as text and by the correspondence",
                        "the namespace stack is modelled by the call structure of nested loads",
                        "file names are \\w+ without dots; one physical file per namespace name (no symlinks, case-sensitive file system)"]
    decide(chk, failures, disagreements)


def replay(rep):
    case = rep.get("case")
    if not isinstance(case, dict) or "files" not in case:
        print(json.dumps(rep, indent=1)[:4000])
        return 0
    o = run_cases([case])[0]
    try:
        imports_tr.translate()
    except Exception as ex:  # noqa: BLE001
        print("translator:", ex)
    vals, errs = coq_run("C25r", [case])
    print("files:")
    for k, v in case["files"].items():
        print("---", k)
        print(v, end="")
    print("main:", case["main"])
    print("implementation:", json.dumps({k: o.get(k) for k in ("error", "loads", "created", "links", "queries", "parses")}))
    print("model:", vals[0], errs)
    print("correspondence:", compare(case, o, vals[0]) or "agree")
    bad = oracle(case, o)
    print("property verdict:", bad or "holds", "(finding class %s)" % CLASSIFIER if classify(fs_map(case), case["mainns"]) else "")
    return 1 if bad else 0
