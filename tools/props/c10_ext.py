"""C10 helpers for the parts added later: several files (FQNImportURI, importAs redirection, FQNGlobalRepo),
plain Python objects hung into a model, exhaustive small trees."""
from props import c10 as B


# ---------------------------------------------------------------- several files
def gen_multi_case(r, idx):
    kind = r.weighted([("imp", 4), ("impas", 4), ("glob", 3)])
    pool = r.sample(B.NAMES, r.weighted([(2, 3), (3, 4)]))
    nlibs = r.range(1, 3)
    libs = []
    for k in range(nlibs):
        imports = [("lib0.m", None)] if (k > 0 and r.chance(0.25)) else []
        nodes = B.gen_tree(r.split("lib%d" % k), "D", pool, True, r.range(2, 7), imports=imports)
        B.add_refs(r.split("lr%d" % k), nodes, "D")
        nodes = B.prune_unrenderable(nodes, "D")
        libs.append({"file": "lib%d.m" % k, "nodes": nodes, "alias": None})
    imports = []
    if kind != "glob":
        for k in r.shuffle(list(range(nlibs))):
            if r.chance(0.85):
                alias = "L%d" % k if (kind == "impas" and r.chance(0.6)) else None
                libs[k]["alias"] = alias
                libs[k]["imported"] = True
                imports.append((libs[k]["file"], alias))
    main = B.gen_tree(r.split("main"), "D", pool, r.chance(0.85), r.range(3, 9), imports=imports)
    add_refs_multi(r.split("mr"), main, libs, kind)
    main = B.prune_unrenderable(main, "D")
    files = {lb["file"]: B.render(lb["nodes"], "D")[0] for lb in libs}
    builtins = []
    if r.chance(0.6):
        # a builtin model: the same content as lib0.m (so every name of lib0 exists in a local and in a builtin model:
        # the local one must win) plus a class z9 that exists only there
        bn = [n for n in libs[0]["nodes"]]  # same objects, rendered a second time below
        text0 = files["lib0.m"]
        if not any(n.kind == "Import" for n in bn):
            files["bi0.m"] = "class z9;\n" + text0
            builtins = ["bi0.m"]
            holder = next((n for n in main if n.kind == "Class"), None)
            if holder is not None:
                holder.refs["uses"] = list(holder.refs.get("uses") or []) + ["z9"]
    text, sites = B.render(main, "D")
    files["main.m"] = text
    return {"gid": "D", "provider": kind, "files": files, "main": "main.m", "nodes": main, "libs": libs, "pool": pool, "idx": idx,
            "builtins": builtins}


def add_refs_multi(r, main, libs, kind):
    """References of the main file: to own objects or to objects of the libraries (plain or through the alias)."""
    for h in main:
        slots = {"Class": [("base", 0.6), ("uses", 0.4)], "Package": [("owner", 0.3)], "Alias": [("target", 1)], "Use": [("target", 1)]}.get(h.kind, [])
        for attr, p in slots:
            if not r.chance(p):
                continue
            T = B.REF_T[attr]
            texts = []
            for _ in range(r.range(1, 2) if attr == "uses" else 1):
                for _try in range(4):
                    where = r.choice(["own"] + ["lib%d" % k for k in range(len(libs))] * 2)
                    if where == "own":
                        cands = [n for n in main if n.name and B.py_conf(n.kind, T) and n is not h]
                        if not cands:
                            continue
                        t = r.choice(cands)
                        pn = B.path_names(t)
                        ok = [s for s in r.shuffle([pn[i:] for i in range(len(pn))]) if B.first_match(main, "D", h, s, T) is not None]
                        if ok:
                            texts.append(".".join(ok[0]))
                            break
                    else:
                        lb = libs[int(where[3:])]
                        visible = kind == "glob" or (lb.get("imported") and not lb["alias"])
                        cands = [n for n in lb["nodes"] if n.name and B.py_conf(n.kind, T)]
                        if not cands:
                            continue
                        t = r.choice(cands)
                        pn = B.path_names(t)
                        if lb["alias"] and lb.get("imported"):
                            texts.append(lb["alias"] + "." + ".".join(pn))
                            break
                        if visible and B.first_match(lb["nodes"], "D", lb["nodes"][0], pn, T) is not None:
                            texts.append(".".join(pn))
                            break
            if texts:
                h.refs[attr] = texts
            elif attr == "target":
                h.refs[attr] = None


def root_of(world, o):
    while True:
        p = B.d_parent(world, o)
        if p is None:
            return o
        o = p


def children_r(world, redir, o, cur, depth=0):
    out = []
    if o != cur and depth < 4:
        for x in redir.get(o, []):
            out += children_r(world, redir, x, cur, depth + 1)
    return out + B.d_children(world, o)


def spec_multi(world, conf, locals_, redir, r, parts, T, builtins=()):
    """(start index, scope index, chain ends) of the first start object at which a well-typed chain exists
    (starts: the referrer, the local models of its model, the builtin models of the metamodel)."""
    starts = [r] + locals_.get(root_of(world, r), []) + list(builtins)
    for k, s0 in enumerate(starts):
        s, i = s0, 0
        while s is not None:
            cur = [s]
            for nm in parts:
                cur = [c for o in cur for c in children_r(world, redir, o, s0) if world[c]["name"] is not None and world[c]["name"] == nm]
            ends = [t for t in cur if (world[t]["cls"], T) in conf]
            if ends:
                return k, i, ends
            s, i = B.d_parent(world, s), i + 1
    return None, None, []


def unique_multi(world, redir, parts):
    for o in range(len(world)):
        names = [world[c]["name"] for c in children_r(world, redir, o, -1)]
        for nm in set(parts):
            if names.count(nm) > 1:
                return False
    return True


def multi_queries(r, case, out):
    world = out["world"]
    n = len(world)
    roots = out["roots"]
    pool = case["pool"]
    texts = list(pool) + ["%s.%s" % (a, b) for a in pool for b in pool]
    texts += r.sample(["%s.%s.%s" % (a, b, c) for a in pool for b in pool for c in pool], 8)
    if out.get("builtins"):
        texts += ["z9", "z9." + r.choice(pool)]
    aliases = [world[o]["name"] for o in range(n) if world[o]["cls"] == "Import" and world[o]["name"]]
    for al in aliases:
        texts += [al, al + "." + r.choice(pool), al + "." + r.choice(pool) + "." + r.choice(pool)]
    # existing paths of every model, and the same behind every alias
    for o in r.sample(list(range(n)), min(n, 8)):
        pn, s = [], o
        while s is not None and world[s]["name"]:
            pn.append(world[s]["name"])
            s = B.d_parent(world, s)
        if pn:
            texts.append(".".join(pn[::-1]))
            for al in aliases:
                texts.append(al + "." + ".".join(pn[::-1]))
    texts = sorted(set(texts))
    main_end = roots[1] if len(roots) > 1 else n
    refs = {0, main_end - 1, r.below(main_end), r.below(n)}
    qs = []
    for ref in sorted(refs):
        for t in texts:
            qs.append([ref, t, r.weighted([("Class", 4), ("Elem", 4), ("Package", 2), ("Import", 1)])])
    return qs


def coq_multi(case, out, queries):
    world = out["world"]
    conf = {tuple(p) for p in out["conf"]}
    locals_ = {int(k): v for k, v in out["locals"].items()}
    rd = "; ".join("(%d, [%s])" % (int(k), ";".join("%d" % x for x in v)) for k, v in sorted(out["redir"].items(), key=lambda kv: int(kv[0])))
    qs = "; ".join("(%d, [%s], %s, %d)" % (r, ";".join("%d" % x for x in locals_.get(root_of(world, r), [])), B.coq_s(t), B.CID[T])
                   for r, t, T in queries)
    return "show_multi %s %s %s [%s] [%s] [%s]" % ("true" if case["provider"] == "impas" else "false", B.coq_conf(conf), B.coq_tbl(world), rd,
                                                  ";".join("%d" % x for x in out.get("builtins", [])), qs)


def main_refs(case):
    """[(holder id, attr, index, text, T)] of the main file (ids of the main file = world ids)."""
    out = []
    for h in case["nodes"]:
        for attr, texts in h.refs.items():
            for i, t in enumerate(texts or []):
                out.append((h.id, attr, i, t, B.REF_T[attr]))
    return out


# ---------------------------------------------------------------- plain Python objects
def gen_py(r, case, dump):
    """Decoration of a parsed model with plain Python objects and the queries asked afterwards."""
    pool = case["pool"]
    holders = [i for i, o in enumerate(dump) if o["cls"] in ("Model", "Package", "Class")]
    py = []

    def spec(depth):
        d = {"name": r.choice(pool + ["n1"]), "with_parent": r.chance(0.5)}
        if depth < 2:
            d["kids"] = [spec(depth + 1) for _ in range(r.weighted([(0, 3), (1, 3), (2, 1)]))]
            if r.chance(0.3):
                d["one"] = spec(depth + 1)
        if r.chance(0.4):
            d["hidden"] = {"name": "h1"}
        return d
    for h in r.sample(holders, min(len(holders), r.range(1, 2))):
        py.append({"holder": h, "attr": "notes", "objs": [spec(0) for _ in range(r.range(1, 2))]})
    names = set(pool + ["n1", "h1"])
    texts = list(names) + ["%s.%s" % (a, b) for a in names for b in names]
    for d in py:
        pn = [dump[x]["name"] for x in B.path_ids(dump, d["holder"])[:-1]][::-1]

        def paths(s, pre):
            p = pre + [s["name"]]
            yield p
            for k in s.get("kids", []):
                yield from paths(k, p)
            if s.get("one"):
                yield from paths(s["one"], p)
            if s.get("hidden"):
                yield p + ["h1"]
        for s in d["objs"]:
            for p in paths(s, []):
                texts.append(".".join(p))
                if pn and None not in pn:
                    texts.append(".".join(pn + p))
                    texts.append(".".join(pn[-1:] + p))
    texts = sorted(set(texts))
    refs = sorted({0, py[0]["holder"], r.below(len(dump)), -1, -2})
    names = [[t, r.weighted([("PyObj", 1), ("Class", 3), ("Elem", 3), ("Package", 1)])] for t in texts]
    return py, refs, names


# ---------------------------------------------------------------- exhaustive small trees
def small_trees(max_objs, names):
    """Every containment tree of packages/classes (grammar A, lists `elems`/`members` only) with at most
    max_objs objects besides the root over the given names, sibling names unique; as text."""
    def forests(n, kinds):
        # ordered forests with exactly n nodes; each node (kind, name, children)
        if n == 0:
            yield []
            return
        for first in range(1, n + 1):
            for t in trees(first, kinds):
                for rest in forests(n - first, kinds):
                    if all(t[1] != x[1] for x in rest):
                        yield [t] + rest

    def trees(n, kinds):
        for kind in kinds:
            for nm in names:
                for sub in forests(n - 1, ("package", "class")):
                    yield (kind, nm, sub)

    def text(f, ind=0):
        out = []
        for kind, nm, sub in f:
            pad = "  " * ind
            if kind == "package":
                out.append("%spackage %s {\n%s%s}\n" % (pad, nm, text(sub, ind + 1), pad))
            elif sub:
                out.append("%sclass %s {\n%s%s}\n" % (pad, nm, text(sub, ind + 1), pad))
            else:
                out.append("%sclass %s;\n" % (pad, nm))
        return "".join(out)
    seen = set()
    for n in range(1, max_objs + 1):
        for f in forests(n, ("package", "class")):
            t = text(f)
            if t not in seen:
                seen.add(t)
                yield t


def all_names(names, max_parts):
    out, cur = [], [[]]
    for _ in range(max_parts):
        cur = [p + [n] for p in cur for n in names]
        out += [".".join(p) for p in cur]
    return out
