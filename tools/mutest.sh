#!/bin/sh
# tools/mutest.sh <patch.diff> <CNN> [tier]: apply a seeded change to /repo, run the check, undo it.
P="$(readlink -f "$1")"; ID="$2"; TIER="${3:-quick}"
R="${TEXTX_REPO:-/repo}"; cd "$(dirname "$0")/.." || exit 2
if [ -n "$(git -C "$R" status --porcelain --untracked-files=no)" ]; then echo "repo not clean"; exit 2; fi
git -C "$R" apply "$P" || { echo "patch does not apply"; exit 2; }
./check "$ID" --tier "$TIER"; rc=$?
git -C "$R" checkout -- .
echo "mutest: check exit=$rc (1 = detected)"
