#!/bin/sh
# tools/seed_confirm.sh <PID> [tag]: confirm a sub-agent's seeded change in its scratch worktree and store it under seeded/<tag>.
PID="$1"; TAG="${2:-$1}"; WT=/tmp/seedwork/wt_$TAG; OUT=/tmp/seedwork/out_$TAG
[ -f "$OUT/patch.diff" ] || { echo "no patch"; exit 2; }
cd "$WT" || exit 2
git checkout -q -- . ; git clean -fdq
PYTHONPATH=$WT timeout 600 /venv/bin/python "$OUT/demo.py" >/tmp/seedwork/demo_clean_$TAG.log 2>&1; c=$?
git apply "$OUT/patch.diff" || { echo "patch does not apply"; exit 2; }
PYTHONPATH=$WT timeout 600 /venv/bin/python "$OUT/demo.py" >/tmp/seedwork/demo_patched_$TAG.log 2>&1; p=$?
/venv/bin/python /verif/tools/suite_check.py "$WT" >/tmp/seedwork/suite_$TAG.log 2>&1; s=$?
git checkout -q -- . ; git clean -fdq
echo "$TAG: demo clean=$c patched=$p suite=$s ($(head -1 /tmp/seedwork/suite_$TAG.log))"
if [ $c = 0 ] && [ $p != 0 ] && [ $s = 0 ]; then
  D=/verif/seeded/$TAG; mkdir -p $D; cp "$OUT/patch.diff" "$OUT/demo.py" $D/
  /venv/bin/python - "$OUT/meta.json" "$D/meta.json" "$PID" "$(git rev-parse --short HEAD)" <<'PY'
import json,sys
m=json.load(open(sys.argv[1])); m["property"]=sys.argv[3]
m["confirmed"]={"demo_on_unchanged_code":"exit 0 (PASS)","demo_with_patch":"non-zero exit (FAIL)","existing_suite_with_patch":"all 313 baseline tests pass (tools/suite_check.py)",
 "ran":"tools/seed_confirm.sh in a scratch worktree of /repo at "+sys.argv[4]}
json.dump(m,open(sys.argv[2],"w"),indent=1)
PY
  echo stored
fi
