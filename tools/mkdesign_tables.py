"""Regenerate the generated tables of DESIGN.md (between <!-- BEGIN GENERATED x --> / <!-- END GENERATED x --> markers):
 status: one row per property (claimed?, theorem count from evidence, fixes, known findings, notes file)
 seeds:  one row per seeded change (seeded/*/meta.json + out/mutall_*.log results recorded in seeded/RESULTS.json)."""
import glob, json, os, re
ROOT = os.path.dirname(os.path.dirname(os.path.abspath(__file__)))
os.chdir(ROOT)
props = [json.loads(l) for l in open("properties.jsonl")]
man = json.load(open("MANIFEST.json"))
claimed = {c["property_id"] for c in man["checks"]}
lines = []
for f in ["KNOWN_FINDINGS.txt"] + sorted(glob.glob("findings.d/*.txt")):
    lines += [l.strip() for l in open(f) if l.startswith(("fixed:", "finding:"))]
def short(s, n): return s if len(s) <= n else s[:n - 1] + "…"
rows = ["| id | claimed | theorems (Props/CNN.v) | tie | `fix:` commits in /repo | known findings | notes |", "|---|---|---|---|---|---|---|"]
for p in props:
    pid = p["id"]
    ev = {}
    try: ev = json.load(open("evidence/%s.json" % pid))
    except Exception: pass
    nthm = len(ev.get("coverage", {}).get("theorems", []))
    fixes = sorted({m.group(1) for l in lines for m in [re.match(r"fixed: property=%s (\w+)" % pid, l)] if m})
    finds = sorted({m.group(1) for l in lines for m in [re.match(r"finding: property=%s id=(\S+)" % pid, l)] if m})
    tr = "T+C" if glob.glob("tools/translate/*_tr.py") and re.search(r"_tr\b", open("tools/props/%s.py" % pid.lower()).read() if os.path.exists("tools/props/%s.py" % pid.lower()) else "") else "C"
    notes = "design/%s.md" % pid if os.path.exists("design/%s.md" % pid) else "section 6"
    rows.append("| %s | %s | %s | %s | %s | %s | %s |" % (pid, "yes" if pid in claimed else "no", nthm or "-", tr if pid in claimed else "-", " ".join(fixes) or "-", ", ".join(finds) or "-", notes))
status = "\n".join(rows)
res = {}
if os.path.exists("seeded/RESULTS.json"):
    res = json.load(open("seeded/RESULTS.json"))
rows = ["| seeded change | property | what it does (summary) | needs | quick check result | caught by |", "|---|---|---|---|---|---|"]
for d in sorted(glob.glob("seeded/*/meta.json")):
    tag = os.path.basename(os.path.dirname(d)); m = json.load(open(d))
    r = res.get(tag, {})
    rows.append("| seeded/%s | %s | %s | %s | %s | %s |" % (tag, m.get("property"), short(m.get("summary", "").replace("|", "/").replace("\n", " "), 160),
                short(m.get("needs", "").replace("|", "/").replace("\n", " "), 120), r.get("result", "not run"), r.get("by", "")))
seeds = "\n".join(rows)
s = open("DESIGN.md").read()
for name, text in (("status", status), ("seeds", seeds)):
    a, b = "<!-- BEGIN GENERATED %s -->" % name, "<!-- END GENERATED %s -->" % name
    if a in s:
        s = s[:s.index(a) + len(a)] + "\n" + text + "\n" + s[s.index(b):]
open("DESIGN.md", "w").write(s)
print("tables regenerated")
