"""Implementation runner for C27: real metamodels / providers / model_from_str / model_from_file on generated
directory trees; observes _tx_model_params on every model object created by each load (by wrapping
textx.model.parse_tree_to_objgraph), at object-processor time and afterwards, plus the visible repository."""
import glob
import inspect
import json
import os
import re
import shutil
import sys
import tempfile

import textx.model as tm
import textx.scoping.providers as sp
import textx.registration as reg
from textx import metamodel_from_str
from textx.registration import LanguageDesc, register_language
from textx.scoping import ModelRepository
from textx.exceptions import TextXError
from textx.model import get_model
from textx.model_params import ModelParams

GRAMMAR = r"""
Model: Doc | Prim;
Doc: imports*=Import items*=Item refs*=Ref;
Import: 'import' importURI=STRING;
Item: 'item' name=ID;
Ref: 'ref' target=[Item%s];
Prim: /#\w+/;
"""

_real_glob = glob.glob


def _sorted_glob(*a, **k):
    return sorted(_real_glob(*a, **k))


glob.glob = _sorted_glob          # directory order is not part of the property

REC = {"slots": None}
CREATED = {}                      # id(model) -> (op index, object kept alive)
MMS = []                          # metamodels of the current case: 0 = entry metamodel, k = registered language k
_orig_pt2og = tm.parse_tree_to_objgraph


def _wrapped(parser, parse_tree, file_name=None, **kw):
    slots = REC["slots"]
    k = None
    if slots is not None:
        k = len(slots)
        slots.append(None)
    m = _orig_pt2og(parser, parse_tree, file_name=file_name, **kw)
    if k is not None:
        slots[k] = m
    return m


tm.parse_tree_to_objgraph = _wrapped


def vid_of(v, T):
    r = repr(v)
    return r.replace(T, "{T}")


def params_of(m, T):
    if not hasattr(m, "_tx_model_params"):
        return None
    p = m._tx_model_params
    return {"items": [[k, vid_of(p[k], T)] for k in p], "is_mp": isinstance(p, ModelParams), "len": len(p)}


def rel(path, T):
    if path is None:
        return None
    path = os.path.abspath(path)
    return os.path.relpath(path, T) if path.startswith(T) else path


def desc(m, T):
    prim = isinstance(m, (str, int, float, bool))
    mm = None
    if not prim:
        mm = next((k for k, x in enumerate(MMS) if x is getattr(m, "_tx_metamodel", None)), "?")
    return {"prim": prim, "file": None if prim else rel(getattr(m, "_tx_filename", None), T),
            "op": CREATED.get(id(m), (None,))[0], "params": params_of(m, T), "mm": mm}


def value(spec, T):
    if isinstance(spec, dict):
        if "dir" in spec:
            return os.path.join(T, spec["dir"])
        return spec["v"]
    return spec


def build_one(case, T, seen, adds, grepo):
    prov = case["prov"]
    mm = metamodel_from_str(GRAMMAR % ("|ID|+m:items" if prov == "rrel" else ""), global_repository=bool(grepo))
    sps = [os.path.join(T, d) for d in case.get("search_path") or []]
    pats = [p.replace("{T}", T) for p in case.get("patterns") or []]
    p = None
    if prov == "importuri":
        p = sp.PlainNameImportURI()
    elif prov == "importuri_fqn":
        p = sp.FQNImportURI()
    elif prov == "importuri_sp":
        p = sp.PlainNameImportURI(search_path=sps)
    elif prov == "importuri_fqn_sp":
        p = sp.FQNImportURI(search_path=sps)
    elif prov in ("globalrepo", "globalrepo_fqn"):
        p = sp.PlainNameGlobalRepo() if prov == "globalrepo" else sp.FQNGlobalRepo()
        for pat in pats:
            p.register_models(pat)
    if p is not None:
        mm.register_scope_providers({"*.*": p})

    def item_proc(obj):
        m = get_model(obj)
        seen.append([rel(m._tx_filename, T), params_of(m, T)])
    mm.register_obj_processors({"Item": item_proc})
    res = []
    for name in adds:
        try:
            mm.model_param_defs.add(name, "parameter " + name)
            res.append({"ok": True})
        except Exception as ex:
            res.append({"ok": False, "exc": type(ex).__name__, "msg": str(ex)})
    return mm, res, p


def build_mm(case, T, seen):
    """The entry metamodel (index 0) and, in a multi-language scenario, one more metamodel per registered language
    (same grammar and provider kind, own parameter definitions, no global repository); language 0 = the entry
    metamodel for *.m, language k for *.n<k>."""
    del MMS[:]
    reg.clear_language_registrations()
    mm, adds, prov = build_one(case, T, seen, case["adds"], case["grepo"])
    MMS.append(mm)
    n = case.get("nlangs") or 0
    if n:
        register_language(LanguageDesc("c27l0", pattern="*.m", metamodel=mm))
        for k in range(1, n):
            mk, _, _ = build_one(case, T, seen, case["lang_adds"][k - 1], False)
            MMS.append(mk)
            register_language(LanguageDesc("c27l%d" % k, pattern="*.n%d" % k, metamodel=mk))
    return mm, adds, prov


def run_repo_op(prov, op, k, T, seen):
    """GlobalRepo.load_models_in_model_repo: returns a repository, not a model."""
    kw = {}
    for key, spec in op["kw"]:
        kw[key] = value(spec, T)
    del seen[:]
    slots = REC["slots"] = []
    out = {}
    try:
        repo = prov.load_models_in_model_repo(**kw)
        for x in slots:
            if x is not None and not isinstance(x, (str, int, float, bool)) and id(x) not in CREATED:
                CREATED[id(x)] = (k, x)
        out["kind"] = "repo"
        out["new"] = [desc(x, T) for x in slots]
        out["repo"] = [[rel(key, T), desc(x, T)] for key, x in repo.all_models.filename_to_model.items() if os.path.isabs(key)]
    except TypeError as ex:
        out["kind"] = "typeerror" if "multiple values" in str(ex) else "err"
        out["exc"] = "TypeError: " + str(ex).replace(T, "{T}")
    except TextXError as ex:
        mt = re.match(r"^unknown parameter (.*) \((.*)\)$", getattr(ex, "message", str(ex)), re.S)
        out["kind"] = "rejected" if mt else "err"
        if mt:
            out["key"], out["source"] = mt.group(1), mt.group(2)
        out["exc"] = type(ex).__name__ + ": " + str(ex).replace(T, "{T}")
    except Exception as ex:  # noqa
        out["kind"] = "err"
        out["exc"] = type(ex).__name__ + ": " + str(ex).replace(T, "{T}")
    finally:
        REC["slots"] = None
    out["seen"] = [list(x) for x in seen]
    out["entered"] = len(slots)
    return out


def run_op(mm, op, k, T, seen, keep):
    kw = {}
    for key, spec in op["kw"]:
        kw[key] = value(spec, T)
    del seen[:]
    slots = REC["slots"] = []
    out = {}
    try:
        e = op["entry"]
        if e == "file":
            m = mm.model_from_file(os.path.join(T, op["path"]), **kw)
        else:
            text = op["text"] if op["is_str"] else value(op["notstr"], T)
            if e == "str":
                m = mm.model_from_str(text, **kw)
            elif op.get("fn_keyword"):
                m = mm.model_from_str(text, file_name=os.path.join(T, op["path"]), **kw)
            else:
                m = mm.model_from_str(text, os.path.join(T, op["path"]), **kw)
        for x in slots:
            if x is not None and not isinstance(x, (str, int, float, bool)) and id(x) not in CREATED:
                CREATED[id(x)] = (k, x)
        for x in slots:      # primitive models have no stable identity: report them by position only
            pass
        keep.append(m)
        out["kind"] = "loaded"
        out["result"] = desc(m, T)
        out["result_is_new"] = any(x is m for x in slots)
        news = []
        for x in slots:
            d = desc(x, T)
            if d["prim"]:
                d["op"] = k
            news.append(d)
        out["new"] = news
        if out["result"]["prim"]:
            out["result"]["op"] = k
        if hasattr(m, "_tx_model_repository"):
            out["repo"] = [[rel(key, T), desc(x, T)] for key, x in m._tx_model_repository.all_models.filename_to_model.items()
                           if os.path.isabs(key)]
        else:
            out["repo"] = None
        out["shared"] = all(x._tx_model_params is m._tx_model_params for x in slots if hasattr(x, "_tx_model_params")) if hasattr(m, "_tx_model_params") else None
    except TypeError as ex:
        out["kind"] = "typeerror" if "multiple values" in str(ex) else "err"
        out["exc"] = "TypeError: " + str(ex).replace(T, "{T}")
    except TextXError as ex:
        msg = str(ex)
        mt = re.match(r"^unknown parameter (.*) \((.*)\)$", getattr(ex, "message", msg), re.S)
        if type(ex) is TextXError and mt:
            out["kind"] = "rejected"
            out["key"] = mt.group(1)
            out["source"] = mt.group(2).replace(T, "{T}")
        elif type(ex) is TextXError and "accepts only strings" in msg:
            out["kind"] = "notstr"
        else:
            out["kind"] = "err"
        out["exc"] = type(ex).__name__ + ": " + msg.replace(T, "{T}")
    except Exception as ex:  # noqa
        out["kind"] = "err"
        out["exc"] = type(ex).__name__ + ": " + str(ex).replace(T, "{T}")
    finally:
        REC["slots"] = None
    out["seen"] = [list(x) for x in seen]
    out["entered"] = len(slots)
    return out


def _argnames(fn):
    return [n for n, p in inspect.signature(fn).parameters.items() if p.kind not in (p.VAR_KEYWORD, p.VAR_POSITIONAL)]


def run_case(case):
    T = os.path.realpath(tempfile.mkdtemp(prefix="c27_"))
    cwd = os.getcwd()
    try:
        for d in case["dirs"]:
            os.makedirs(os.path.join(T, d), exist_ok=True)
        for f in case["files"]:
            with open(os.path.join(T, f["path"]), "w") as fh:
                fh.write(f["text"])
        os.chdir(os.path.join(T, "cwd"))
        seen = []
        CREATED.clear()
        mm, adds, prov = build_mm(case, T, seen)
        outs = []
        keep = []
        for k, op in enumerate(case["ops"]):
            o = run_repo_op(prov, op, k, T, seen) if op["entry"] == "repo" else run_op(mm, op, k, T, seen, keep)
            if k == 0 and case.get("builtin") and o["kind"] == "loaded":
                # the model loaded by operation 0 becomes a builtin model of the entry metamodel
                mm.builtin_models = ModelRepository()
                mm.builtin_models.add_model(keep[-1])
            if case.get("builtin") and keep:
                o["builtin"] = desc(keep[0], T)
            outs.append(o)
        return {"adds": adds, "ops": outs,
                "sig_str": _argnames(type(mm).model_from_str), "sig_file": _argnames(type(mm).model_from_file),
                "sig_repo": _argnames(sp.GlobalRepo.load_models_in_model_repo),
                "builtin": list(metamodel_from_str("M: 'x';").model_param_defs)}
    finally:
        os.chdir(cwd)
        reg.clear_language_registrations()
        shutil.rmtree(T, ignore_errors=True)


def main():
    payload = json.load(sys.stdin)
    json.dump([run_case(c) for c in payload["cases"]], sys.stdout)


main()
