"""Implementation runner for C24 (run with PYTHONPATH=$TEXTX_REPO).

stdin  {"mode": "dump"}                      -> {"lang": <dump>, "tx": <dump>, "oracles": [...]}
       {"mode": "cases", "texts": [t, ...], "tables": bool}
                                             -> [{"lang": outcome, "tx": outcome, "api_lang": .., "api_tx": ..,
                                                  "table": [[oid,pos,len]..] (shared oracle ids, when asked)}]

The two parsers of the textX language:
  lang : arpeggio.ParserPython(textx.lang.textx_model, comment_def=textx.lang.comment, ignore_case=False,
         reduce_tree=False)   - what textx.lang.language_from_str builds (the grammar compiler's front end)
  tx   : metamodel_for_language('textx').metamodel._parser_blueprint   - the parser textX builds from textx.tx

Dumps use tools/pegdump.py; the oracle ids of the two dumps are renumbered into ONE shared table keyed by
(kind, pattern text, flags), so that "same oracle id" means "same regular expression text and flags".
Outcomes: "P" accepted | "E:<pos>" syntax error at pos | "X:<exception type>" anything else.
api_*: what the public API reports: metamodel_from_str(text) / grammar_model_from_str(text):
  "ok" | "syntax:<line>:<col>" (TextXSyntaxError caused by NoMatch) | "syntax-visitor" (TextXSyntaxError raised
  after parsing) | "semantic:<type>" (other TextXError) | "crash:<type>".
"""
import json
import os
import signal
import sys

sys.path.insert(0, os.path.dirname(os.path.dirname(os.path.abspath(__file__))))
import pegdump  # noqa: E402

import arpeggio  # noqa: E402
from arpeggio import NoMatch, ParserPython  # noqa: E402
from textx import lang, metamodel_for_language, metamodel_from_str  # noqa: E402
from textx.exceptions import TextXError, TextXSyntaxError  # noqa: E402


class Timeout(BaseException):
    pass


def _alarm(signum, frame):
    raise Timeout()


def build():
    p_lang = ParserPython(lang.textx_model, comment_def=lang.comment, ignore_case=False, reduce_tree=False)
    mmm = metamodel_for_language("textx")
    mm = mmm.metamodel
    p_tx = mm._parser_blueprint
    return p_lang, p_tx, mmm


def norm_pattern(p):
    """`\\/` and `/` are the same regular expression atom for Python's re (an escaped non-alphanumeric
    ASCII character matches itself); textX regex literals must escape `/`, Python-notation ones need not.
    Escapes are scanned left to right so that `\\\\/` (escaped backslash, then slash) is left alone.
    The runner re-validates every merge on each input (see `merge_check`)."""
    out, i = [], 0
    while i < len(p):
        if p[i] == "\\" and i + 1 < len(p):
            out.append("/" if p[i + 1] == "/" else p[i:i + 2])
            i += 2
        else:
            out.append(p[i])
            i += 1
    return "".join(out)


def norm_oracle(o):
    return [o[0], norm_pattern(o[1]), o[2]] if o[0] == "re" else list(o)


MERGED = {}   # shared oid -> set of raw pattern texts merged into it


def shared_dumps(p_lang, p_tx):
    d1 = pegdump.dump_parser(p_lang)
    d2 = pegdump.dump_parser(p_tx)
    keys, table = {}, []

    def renum(d):
        m = {}
        for oid, o in enumerate(d.oracles):
            k = json.dumps(norm_oracle(o))
            if k not in keys:
                keys[k] = len(table)
                table.append(list(o))
            m[oid] = keys[k]
            MERGED.setdefault(keys[k], set()).add(json.dumps(list(o)))
        for n in d.nodes:
            if n["oid"] is not None:
                n["oid"] = m[n["oid"]]
        return m
    renum(d1)
    renum(d2)
    return d1, d2, table


def oracle_table(table, text):
    import re
    tbl = []
    n = len(text)
    for oid, o in enumerate(table):
        if o[0] == "re":
            rx = re.compile(o[1], o[2])
            for p in range(n + 1):
                m = rx.match(text, p)
                if m:
                    tbl.append([oid, p, len(m.group())])
        else:
            t = o[1]
            for p in range(n + 1):
                if text[p:p + len(t)].lower() == t.lower():
                    tbl.append([oid, p, len(t)])
    return tbl


def merge_check(text):
    """patterns merged into one oracle id must match the same lengths at every position of this input"""
    import re
    bad = []
    for oid, raws in MERGED.items():
        if len(raws) < 2:
            continue
        res = set()
        for raw in sorted(raws):
            o = json.loads(raw)
            rx = re.compile(o[1], o[2])
            res.add(tuple((m.end() - p) if m else -1 for p in range(len(text) + 1) for m in [rx.match(text, p)]))
        if len(res) > 1:
            bad.append(sorted(raws))
    return bad


def outcome(parser, text):
    try:
        parser.parse(text)
    except NoMatch as e:
        return "E:%d" % e.position
    except TextXSyntaxError as e:
        c = e.__cause__
        if isinstance(c, NoMatch):
            return "E:%d" % c.position
        return "X:TextXSyntaxError"
    except Timeout:
        raise
    except RecursionError:
        return "X:RecursionError"
    except Exception as e:
        return "X:%s" % type(e).__name__
    return "P"


def api(fn, text):
    try:
        fn(text)
    except TextXSyntaxError as e:
        if isinstance(e.__cause__, NoMatch):
            return "syntax:%s:%s" % (e.line, e.col)
        return "syntax-visitor"
    except TextXError as e:
        return "semantic:%s" % type(e).__name__
    except Timeout:
        raise
    except RecursionError:
        return "crash:RecursionError"
    except Exception as e:
        return "crash:%s" % type(e).__name__
    return "ok"


def main():
    req = json.load(sys.stdin)
    p_lang, p_tx, mmm = build()
    if req["mode"] == "dump":
        d1, d2, table = shared_dumps(p_lang, p_tx)
        json.dump({"lang": d1.to_json(), "tx": d2.to_json(), "oracles": table}, sys.stdout)
        return
    _, _, shared = shared_dumps(p_lang, p_tx)
    table = shared if req.get("tables") else None
    signal.signal(signal.SIGALRM, _alarm)
    out = []
    for text in req["texts"]:
        r = {}
        try:
            signal.alarm(20)
            r["lang"] = outcome(p_lang, text)
            r["tx"] = outcome(p_tx.clone(), text)
            r["api_lang"] = api(metamodel_from_str, text)
            r["api_tx"] = api(mmm.grammar_model_from_str, text)
            signal.alarm(0)
        except Timeout:
            r["timeout"] = True
        finally:
            signal.alarm(0)
        if table is not None:
            r["table"] = oracle_table(table, text)
        bad = merge_check(text)
        if bad:
            r["merge_mismatch"] = bad
        # oracle hypothesis of the checker soundness theorem: these regexes never match the empty string
        import re
        for p1, p2, p3 in req.get("alts", []):
            rx = {}
            for o in shared:
                if o[0] == "re" and o[1] in (p1, p2, p3):
                    rx[o[1]] = re.compile(o[1], o[2])
            if len(rx) != len({p1, p2, p3}):
                r.setdefault("alts_mismatch", []).append([p3, "a pattern of the triple is not in the oracle table"])
            else:
                for q in range(len(text) + 1):
                    m1, m2, m3 = rx[p1].match(text, q), rx[p2].match(text, q), rx[p3].match(text, q)
                    want = m1.end() if m1 else (m2.end() if m2 else None)
                    if (m3.end() if m3 else None) != want:
                        r.setdefault("alts_mismatch", []).append([p3, q])
                        break
        for pat in req.get("nonempty", []):
            for o in shared:
                if o[0] == "re" and o[1] == pat:
                    rx = re.compile(o[1], o[2])
                    if any((m := rx.match(text, q)) is not None and m.end() == q for q in range(len(text) + 1)):
                        r.setdefault("empty_match", []).append(pat)
        out.append(r)
    json.dump(out, sys.stdout)


if __name__ == "__main__":
    main()
