"""Implementation runner for C31: run the built-in generators with an injected failure at every
open / write / close / replace and report what is left in the output directory."""
import builtins
import json
import os
import shutil
import sys
import tempfile

from textx import metamodel_from_file
import textx.generators as G
import textx.export as E

real_open = builtins.open
real_replace = os.replace


class Injected(Exception):
    pass


class Proxy:
    def __init__(self, f, plan, log):
        self.f, self.plan, self.log = f, plan, log

    def write(self, data):
        k = self.log["writes"]
        self.log["writes"] += 1
        if self.plan.get("kind") == "write" and self.plan["k"] == k:
            if self.plan.get("partial"):
                self.f.write(data[: max(1, len(data) // 2)])
                self.f.flush()
            raise Injected("write %d" % k)
        return self.f.write(data)

    def __enter__(self):
        return self

    def __exit__(self, *a):
        self.f.close()
        if a[0] is None and self.plan.get("kind") == "close":
            raise Injected("close")
        return False

    def __getattr__(self, n):
        return getattr(self.f, n)


def run_once(kind, grammar_file, model_file, outdir, overwrite, plan):
    log = {"writes": 0, "opened": [], "replaced": []}

    def fake_open(name, mode="r", *a, **k):
        if "w" in mode and os.path.dirname(os.path.abspath(name)) == os.path.abspath(outdir):
            log["opened"].append(os.path.basename(name))
            if plan.get("kind") == "open":
                raise Injected("open")
            return Proxy(real_open(name, mode, *a, **k), plan, log)
        return real_open(name, mode, *a, **k)

    def fake_replace(a, b):
        log["replaced"].append([os.path.basename(a), os.path.basename(b)])
        if plan.get("kind") == "replace":
            raise Injected("replace")
        return real_replace(a, b)
    builtins.open = fake_open
    os.replace = fake_replace
    raised = None
    try:
        mm = metamodel_from_file(grammar_file)
        if kind == "mm-dot":
            G.metamodel_generate_dot.generator(None, mm, outdir, overwrite, False)
        elif kind == "mm-plantuml":
            G.metamodel_generate_plantuml.generator(None, mm, outdir, overwrite, False)
        else:
            model = mm.model_from_file(model_file)
            G.model_generate_dot.generator(mm, model, outdir, overwrite, False)
    except Injected as e:
        raised = str(e)
    except Exception as e:  # noqa
        raised = "OTHER:" + type(e).__name__ + ":" + str(e)[:100]
    finally:
        builtins.open = real_open
        os.replace = real_replace
    return raised, log


def target_name(kind, grammar_file, model_file):
    base = os.path.splitext(os.path.basename(grammar_file if kind.startswith("mm") else model_file))[0]
    return base + (".pu" if kind == "mm-plantuml" else ".dot")


def classify(path, full, old):
    if not os.path.exists(path):
        return "absent"
    c = real_open(path).read()
    if c == full:
        return "complete"
    if old is not None and c == old:
        return "old"
    return "partial"


def run_case(case):
    d = tempfile.mkdtemp(prefix="c31_")
    try:
        gf = os.path.join(d, "g.tx")
        mf = os.path.join(d, "m.mdl")
        with real_open(gf, "w") as f:
            f.write(case["grammar"])
        with real_open(mf, "w") as f:
            f.write(case["model"])
        kind = case["kind"]
        tname = target_name(kind, gf, mf)
        ref = os.path.join(d, "ref")
        os.mkdir(ref)
        raised, log = run_once(kind, gf, mf, ref, False, {})
        if raised:
            return {"error": "reference run failed: %s" % raised}
        full = real_open(os.path.join(ref, tname)).read()
        # ids of python objects appear in the dot output: normalise by regenerating in-process is not
        # possible across runs, so compare lengths/structure modulo digits
        import re
        norm = lambda s: re.sub(r"\d{6,}", "N", s)
        n = log["writes"]
        plans = [{"kind": "open"}, {"kind": "close"}, {"kind": "replace"}]
        for k in range(n):
            plans.append({"kind": "write", "k": k, "partial": False})
            plans.append({"kind": "write", "k": k, "partial": True})
        plans.append({"kind": "write", "k": n + 3, "partial": False})   # beyond the last write: no failure
        out = []
        for i, plan in enumerate(plans):
            for pre in ((False, True) if i % 7 == 0 else (False,)):
                od = os.path.join(d, "o%d_%d" % (i, pre))
                os.mkdir(od)
                old = None
                if pre:
                    old = "OLD CONTENT\n"
                    with real_open(os.path.join(od, tname), "w") as f:
                        f.write(old)
                raised, lg = run_once(kind, gf, mf, od, pre, plan)     # pre-existing file: run with --overwrite
                tpath = os.path.join(od, tname)
                st = "absent"
                if os.path.exists(tpath):
                    c = real_open(tpath).read()
                    st = "complete" if norm(c) == norm(full) else ("old" if c == old else "partial")
                others = sorted(x for x in os.listdir(od) if x != tname)
                # a later run without --overwrite
                raised2, lg2 = run_once(kind, gf, mf, od, False, {})
                st2 = "absent"
                if os.path.exists(tpath):
                    c = real_open(tpath).read()
                    st2 = "complete" if norm(c) == norm(full) else ("old" if c == old else "partial")
                out.append({"plan": plan, "pre": pre, "raised": raised, "target": st, "leftovers": others,
                            "opened": lg["opened"], "replaced": lg["replaced"], "rerun_target": st2, "rerun_raised": raised2})
        return {"n_writes": n, "target": tname, "results": out}
    finally:
        shutil.rmtree(d, ignore_errors=True)


def main():
    payload = json.load(sys.stdin)
    json.dump([run_case(c) for c in payload["cases"]], sys.stdout)


main()
