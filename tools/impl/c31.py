"""Implementation runner for C31: run the built-in generators with a failure injected below the
buffering layers and report what is left in the output directory.

While a run is observed, files opened for writing in the output directory are real
io.TextIOWrapper(io.BufferedWriter(raw)) stacks whose raw file (an io.FileIO subclass) fails on a
chosen low-level write - once, or persistently (disk full), with or without part of the data
reaching the file.  The implicit flushes (buffer full, close at the end of `with`) are therefore
failure points exactly as they are with a real disk.  open(), close() of the raw file and
os.replace can be made to fail as well."""
import builtins
import errno
import io
import json
import os
import re
import shutil
import sys
import tempfile

from textx import metamodel_from_file
import textx.generators as G
import textx.export as E  # noqa

real_open = builtins.open
real_replace = os.replace
real_rename = os.rename


class Injected(OSError):
    pass


class Disk:
    """Injection plan + what was observed during one run."""

    def __init__(self, outdir, plan, bufsize, xdev=False):
        self.xdev = xdev                       # the output folder is on another file system than every other folder
        self.copy_raw = 0                      # low-level writes made to files opened in binary mode (shutil copies)
        self.outdir = os.path.abspath(outdir)
        self.plan = plan
        self.bufsize = bufsize                 # 0 = the default stack (8 KiB buffer, text layer not write-through)
        self.raw = 0                           # low-level write calls so far
        self.raw_bytes = 0                     # bytes that reached the file
        self.given = 0                         # bytes handed to write() by the generator
        self.writes = []                       # per write call of the generator: [bytes, raw calls, everything flushed]
        self.after_last_write = 0
        self.opened, self.replaced = [], []
        self.fired = False

    def should_fail(self, n):
        p = self.plan
        return p.get("kind") == "raw" and (n == p["k"] or (p.get("persistent") and n > p["k"]))

    def open(self, name, mode="r", *a, **k):
        if "w" in mode and not isinstance(name, int) and os.path.dirname(os.path.abspath(name)) == self.outdir:
            self.opened.append(os.path.basename(name))
            if self.plan.get("kind") == "open":
                self.fired = True
                raise Injected(errno.EACCES, "injected: open")
            disk = self

            class Raw(io.FileIO):
                close_failed = False

                def write(self, b):
                    n = disk.raw
                    disk.raw += 1
                    if disk.should_fail(n):
                        disk.fired = True
                        if disk.plan.get("partial"):
                            b = bytes(b)
                            disk.raw_bytes += super().write(b[: max(1, len(b) // 2)])
                        if disk.plan.get("interrupt"):
                            raise KeyboardInterrupt("injected: interrupt in low-level write %d" % n)
                        raise Injected(errno.ENOSPC, "injected: low-level write %d" % n)
                    w = super().write(b)
                    disk.raw_bytes += w
                    return w

                def close(self):
                    was_open = not self.closed
                    super().close()
                    if was_open and disk.plan.get("kind") == "close" and not Raw.close_failed:
                        Raw.close_failed = True
                        disk.fired = True
                        raise Injected(errno.EIO, "injected: close")

            class Txt(io.TextIOWrapper):
                def write(self, s):
                    nb = len(s.encode(self.encoding))
                    before = disk.raw
                    disk.given += nb
                    r = super().write(s)
                    if nb:
                        disk.writes.append([nb, disk.raw - before, disk.raw_bytes == disk.given])
                    disk.after_last_write = disk.raw
                    return r

            if "b" in mode:
                # a byte copy into the output folder (shutil.copyfile): no fileno, so that zero-copy shortcuts
                # (sendfile & co.) fall back to plain write() calls and cannot get around the injected failure
                class RawB(Raw):
                    def fileno(self):
                        raise io.UnsupportedOperation("fileno")

                    def write(self, b):
                        disk.copy_raw += 1
                        return super().write(b)
                return io.BufferedWriter(RawB(name, "w"))
            raw = Raw(name, "w")
            if self.bufsize:
                buffered = io.BufferedWriter(raw, buffer_size=self.bufsize)
                return Txt(buffered, encoding=k.get("encoding", "utf-8"), write_through=True)
            return Txt(io.BufferedWriter(raw), encoding=k.get("encoding", "utf-8"))
        return real_open(name, mode, *a, **k)

    def replace(self, a, b, real=None):
        self.replaced.append([os.path.basename(a), os.path.basename(b)])
        if self.plan.get("kind") == "replace":
            self.fired = True
            raise Injected(errno.EIO, "injected: replace")
        if self.xdev and os.path.dirname(os.path.realpath(a)) != os.path.dirname(os.path.realpath(b)):
            # what rename(2) does between file systems
            raise OSError(errno.EXDEV, "Invalid cross-device link", a, None, b)
        return (real or real_replace)(a, b)

    def rename(self, a, b):
        return self.replace(a, b, real_rename)


def run_once(gen, outdir, overwrite, plan, bufsize, xdev=False):
    disk = Disk(outdir, plan, bufsize, xdev)
    builtins.open = disk.open
    os.replace = disk.replace
    os.rename = disk.rename
    raised = None
    try:
        gen(outdir, overwrite)
    except Injected as e:
        raised = str(e.strerror)
    except KeyboardInterrupt as e:
        if not plan.get("interrupt"):
            raise
        raised = str(e)
    except Exception as e:  # noqa
        raised = "OTHER:" + type(e).__name__ + ":" + str(e)[:100]
    finally:
        builtins.open = real_open
        os.replace = real_replace
        os.rename = real_rename
    return raised, disk


def target_name(kind, grammar_file, model_file):
    base = os.path.splitext(os.path.basename(grammar_file if kind.startswith("mm") else model_file))[0]
    return base + (".pu" if kind == "mm-plantuml" else ".dot")


def norm(s):
    # ids of python objects are node names in the dot output
    return re.sub(r"\d{6,}", "N", s)


def schedule(disk):
    """The buffering observed in an undisturbed run: per write call Buf / FlushAll / FlushKeep, and the
    number of low-level writes of every event (the last one is the flush in close, if any)."""
    sched, events = [], []
    for nb, nraw, allflushed in disk.writes:
        if nraw == 0:
            sched.append("B")
        else:
            sched.append("A" if allflushed else "K")
            events.append(nraw)
    at_close = disk.raw - disk.copy_raw - disk.after_last_write
    if at_close:
        events.append(at_close)
    return sched, events, at_close


def pick(total, quick):
    if not quick or total <= 14:
        return list(range(total))
    ks = set([0, 1, 2, total - 1, total - 2, total - 3])
    ks.update(range(3, total - 3, max(1, (total - 6) // 6)))
    return sorted(ks)


def run_case(case):
    d = tempfile.mkdtemp(prefix="c31_")
    try:
        gf = os.path.join(d, "g.tx")
        mf = os.path.join(d, "m.mdl")
        with real_open(gf, "w") as f:
            f.write(case["grammar"])
        with real_open(mf, "w") as f:
            f.write(case["model"])
        kind = case["kind"]
        tname = target_name(kind, gf, mf)
        mm = metamodel_from_file(gf)
        if kind == "mm-dot":
            gen = lambda out, ow: G.metamodel_generate_dot.generator(None, mm, out, ow, False)  # noqa
        elif kind == "mm-plantuml":
            gen = lambda out, ow: G.metamodel_generate_plantuml.generator(None, mm, out, ow, False)  # noqa
        else:
            model = mm.model_from_file(mf)
            gen = lambda out, ow: G.model_generate_dot.generator(mm, model, out, ow, False)  # noqa
        ref = os.path.join(d, "ref")
        os.mkdir(ref)
        gen(ref, False)                                   # completely undisturbed: plain builtins.open
        full = real_open(os.path.join(ref, tname), encoding="utf-8").read()
        groups = []
        serial = [0]
        systmp = os.path.join(d, "systmp")          # the "system temporary folder" of this case (tempfile.gettempdir())
        os.mkdir(systmp)
        tempfile.tempdir = systmp
        for bufsize, xdev in [(b, False) for b in case["bufsizes"]] + [(case["bufsizes"][0], True)]:
            probe = os.path.join(d, "probe%d_%d" % (bufsize, xdev))
            os.mkdir(probe)
            raised, pd = run_once(gen, probe, False, {}, bufsize, xdev)
            if raised:
                return {"error": "undisturbed run through the instrumented file failed: %s" % raised}
            got = real_open(os.path.join(probe, tname), encoding="utf-8").read()
            if norm(got) != norm(full):
                return {"error": "the instrumented file stack changes the output (bufsize %d, other file system %s)" % (bufsize, xdev)}
            sched, events, at_close = schedule(pd)
            total = pd.raw
            plans = [{"kind": "open"}, {"kind": "close"}, {"kind": "replace"}]
            for k in pick(total, case.get("quick", True)):
                for persistent in (True, False):
                    for partial in (False, True):
                        plans.append({"kind": "raw", "k": k, "persistent": persistent, "partial": partial})
            for k in sorted(set([0, total - 1])):      # Ctrl-C while the file is written: not an Exception subclass
                plans.append({"kind": "raw", "k": k, "persistent": False, "partial": False, "interrupt": True})
            plans.append({"kind": "raw", "k": total + 3, "persistent": True, "partial": False})   # beyond the last write: no failure
            out = []
            for i, plan in enumerate(plans):
                for pre in ((False, True) if i % 5 == 0 else (False,)):
                    serial[0] += 1
                    od = os.path.join(d, "o%d" % serial[0])
                    os.mkdir(od)
                    old = None
                    tpath = os.path.join(od, tname)
                    if pre:
                        old = "OLD CONTENT\n"
                        with real_open(tpath, "w") as f:
                            f.write(old)
                    raised, dk = run_once(gen, od, pre, plan, bufsize, xdev)     # pre-existing file: run with --overwrite

                    def state():
                        if not os.path.exists(tpath):
                            return "absent", 0
                        c = real_open(tpath, encoding="utf-8", errors="replace").read()
                        return ("complete" if norm(c) == norm(full) else ("old" if c == old else "partial")), len(c.encode())
                    st, size = state()
                    others = sorted(x for x in os.listdir(od) if x != tname) + sorted("<system temp folder>/" + x for x in os.listdir(systmp))
                    for x in os.listdir(systmp):
                        os.remove(os.path.join(systmp, x))
                    # a later run without --overwrite (the disk works again)
                    raised2, dk2 = run_once(gen, od, False, {}, bufsize, xdev)
                    st2, size2 = state()
                    out.append({"plan": plan, "pre": pre, "raised": raised, "fired": dk.fired, "target": st, "size": size, "leftovers": others,
                                "opened": dk.opened, "replaced": dk.replaced, "rerun_target": st2, "rerun_raised": raised2})
                    shutil.rmtree(od, ignore_errors=True)
            groups.append({"bufsize": bufsize, "xdev": xdev, "sched": sched, "events": events, "copy_raw": pd.copy_raw, "raw_total": total, "results": out})
        return {"target": tname, "full_size": len(full.encode()), "groups": groups}
    finally:
        tempfile.tempdir = None
        shutil.rmtree(d, ignore_errors=True)


def main():
    payload = json.load(sys.stdin)
    json.dump([run_case(c) for c in payload["cases"]], sys.stdout)


main()
