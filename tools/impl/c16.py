"""Implementation runner for C16: histories of metamodel creations and model loads.

stdin: {"jobs": [job, ...]}  with job = {"files": {name: text}, "cfgs": [cfg, ...], "ops": [op, ...]}
  op = {"op": "new", "slot": s, "cfg": index into cfgs}
     | {"op": "load", "slot": s, "input": text, "via": "str" | "file" | "strfn", "file": name}
stdout: one list per job with one {"res": ..., "st": ...} per operation.

Every job runs in a child forked from this process *before any metamodel was created*
(textx imported, nothing else), i.e. on the process state a fresh interpreter has after
`import textx`.  A fresh-state evaluation of one load is simply the job [new, load].
Nothing in textX is patched except TextXMetaModel.__init__, wrapped only to stamp a creation
serial on each metamodel object (used to report which metamodel owns the shared base rules).
"""
import decimal
import fractions
import hashlib
import io
import json
import os
import re
import shutil
import sys
import tempfile

import textx.lang as lang
import textx.metamodel as mmod
from textx import metamodel_from_str, metamodel_from_file
from textx.exceptions import TextXError, TextXSemanticError, TextXSyntaxError
import textx.scoping.providers as providers

# ------------------------------------------------------------------ grammars
GRAMMARS = {
    "GA": """
Model: 'A' items+=Item refs*=Ref;
Item: 'item' name=ID '=' v=INT ';';
Ref: 'ref' target=[Item] ';';
""",
    "GB": """
Model: Item | INT | STRING;
Item: 'item' name=ID v=NUMBER (b?='!')? ;
""",
    "GC": """
Model: 'C' vals+=Val[','] ('opt' o=BASETYPE)?;
Val: x=NUMBER | s=STRING | i=ID;
Comment: /#.*$/;
""",
    "GD": """
Model: imports*=Import items*=Item refs*=Ref;
Import: 'import' importURI=STRING ';';
Item: 'item' name=ID ('=' v=FLOAT)? ';';
Ref: 'ref' target=[Item] ';';
""",
    "GE": """
Model: Num | Item;
Num: NUMBER | BOOL;
Item: 'item' name=ID v=INT;
""",
    # the root rule yields whatever the object processors of its match rules return
    "GF": r"""
Model: Measure | Pair | Item;
Measure: /\d+(\.\d+)?mm/;
Pair: /\d+:\d+/;
Item: 'item' name=ID v=INT;
""",
    # grammar text full of comments (line, block, adjacent, after a line comment's newline: the shapes for which
    # Arpeggio's memoization is known to interact with comment skipping), parsed by the cached textX-grammar parser
    "GH": """// leading line comment
/* block */ Model: 'H' /*x*/ items+=Item //
/**/ ;
Item: 'item' name=ID //c
/**/ /* two */ ('=' v=INT)? ';' ; // end
/* tail *//**/
""",
    # invalid grammars: creation fails (after the metamodel object was initialised)
    "BAD1": "Model: 'a' x=INT",
    "BAD2": "Model: 'a' x=Nope; A: ID | INT;",
    "BAD3": "Model: a=ID (b=[Model|FQN|^x.y ; B: INT;",
    "BAD4": "Model: items+=Item; Item: 'i' name=ID; Item: 'j' name=ID;",
    "BAD5": "Model: 'a' //\n/**/ x= ; /* c */",
    "BAD6": "// c\nModel: 'a' x=INT; /* open",
    "BAD7": "Model: b=/x/ //\n/**/ | //\n/* */ ;\nA: //x\n;",
}

serial = [0]
EV = []          # events of the current operation: R replace, r restore, E end of construction, M model processor raised
OPENED = []      # files opened (read) during the current operation
_orig_init = mmod.TextXMetaModel.__init__


def _stamped_init(self, *a, **k):
    serial[0] += 1
    self.__dict__["_c16_serial"] = serial[0]
    _orig_init(self, *a, **k)


mmod.TextXMetaModel.__init__ = _stamped_init

import builtins  # noqa: E402
import textx.model as tmodel  # noqa: E402

_orig_open = builtins.open


def _rec_open(file, *a, **k):
    if isinstance(file, str) and (not a or "r" in str(a[0])) and "w" not in str(k.get("mode", "r")):
        OPENED.append(os.path.basename(file))
    return _orig_open(file, *a, **k)


_orig_end = tmodel._end_model_construction


def _rec_end(model):
    EV.append("E")
    return _orig_end(model)


tmodel._end_model_construction = _rec_end


def record_parser_events(mm):
    """Record (not change) the calls that instrument / restore user classes; the parser class is per metamodel."""
    cls = type(mm._parser_blueprint)
    rep, res = cls._replace_user_attr_methods, cls._restore_user_attr_methods

    def _rep(self):
        EV.append("R")
        return rep(self)

    def _res(self):
        EV.append("r")
        return res(self)
    cls._replace_user_attr_methods = _rep
    cls._restore_user_attr_methods = _res


# ------------------------------------------------------------------ user classes (one set per grammar, shared by
# every metamodel built from that grammar in this process -- like module-level classes of an application)
def make_classes():
    class ItemPlain:
        def __init__(self, parent=None, **kw):
            self.parent = parent
            for k, v in kw.items():
                setattr(self, k, v)
            self.inited = True

    class ItemSet:
        """own __setattr__ that counts its calls on the instance"""
        def __init__(self, parent=None, **kw):
            self.parent = parent
            for k, v in kw.items():
                setattr(self, k, v)

        def __setattr__(self, k, v):
            d = self.__dict__
            d[k] = v
            d["nset"] = d.get("nset", 0) + 1

    class ItemGet:
        """own __getattribute__: names read back upper-cased"""
        def __init__(self, parent=None, **kw):
            self.parent = parent
            for k, v in kw.items():
                setattr(self, k, v)

        def __getattribute__(self, k):
            v = object.__getattribute__(self, k)
            return v.upper() if k == "name" and isinstance(v, str) else v

    class ItemBoom:
        def __init__(self, parent=None, **kw):
            if kw.get("name") == "boom":
                raise ValueError("boom in __init__")
            self.parent = parent
            for k, v in kw.items():
                setattr(self, k, v)

    class ModelPlain:
        def __init__(self, parent=None, **kw):
            for k, v in kw.items():
                setattr(self, k, v)
            self.minit = True

    class RefPlain:
        def __init__(self, parent=None, **kw):
            self.parent = parent
            for k, v in kw.items():
                setattr(self, k, v)

    out = {}
    for shape, c in (("plain", ItemPlain), ("set", ItemSet), ("boom", ItemBoom), ("get", ItemGet)):
        c.__name__ = "Item"
        out["Item:" + shape] = c
    ModelPlain.__name__ = "Model"
    out["Model:plain"] = ModelPlain
    RefPlain.__name__ = "Ref"
    out["Ref:plain"] = RefPlain
    return out


CLASSES = {}   # grammar -> {"Item:plain": cls, ...}


def classes_for(g, names):
    table = CLASSES.setdefault(g, make_classes())
    return [table[n] for n in names]


# ------------------------------------------------------------------ processors
def obj_processors(names):
    procs = {}
    for n in names:
        if n == "INT:inc":
            procs["INT"] = lambda x: int(x) + 1
        elif n == "INT:no13":
            # a base-type processor rejecting a value: raises while the object graph is being built
            def no13(x):
                if int(x) == 13:
                    raise TextXSemanticError("13 is not allowed")
                return int(x)
            procs["INT"] = no13
        elif n == "ID:nope":
            def nope(x):
                if x == "nope":
                    raise ValueError("nope is not a name")
                return x
            procs["ID"] = nope
        elif n == "STRING:up":
            procs["STRING"] = lambda x: x[1:-1].upper()
        elif n == "Measure:decimal":
            procs["Measure"] = lambda x: decimal.Decimal(x[:-2])
        elif n == "Measure:fraction":
            procs["Measure"] = lambda x: fractions.Fraction(x[:-2])
        elif n == "Measure:obj":
            procs["Measure"] = lambda x: Plain(x)
        elif n == "Pair:tuple":
            procs["Pair"] = lambda x: tuple(int(t) for t in x.split(":"))
        elif n == "Pair:frozenset":
            procs["Pair"] = lambda x: frozenset(int(t) for t in x.split(":"))
        elif n == "Pair:list":
            procs["Pair"] = lambda x: [int(t) for t in x.split(":")]
        elif n == "Item:check":
            def check(o):
                if o.name == "bad":
                    raise TextXSemanticError("bad item", **lang_loc(o))
            procs["Item"] = check
        elif n == "Item:mark":
            def mark(o):
                o.mark = getattr(o, "mark", 0) + 1
            procs["Item"] = mark
        elif n == "Item:raise":
            def praise(o):
                if o.name == "perr":
                    raise KeyError("perr")
            procs["Item"] = praise
    return procs


class Plain:
    """a mutable non-textX object returned by an object processor"""
    def __init__(self, text):
        self.text = text


def lang_loc(o):
    from textx import get_location
    return get_location(o)


def model_processors(names):
    out = []
    for n in names:
        if n == "count":
            def count(model, mm):
                if hasattr(model, "items"):
                    model.nitems = len(model.items)
            out.append(count)
        elif n == "bump":
            def bump(model, mm):
                if hasattr(model, "_tx_metamodel"):
                    model.bumped = getattr(model, "bumped", 0) + 1
            out.append(bump)
        elif n == "raise":
            def mraise(model, mm):
                if any(getattr(i, "name", None) == "mperr" for i in getattr(model, "items", []) or []):
                    EV.append("M")
                    raise TextXSemanticError("model processor says no")
            out.append(mraise)
    return out


# ------------------------------------------------------------------ nested loads (started from inside a load)
NEST = {}        # the nested load requested for the current operation: phase, slot, input, via, file; filled: done, res
SLOTS = {}
TMP = [None]


def load_model(mm, op, tmp):
    if op["via"] == "file":
        return mm.model_from_file(os.path.join(tmp, op["file"]))
    if op["via"] == "strfn":
        return mm.model_from_str(op["input"], file_name=os.path.join(tmp, op["file"]))
    return mm.model_from_str(op["input"])


def model_res(m):
    return {"ok": "model", "dump": dump_val(m, set()), "prim": type(m) in (int, float, str, bool), "imm": not hasattr(m, "_tx_parser")}


def do_nested(phase):
    """called by the hooks of a configuration with "nest": a complete top-level load in the middle of the current one"""
    if not NEST or NEST.get("done") or NEST["phase"] != phase:
        return
    NEST["done"] = True
    mm = SLOTS.get(NEST["slot"])
    if mm is None:
        NEST["res"] = {"ok": "noslot"}
        return
    ev = list(EV)
    try:
        NEST["res"] = model_res(load_model(mm, NEST, TMP[0]))
    except Exception as e:  # noqa   the outer load goes on
        NEST["res"] = {"err": dump_err(e, TMP[0])}
    NEST["ev"] = "".join(EV[len(ev):])
    del EV[len(ev):]          # the outer load's events are classified without the inner ones


def nest_hooks(mm, procs):
    def provider(obj, attr, obj_ref):
        do_nested("provider")
        root = obj
        while getattr(root, "parent", None) is not None:
            root = root.parent
        for it in getattr(root, "items", []) or []:
            if it.name == obj_ref.obj_name:
                return it
        return None

    def ref_proc(o):
        do_nested("objproc")

    def model_proc(model, metamodel):
        do_nested("modelproc")
    mm.register_scope_providers({"Ref.target": provider})
    procs["Ref"] = ref_proc
    mm.register_model_processor(model_proc)


# ------------------------------------------------------------------ canonical dumps
def canon_msg(s, tmp):
    s = str(s)
    if tmp:
        s = s.replace(os.path.realpath(tmp) + os.sep, "").replace(tmp + os.sep, "")
    s = re.sub(r"0x[0-9a-fA-F]+", "0x?", s)
    return s


def dump_err(e, tmp):
    d = {"exc": type(e).__name__, "msg": canon_msg(e, tmp)}
    if isinstance(e, TextXError):
        d["line"] = e.line
        d["col"] = e.col
        d["file"] = os.path.basename(e.filename) if e.filename else None
        d["err_type"] = e.err_type
        if isinstance(e, TextXSyntaxError):
            d["expected"] = [getattr(r, "rule_name", "") or getattr(r, "to_match", "?") for r in (e.expected_rules or [])]
    return d


def dump_val(v, seen, depth=0):
    if v is None:
        return "None"
    if isinstance(v, bool):
        return "b" + str(v)
    if isinstance(v, int):
        return "i%d" % v
    if isinstance(v, float):
        return "f" + repr(v)
    if isinstance(v, str):
        return "s" + json.dumps(v)
    if isinstance(v, list):
        return "[" + ",".join(dump_val(x, seen, depth) for x in v) + "]"
    cls = type(v)
    if isinstance(v, (tuple, frozenset)):
        xs = list(v) if isinstance(v, tuple) else sorted(v, key=repr)
        return "%s(%s)" % (cls.__name__, ",".join(dump_val(x, seen, depth) for x in xs))
    if isinstance(v, (decimal.Decimal, fractions.Fraction)):
        return "%s:%s" % (cls.__name__, v)
    if isinstance(v, Plain):
        return "Plain{%s}" % ",".join("%s=%s" % (k, dump_val(x, seen, depth + 1)) for k, x in sorted(vars(v).items()) if not k.startswith("_"))
    if not hasattr(cls, "_tx_attrs"):
        return "<%s>" % cls.__name__
    if id(v) in seen or depth > 12:
        return "@%s:%s" % (cls.__name__, getattr(v, "name", "?"))
    seen.add(id(v))
    parts = []
    names = list(cls._tx_attrs)
    try:
        extra = sorted(k for k in vars(v) if not k.startswith("_") and k not in names and k != "parent")
    except TypeError:
        extra = []
    for a in names + extra:
        try:
            x = getattr(v, a)
        except AttributeError:
            parts.append(a + "=<unset>")
            continue
        meta = cls._tx_attrs.get(a)
        if meta is not None and meta.ref and not meta.cont:
            if isinstance(x, list):
                parts.append(a + "=[" + ",".join("@%s:%s" % (type(t).__name__, getattr(t, "name", "?")) for t in x) + "]")
            else:
                parts.append(a + "=" + ("None" if x is None else "@%s:%s" % (type(x).__name__, getattr(x, "name", "?"))))
        else:
            parts.append(a + "=" + dump_val(x, seen, depth + 1))
    par = getattr(v, "parent", None)
    tag = cls.__name__ + ("^" + type(par).__name__ if par is not None and hasattr(type(par), "_tx_attrs") else "")
    fn = getattr(v, "_tx_filename", None)
    pos = "%s-%s" % (getattr(v, "_tx_position", "?"), getattr(v, "_tx_position_end", "?"))
    return "%s(%s%s){%s}" % (tag, pos, "@" + os.path.basename(fn) if fn and depth == 0 else "", ",".join(parts))


def dump_mm(mm):
    out = []
    for ns, table in sorted(mm.namespaces.items(), key=lambda kv: str(kv[0])):
        for name, cls in table.items():
            attrs = ",".join("%s:%s:%s:%s%s" % (a.name, a.cls.__name__, a.mult, "c" if a.cont else "r", "?" if a.bool_assignment else "")
                             for a in cls._tx_attrs.values())
            inh = ",".join(c.__name__ + ("" if getattr(c, "_tx_metamodel", mm) is mm else "!foreign") for c in cls._tx_inh_by)
            own = "" if cls._tx_metamodel is mm else "!foreign"
            out.append("%s.%s%s:%s{%s}<%s>" % (ns, name, own, cls._tx_type, attrs, inh))
    return ";".join(out)


# ------------------------------------------------------------------ persistent-state digest
def cache_size(root, acc=None):
    acc = acc if acc is not None else set()
    stack, n = [root], 0
    while stack:
        r = stack.pop()
        if id(r) in acc or r is None:
            continue
        acc.add(id(r))
        n += len(getattr(r, "_result_cache", {}) or {})
        stack.extend(getattr(r, "nodes", []) or [])
    return n


def parser_caches(p):
    n = cache_size(p.parser_model)
    if getattr(p, "comments_model", None) is not None:
        n += cache_size(p.comments_model)
    return n


BP_FIELDS = ("position", "input", "nm", "parse_tree", "file_name", "line_ends", "comment_positions", "_inst_stack",
             "_instances", "_crossrefs", "debug", "in_rule", "in_parse_comments", "in_lex_rule", "in_not", "last_pexpression",
             "eolterm", "skipws", "memoization", "cache_hits", "cache_misses", "_user_class_inst", "comments", "sem_actions")


def blueprint_digest(p):
    d = []
    for f in BP_FIELDS:
        if not hasattr(p, f):
            d.append(f + "=<absent>")
        else:
            v = getattr(p, f)
            d.append("%s=%s" % (f, v if isinstance(v, (bool, int, str, type(None))) else "%s%d" % (type(v).__name__, len(v)) if hasattr(v, "__len__") else type(v).__name__))
    return hashlib.sha1(";".join(d).encode()).hexdigest()[:10]


def state_digest(slots, used_grammars):
    st = {}
    st["gp"] = sorted([bool(k), bool(p.memoization)] for k, p in lang.textX_parsers.items())
    st["gpc"] = sum(parser_caches(p) for p in lang.textX_parsers.values())
    st["basec"] = sum(len(r._result_cache) for r in list(lang.BASE_TYPE_RULES.values()) + [lang.OBJECT])
    owners = sorted({getattr(getattr(getattr(r, "_tx_class", None), "_tx_metamodel", None), "_c16_serial", 0)
                     for r in list(lang.BASE_TYPE_RULES.values()) + [lang.OBJECT]})
    st["owner"] = owners
    st["slots"] = {}
    for s, mm in sorted(slots.items()):
        bp = mm._parser_blueprint
        st["slots"][str(s)] = {"ser": mm._c16_serial, "bp": blueprint_digest(bp), "rc": parser_caches(bp),
                               "repo": sorted(os.path.basename(k) for k in mm._tx_model_repository.all_models.filename_to_model)
                               if hasattr(mm, "_tx_model_repository") else None}
    st["cls"] = {}
    for g in sorted(used_grammars):
        for key, c in sorted(CLASSES.get(g, {}).items()):
            if "_tx_obj_attrs" not in c.__dict__:
                continue       # never registered with a metamodel
            st["cls"][g + "/" + key] = {
                "instr": c.__dict__.get("_tx_instrumented", 0),
                "real": sorted(k for k in c.__dict__ if k.startswith("_tx_real_")),
                "dunder": sorted(k for k in ("__setattr__", "__getattribute__", "__delattr__") if k in c.__dict__),
                "store": len(c.__dict__["_tx_obj_attrs"]),
                "owner": getattr(c.__dict__.get("_tx_metamodel"), "_c16_serial", 0)}
    return st


# ------------------------------------------------------------------ operations
def build_mm(cfg, tmp):
    g = cfg["g"]
    kw = {}
    if cfg.get("memo"):
        kw["memoization"] = True
    if cfg.get("auto_init") is False:
        kw["auto_init_attributes"] = False
    if cfg.get("ignore_case"):
        kw["ignore_case"] = True
    if cfg.get("tools"):
        kw["textx_tools_support"] = True
    if cfg.get("repo"):
        kw["global_repository"] = True
    if cfg.get("classes"):
        kw["classes"] = classes_for(g, cfg["classes"])
    if cfg.get("debug"):
        kw["debug"] = True
        kw["file"] = io.StringIO()
    if cfg.get("from_file"):
        path = os.path.join(tmp, "grammar_%s.tx" % g)
        with open(path, "w") as f:
            f.write(GRAMMARS[g])
        mm = metamodel_from_file(path, **kw)
    else:
        mm = metamodel_from_str(GRAMMARS[g], **kw)
    record_parser_events(mm)
    procs = obj_processors(cfg.get("objp", []))
    if cfg.get("nest"):
        nest_hooks(mm, procs)
    if procs:
        mm.register_obj_processors(procs)
    for p in model_processors(cfg.get("modelp", [])):
        mm.register_model_processor(p)
    if cfg.get("provider") == "plain":
        mm.register_scope_providers({"*.*": providers.PlainNameImportURI()})
    elif cfg.get("provider") == "fqn":
        mm.register_scope_providers({"*.*": providers.FQNImportURI()})
    return mm


def run_job(job, tmp):
    for name, text in job.get("files", {}).items():
        with open(os.path.join(tmp, name), "w") as f:
            f.write(text)
    slots = SLOTS
    slots.clear()
    TMP[0] = tmp
    used = set()
    out = []
    for op in job["ops"]:
        del EV[:]
        del OPENED[:]
        NEST.clear()
        if op.get("nest"):
            NEST.update(op["nest"])
        try:
            if op["op"] == "new":
                cfg = job["cfgs"][op["cfg"]]
                used.add(cfg["g"])
                mm = build_mm(cfg, tmp)
                slots[op["slot"]] = mm
                res = {"ok": "mm", "dump": dump_mm(mm)}
            elif op["op"] == "load":
                mm = slots.get(op["slot"])
                if mm is None:
                    res = {"ok": "noslot"}
                else:
                    res = model_res(load_model(mm, op, tmp))
            else:
                res = {"ok": "?"}
        except BaseException as e:  # noqa
            if isinstance(e, (KeyboardInterrupt, SystemExit)):
                raise
            res = {"err": dump_err(e, tmp)}
        if op.get("nest"):
            res["inner"] = NEST.get("res")
        out.append({"res": res, "st": state_digest(slots, used), "ev": "".join(EV),
                    "opened": sorted(set(f for f in OPENED if not f.startswith("grammar_")))})
    return out


def forked(job, root):
    r, w = os.pipe()
    pid = os.fork()
    if pid == 0:
        code = 0
        try:
            os.close(r)
            tmp = tempfile.mkdtemp(prefix="j", dir=root)
            os.chdir(tmp)
            builtins.open = _rec_open
            sys.stdout = io.StringIO()
            try:
                data = json.dumps(run_job(job, tmp))
            except BaseException as e:  # noqa
                import traceback
                data = json.dumps({"runner_error": traceback.format_exc()[-3000:]})
            with os.fdopen(w, "w") as f:
                f.write(data)
        except BaseException:  # noqa
            code = 3
        os._exit(code)
    os.close(w)
    with os.fdopen(r) as f:
        data = f.read()
    os.waitpid(pid, 0)
    if not data:
        return {"runner_error": "child produced no output"}
    return json.loads(data)


def main():
    payload = json.load(sys.stdin)
    assert not lang.textX_parsers, "runner process is not pristine"
    root = tempfile.mkdtemp(prefix="c16_")
    import gc
    gc.collect()
    gc.freeze()          # children do not touch (copy) the parent's objects when collecting
    try:
        outs = [forked(j, root) for j in payload["jobs"]]
    finally:
        shutil.rmtree(root, ignore_errors=True)
    json.dump(outs, sys.stdout)


main()
