"""Implementation runner for C01 / C06 (run with PYTHONPATH=$TEXTX_REPO).

stdin: {"cases": [{"grammar": text, "opts": {...}, "inputs": [text, ...], "files": bool}]}
stdout: per case {"grammar_error", "dump": pegdump json, "mm": mmdump list, "runs": [per input
   {"table": [[oid,pos,len]..], "gtable": [[oid,pos,gstart,glen]..], "tree": Arpeggio-level canonical
    outcome (P:/E:/X:), "model": textX-level outcome from model_from_str, "model_file": same from
    model_from_file (only when "files")}]}
textX-level outcome: {"ok": True, "value": V} | {"ok": False, "err": "syntax"|"TextXSemanticError"|"crash:<T>", "pos"}
V: None | {"b": bool} | {"i": int} | {"f": repr} | {"s": str} | {"l": [V..]} |
   {"cls", "pos", "end", "loc": [line, col, nchar, filename], "attrs": [[name, V]..], "extra": [names],
    "parent_ok": bool}
Everything goes through the public API (metamodel_from_str, model_from_str, model_from_file, get_location).
"""
import json
import os
import shutil
import signal
import sys
import tempfile

sys.path.insert(0, os.path.dirname(os.path.dirname(os.path.abspath(__file__))))
import pegdump  # noqa: E402
import mmdump  # noqa: E402

from textx import metamodel_from_str, get_location  # noqa: E402
from textx.exceptions import TextXError, TextXSyntaxError  # noqa: E402


class Timeout(BaseException):
    pass


def _alarm(signum, frame):
    raise Timeout()


def dump_value(o, parent, depth=0):
    if depth > 80:
        return {"s": "<deep>"}
    if o is None:
        return None
    if isinstance(o, bool):
        return {"b": o}
    if isinstance(o, int):
        return {"i": o}
    if isinstance(o, float):
        return {"f": repr(o)}
    if isinstance(o, str):
        return {"s": o}
    if isinstance(o, list):
        return {"l": [dump_value(x, parent, depth + 1) for x in o]}
    cls = type(o)
    attrs = getattr(cls, "_tx_attrs", None)
    if attrs is None:
        return {"s": "<%s>" % cls.__name__}
    try:
        loc = get_location(o)
        loc = [loc["line"], loc["col"], loc["nchar"], os.path.basename(loc["filename"]) if loc["filename"] else None]
    except Exception as e:
        loc = "X:" + type(e).__name__
    d = {"cls": cls.__name__, "pos": getattr(o, "_tx_position", None), "end": getattr(o, "_tx_position_end", None),
         "loc": loc, "attrs": [], "extra": [], "parent_ok": True}
    for name, meta in attrs.items():
        val = getattr(o, name, "<missing>")
        if meta.ref and not meta.cont:
            # non-containment reference: the resolved target(s), not dumped recursively
            def ref(x):
                if x is None:
                    return None
                return {"refto": {"name": getattr(x, "name", None), "cls": type(x).__name__,
                                  "pos": getattr(x, "_tx_position", None)}}
            d["attrs"].append([name, {"l": [ref(x) for x in val]} if isinstance(val, list) else ref(val)])
        else:
            d["attrs"].append([name, dump_value(val, o, depth + 1)])
    for k in vars(o):
        if not k.startswith("_tx") and k != "parent" and k not in attrs:
            d["extra"].append(k)
    if parent is None:
        d["parent_ok"] = not hasattr(o, "parent")
    else:
        d["parent_ok"] = getattr(o, "parent", None) is parent
    return d


def load(fn):
    try:
        m = fn()
    except TextXSyntaxError as e:
        c = e.__cause__
        return {"ok": False, "err": "syntax", "pos": getattr(c, "position", None), "line": e.line, "col": e.col}
    except TextXError as e:
        return {"ok": False, "err": type(e).__name__, "pos": None, "msg": str(e)[:200]}
    except Timeout:
        raise
    except RecursionError:
        return {"ok": False, "err": "crash:RecursionError", "pos": None}
    except Exception as e:
        return {"ok": False, "err": "crash:" + type(e).__name__, "pos": None, "msg": str(e)[:200]}
    return {"ok": True, "value": dump_value(m, None)}


def main():
    payload = json.load(sys.stdin)
    signal.signal(signal.SIGALRM, _alarm)
    sys.setrecursionlimit(3000)
    tmp = tempfile.mkdtemp(prefix="c01_")
    out = []
    try:
        for case in payload["cases"]:
            res = {"grammar_error": None, "dump": None, "mm": None, "runs": []}
            out.append(res)
            try:
                signal.setitimer(signal.ITIMER_REAL, 10, 1)
                mm = metamodel_from_str(case["grammar"], **case.get("opts", {}))
                d = pegdump.dump_metamodel(mm)
                mi = mmdump.dump_mm(mm, d)
                signal.setitimer(signal.ITIMER_REAL, 0)
            except Timeout:
                res["grammar_error"] = "Timeout"
                continue
            except pegdump.Unsupported as e:
                signal.setitimer(signal.ITIMER_REAL, 0)
                res["grammar_error"] = "Unsupported: %s" % e
                continue
            except Exception as e:
                signal.setitimer(signal.ITIMER_REAL, 0)
                res["grammar_error"] = "%s: %s" % (type(e).__name__, str(e)[:200])
                continue
            res["dump"] = d.to_json()
            res["mm"] = mi
            res["auto"] = bool(mm.auto_init_attributes)
            res["use_grp"] = bool(mm.use_regexp_group)
            for k, text in enumerate(case["inputs"]):
                run = {"table": d.oracle_table(text), "gtable": mmdump.group_table(d, mi, text)}
                try:
                    signal.setitimer(signal.ITIMER_REAL, 3, 1)
                    run["tree"] = pegdump.parse_outcome(d, mm._parser_blueprint.clone(), text)
                    run["model"] = load(lambda: mm.model_from_str(text))
                    if case.get("files"):
                        path = os.path.join(tmp, "m%d.txt" % k)
                        with open(path, "w", encoding="utf-8", newline="") as f:
                            f.write(text)
                        run["model_file"] = load(lambda: mm.model_from_file(path))
                        run["file_name"] = os.path.basename(path)
                    signal.setitimer(signal.ITIMER_REAL, 0)
                except Timeout:
                    run["timeout"] = True
                except pegdump.Unsupported as e:
                    signal.setitimer(signal.ITIMER_REAL, 0)
                    run["unsupported"] = str(e)
                res["runs"].append(run)
    finally:
        shutil.rmtree(tmp, ignore_errors=True)
    json.dump(out, sys.stdout)


if __name__ == "__main__":
    main()
