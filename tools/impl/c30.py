"""Implementation runner for C30: drive the real `textx` click group in-process."""
import json
import logging
import os
import shutil
import sys
import tempfile

from click.testing import CliRunner
import textx.registration as reg
from textx import metamodel_from_str, GeneratorDesc, LanguageDesc
from textx.registration import register_language, register_generator, metamodel_for_language
from textx.cli import textx as textx_cli

try:
    from textx.registration import GeneratorParam
except ImportError:  # pragma: no cover
    GeneratorParam = None

GRAMMAR = "Model: 'model' name=ID items*=Item; Item: 'item' name=ID ';';"
GRAMMAR1 = "Model: 'model' name=ID items*=Item; Item: 'entry' name=ID ';';"
MMS = []
calls = []


def mk_gen(tag, lang):
    def gen(metamodel, model, output_path, overwrite, debug, **custom_args):
        mm = [i for i, m in enumerate(MMS) if m is metamodel]
        if not mm and metamodel is metamodel_for_language("textx"):
            mm = [3]
        calls.append({"gen": tag, "lang": lang, "mm": mm[0] if mm else 2, "overwrite": overwrite,
                      "mm_is_models": model is None or model._tx_metamodel is metamodel,
                      "model": None if model is None else os.path.basename(model._tx_filename),
                      "kwargs": {k: (True if v is True else v) for k, v in custom_args.items()}})
    return gen


class Capture(logging.Handler):
    def __init__(self):
        super().__init__()
        self.lines = []

    def emit(self, record):
        self.lines.append(record.getMessage())


def main():
    payload = json.load(sys.stdin)
    mm = metamodel_from_str(GRAMMAR)
    reg.clear_language_registrations()
    reg.clear_generator_registrations()
    mm1 = metamodel_from_str(GRAMMAR1)
    MMS.extend([mm, mm1])
    register_language(LanguageDesc("c30lang", pattern="*.c30x", metamodel=mm))
    register_language(LanguageDesc("c30other", pattern="*.c30y", metamodel=mm1))
    LANGS = {0: "c30lang", 1: "c30other", 2: "any"}
    cap = Capture()
    logging.getLogger().addHandler(cap)
    runner = CliRunner()
    out = []
    declared_seen = {}
    for i, case in enumerate(payload["cases"]):
        d = tempfile.mkdtemp(prefix="c30_")
        try:
            for name, content in case["files"].items():
                with open(os.path.join(d, name), "w") as f:
                    f.write(content)
            target = "t%d" % i
            for lang, decl in (case.get("declared") or {}).items():
                if decl == "absent":
                    continue
                params = None if decl is None else [GeneratorParam(name=n, description="", mandatory=m) for n, m in decl]
                register_generator(GeneratorDesc(LANGS[int(lang)], target, generator=mk_gen(target, int(lang)), custom_args=params))
            del calls[:]
            del cap.lines[:]
            argv = [a.replace("{TARGET}", target) for a in case["argv"]]
            cwd = os.getcwd()
            os.chdir(d)
            try:
                r = runner.invoke(textx_cli, argv)
            finally:
                os.chdir(cwd)
            out.append({"exit": r.exit_code, "calls": list(calls), "log": list(cap.lines),
                        "exc": None if r.exception is None or isinstance(r.exception, SystemExit) else type(r.exception).__name__ + ": " + str(r.exception)})
        finally:
            shutil.rmtree(d, ignore_errors=True)
    json.dump(out, sys.stdout)


main()
