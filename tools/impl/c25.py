"""Implementation runner for C25: write a tree of grammar files, load the main grammar with the
real textX, and report namespaces, import lists, resolved references, class identities,
metamodel[name] look-ups and the _tx_fqn of parsed objects.  Observation only through the
public objects; two wrappers installed here log which files are read and which classes are
created (nothing in textX is changed)."""
import json
import os
import re
import shutil
import sys
import tempfile

import textx.metamodel as tmm
import textx.registration as treg
from textx import LanguageDesc, metamodel_from_str, register_language
from textx.exceptions import TextXError

EXT = {}      # language name -> registered meta-model (the referenced languages of the cases)


def ns_of_path(path, root):
    rel = os.path.relpath(path, root)
    if rel.endswith(".tx"):
        rel = rel[:-3]
    return ".".join(rel.split(os.sep))


def run_case(case):
    d = tempfile.mkdtemp(prefix="c25_")
    loads, created = [], []
    orig_from_file = tmm.metamodel_from_file
    orig_new_class = tmm.TextXMetaModel._new_class
    out = {}
    try:
        for rel, text in case["files"].items():
            p = os.path.join(d, *rel.split("/"))
            os.makedirs(os.path.dirname(p), exist_ok=True)
            with open(p, "w") as f:
                f.write(text)
        main = os.path.join(d, *case["main"].split("/"))
        root = os.path.dirname(main)

        def from_file(file_name, **kw):
            if os.path.exists(file_name):
                loads.append(ns_of_path(os.path.abspath(file_name), root))
            return orig_from_file(file_name, **kw)

        def new_class(self, *a, **kw):
            c = orig_new_class(self, *a, **kw)
            created.append(c)
            return c

        tmm.metamodel_from_file = from_file
        tmm.TextXMetaModel._new_class = new_class
        try:
            mm = from_file(main)
        except FileNotFoundError as e:
            out["error"] = ["filenotfound", ns_of_path(os.path.abspath(e.filename), root)]
        except TextXError as e:
            msg = getattr(e, "message", str(e))
            m = re.search(r'Unexisting rule "([^"]*)"', msg)
            m2 = re.search(r'Unknown class/rule "([^"]*)"', msg)
            if m:
                out["error"] = ["unexisting", m.group(1)]
            elif m2:
                out["error"] = ["unknowncls", m2.group(1)]
            else:
                out["error"] = ["other", type(e).__name__ + ": " + msg.replace(d, "<tmp>")]
        except Exception as e:  # noqa: BLE001
            out["error"] = ["other", type(e).__name__ + ": " + str(e).replace(d, "<tmp>")]
        finally:
            tmm.metamodel_from_file = orig_from_file
            tmm.TextXMetaModel._new_class = orig_new_class
        out["loads"] = loads
        out["created"] = len(created)
        if "error" in out:
            return out
        ident = {id(c): i for i, c in enumerate(created)}

        def cref(c):
            if c is None:
                return None
            for lang, emm in EXT.items():
                if getattr(c, "_tx_metamodel", None) is emm:
                    return ["@%s.%s" % (lang, c.__name__), 0]
            return [getattr(c, "_tx_fqn", "?" + repr(c)), ident.get(id(c), -1)]

        spaces = []
        for ns, dct in mm.namespaces.items():
            if ns == "__base__":
                continue
            spaces.append([ns, [[name, cref(c)] for name, c in dct.items()]])
        out["spaces"] = spaces
        nsid = {id(dct): ns for ns, dct in mm.namespaces.items()}
        out["imports"] = [[ns, [nsid.get(id(x), "?") for x in lst]] for ns, lst in mm._imported_namespaces.items()]
        out["stack"] = list(mm._namespace_stack)
        fq = {}
        dups = []
        for c in created:
            if c._tx_fqn in fq:
                dups.append(c._tx_fqn)
            fq[c._tx_fqn] = c
        out["dup_fqn"] = dups

        def find_asgn(rule, attr):
            seen = set()
            stack = [rule]
            while stack:
                r = stack.pop()
                if id(r) in seen:
                    continue
                seen.add(id(r))
                if getattr(r, "_attr_name", None) == attr and r.rule_name.startswith("__asgn"):
                    return r
                if r is not rule and getattr(r, "root", False):
                    continue
                stack.extend(reversed(getattr(r, "nodes", [])))
            return None

        links = []
        for ns, rules in case["fs"]:
            dct = mm.namespaces.get(ns)
            if dct is None:
                continue
            for r in rules["rules"]:
                c = dct.get(r["name"])
                if c is None:
                    links.append([ns, r["name"], None, None, None, None])
                    continue
                for k, (kind, name) in enumerate(r["items"]):
                    a = c._tx_attrs.get("a%d" % k)
                    acls = cref(a.cls) if a is not None else None
                    pcls = None
                    if kind == "r":
                        asg = find_asgn(c._tx_peg_rule, "a%d" % k)
                        if asg is not None and asg.nodes:
                            pcls = cref(getattr(asg.nodes[0], "_tx_class", None))
                    links.append([ns, r["name"], kind, name, acls, pcls])
        out["links"] = links
        qs = []
        for q in case.get("queries", []):
            try:
                qs.append([q, cref(mm[q])])
            except KeyError:
                qs.append([q, None])
            except Exception as e:  # noqa: BLE001
                qs.append([q, ["EXC " + type(e).__name__, -2]])
        out["queries"] = qs
        res = []
        for t in case.get("texts", []):
            try:
                o = mm.model_from_str(t["text"])
                chain = []
                for k in [None] + list(t["path"]):
                    if k is not None:
                        o = getattr(o, "a%d" % k)
                    ty = type(o)
                    if hasattr(ty, "_tx_fqn"):
                        chain.append([ty._tx_fqn, ident.get(id(ty), -1)])
                    else:
                        chain.append(["py:" + ty.__name__, -3])
                res.append(chain)
            except Exception as e:  # noqa: BLE001
                res.append("ERR " + type(e).__name__ + ": " + str(e)[:200])
        out["parses"] = res
        return out
    finally:
        shutil.rmtree(d, ignore_errors=True)


def main():
    payload = json.load(sys.stdin)
    treg.clear_language_registrations()
    for lang, rules in payload.get("langs", []):
        EXT[lang] = metamodel_from_str("".join("%s: 'x_%s' t?='!';\n" % (r, r) for r in rules))
        register_language(LanguageDesc(lang, pattern="*." + lang, metamodel=EXT[lang]))
    json.dump([run_case(c) for c in payload["cases"]], sys.stdout)


main()
