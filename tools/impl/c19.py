"""Implementation runner for the PEG core / C19 (run with PYTHONPATH=$TEXTX_REPO).

stdin: {"cases": [{"grammar": text, "opts": {...}, "inputs": [text, ...]}]}
stdout: per case {"grammar_error": str|None, "dump": <pegdump json>, "runs": [per input
        {"table": [[oid,pos,len]..], "tree_off", "tree_on" (Arpeggio level, canonical),
         "model_off", "model_on" (textX level: canonical model or error),
         "model_off_reused", "model_on_reused"}]}
Metamodels are created through the public API with memoization=False / True.  tree_* and model_*
are each the FIRST parse of a freshly built metamodel (Arpeggio's caches are re-created at the end of
every parse, so object-level sharing set up by the grammar compiler only shows in the first parse);
model_*_reused come from one metamodel pair per grammar that is reused for all inputs (stale state).
"""
import json
import os
import signal
import sys

sys.path.insert(0, os.path.dirname(os.path.dirname(os.path.abspath(__file__))))
import pegdump  # noqa: E402

from textx import metamodel_from_str  # noqa: E402
from textx.exceptions import TextXError, TextXSyntaxError  # noqa: E402


class Timeout(BaseException):
    pass


def _alarm(signum, frame):
    raise Timeout()


def canon_model(o, depth=0):
    if depth > 60:
        return "<deep>"
    if isinstance(o, list):
        return "[" + ",".join(canon_model(x, depth + 1) for x in o) + "]"
    cls = type(o)
    attrs = getattr(cls, "_tx_attrs", None)
    if attrs is not None and not isinstance(o, (str, int, float, bool)):
        parts = []
        for name in attrs:
            parts.append("%s=%s" % (name, canon_model(getattr(o, name, "<missing>"), depth + 1)))
        return "%s@%s-%s{%s}" % (cls.__name__, getattr(o, "_tx_position", "?"), getattr(o, "_tx_position_end", "?"),
                                 ",".join(parts))
    return "%s:%r" % (type(o).__name__, o)


def load(mm, text):
    try:
        m = mm.model_from_str(text)
    except TextXSyntaxError as e:
        c = e.__cause__
        return {"ok": False, "err": "syntax", "line": e.line, "col": e.col, "pos": getattr(c, "position", None)}
    except TextXError as e:
        return {"ok": False, "err": type(e).__name__, "line": getattr(e, "line", None), "col": getattr(e, "col", None), "pos": None}
    except Timeout:
        raise
    except RecursionError:
        return {"ok": False, "err": "crash:RecursionError", "line": None, "col": None, "pos": None}
    except Exception as e:
        return {"ok": False, "err": "crash:" + type(e).__name__, "line": None, "col": None, "pos": None}
    return {"ok": True, "model": canon_model(m)}


def fresh(case, memo):
    mm = metamodel_from_str(case["grammar"], memoization=memo, **case.get("opts", {}))
    return mm, pegdump.dump_metamodel(mm)


def strip(j):
    j = dict(j)
    j["memoization"] = False
    return j


def main():
    payload = json.load(sys.stdin)
    signal.signal(signal.SIGALRM, _alarm)
    sys.setrecursionlimit(3000)
    out = []
    for case in payload["cases"]:
        res = {"grammar_error": None, "dump": None, "runs": []}
        out.append(res)
        try:
            signal.setitimer(signal.ITIMER_REAL, 10, 1)
            mm_off = metamodel_from_str(case["grammar"], memoization=False, **case.get("opts", {}))
            mm_on = metamodel_from_str(case["grammar"], memoization=True, **case.get("opts", {}))
            d_off = pegdump.dump_metamodel(mm_off)
            d_on = pegdump.dump_metamodel(mm_on)
            signal.setitimer(signal.ITIMER_REAL, 0)
        except Timeout:
            res["grammar_error"] = "Timeout"
            continue
        except pegdump.Unsupported as e:
            signal.setitimer(signal.ITIMER_REAL, 0)
            res["grammar_error"] = "Unsupported: %s" % e
            continue
        except Exception as e:
            signal.setitimer(signal.ITIMER_REAL, 0)
            res["grammar_error"] = "%s" % type(e).__name__
            continue
        j_off, j_on = d_off.to_json(), d_on.to_json()
        if not (d_on.memoization and not d_off.memoization):
            res["grammar_error"] = "memoization flag not passed to the parser"
            res["flag_lost"] = True
            continue
        j_on2 = dict(j_on)
        j_on2["memoization"] = False
        if j_on2 != j_off:
            res["grammar_error"] = "parser models differ between memoization settings"
            continue
        res["dump"] = j_off
        for text in case["inputs"]:
            run = {"table": d_off.oracle_table(text)}
            try:
                signal.setitimer(signal.ITIMER_REAL, 3, 1)
                # FIRST parse of a fresh metamodel (Arpeggio level), memoization off / on
                f_off, fd_off = fresh(case, False)
                f_on, fd_on = fresh(case, True)
                if strip(fd_off.to_json()) != strip(j_off) or strip(fd_on.to_json()) != strip(j_off):
                    raise pegdump.Unsupported("a fresh metamodel of the same grammar has a different parser model")
                run["tree_off"] = pegdump.parse_outcome(fd_off, f_off._parser_blueprint.clone(), text)
                run["tree_on"] = pegdump.parse_outcome(fd_on, f_on._parser_blueprint.clone(), text)
                # FIRST model_from_str of another fresh metamodel (the property as stated)
                run["model_off"] = load(fresh(case, False)[0], text)
                run["model_on"] = load(fresh(case, True)[0], text)
                # the metamodels of this grammar that are reused for all its inputs (history)
                run["model_off_reused"] = load(mm_off, text)
                run["model_on_reused"] = load(mm_on, text)
                signal.setitimer(signal.ITIMER_REAL, 0)
            except Timeout:
                run["timeout"] = True
            except pegdump.Unsupported as e:
                signal.setitimer(signal.ITIMER_REAL, 0)
                run["unsupported"] = str(e)
            res["runs"].append(run)
    json.dump(out, sys.stdout)


if __name__ == "__main__":
    main()
