"""Implementation runner for C26: operation sequences against textx.registration."""
import json
import sys
import types

import textx.registration as reg
from textx.exceptions import TextXRegistrationError
from textx.metamodel import TextXMetaModel
from textx import LanguageDesc, GeneratorDesc

serial = [0]


def mk_mm(tag):
    m = TextXMetaModel.__new__(TextXMetaModel)
    m.__dict__["_c26"] = tag
    return m


INSTANCES = {}


def src_of(src):
    kind = src[0]
    if kind == "I":
        i = src[1]
        if i not in INSTANCES:
            INSTANCES[i] = mk_mm("i%d" % i)
        return INSTANCES[i]
    if kind == "F":
        fid = src[1]

        def factory(**kwargs):
            s = serial[0]
            serial[0] += 1
            return mk_mm("f%d.%d.%s" % (fid, s, "T" if kwargs else "F"))
        return factory

    def bad(**kwargs):
        serial[0] += 1
        return object()
    return bad


def mk_ldesc(d):
    ld = LanguageDesc(d["name"], pattern=d["pattern"], metamodel=src_of(d["src"]))
    ld._tag = d["tag"]
    return ld


def mk_gdesc(d):
    gd = GeneratorDesc(d["lang"], d["target"], generator=lambda *a, **k: None)
    gd._tag = d["tag"]
    return gd


class FakeEP:
    def __init__(self, obj):
        self.obj = obj
        self.dist = types.SimpleNamespace(name="proj", version="1.0")

    def load(self):
        return self.obj


def show_mm(m):
    return "M:" + m.__dict__.get("_c26", "?")


def run_seq(case):
    INSTANCES.clear()
    serial[0] = 0
    epl = [mk_ldesc(d) for d in case["ep_langs"]]
    epg = [mk_gdesc(d) for d in case["ep_gens"]]

    def fake_entry_points(group=None):
        return [FakeEP(x) for x in (epl if group == "textx_languages" else epg if group == "textx_generators" else [])]
    reg.entry_points = fake_entry_points
    reg.languages = None
    reg.generators = None
    reg.metamodels = {}
    out = []
    for i, o in enumerate(case["ops"]):
        k = o["op"]
        try:
            if k == "RegLang":
                d = o["d"]
                if o.get("positional"):
                    # name/pattern/description/metamodel form
                    reg.register_language(d["name"], d["pattern"], "", src_of(d["src"]))
                    reg.language_description(d["name"])._tag = d["tag"]
                else:
                    reg.register_language(mk_ldesc(d))
                r = "ok"
            elif k == "ClearLangs":
                reg.clear_language_registrations()
                r = "ok"
            elif k == "RegGen":
                reg.register_generator(mk_gdesc(o["d"]))
                r = "ok"
            elif k == "ClearGens":
                reg.clear_generator_registrations()
                r = "ok"
            elif k == "LangDescription":
                r = "L%d" % reg.language_description(o["n"])._tag
            elif k == "GenDescription":
                r = "G%d" % reg.generator_description(o["l"], o["t"], any_permitted=o["any"])._tag
            elif k == "LangsForFile":
                r = "Ls[%s]" % ",".join(str(x._tag) for x in reg.languages_for_file(o["f"]))
            elif k == "LangForFile":
                r = "L%d" % reg.language_for_file(o["f"])._tag
            elif k == "MMForLang":
                r = show_mm(reg.metamodel_for_language(o["n"], **({"x": 1} if o["kw"] else {})))
            elif k == "MMForFile":
                r = show_mm(reg.metamodel_for_file(o["f"], **({"x": 1} if o["kw"] else {})))
            elif k == "MMsForFile":
                r = "Ms[%s]" % ",".join(show_mm(m) for m in reg.metamodels_for_file(o["f"]))
            elif k == "LangDescs":
                r = "Ls[%s]" % ",".join(str(x._tag) for x in reg.language_descriptions().values())
            elif k == "GenDescs":
                r = "Gs[%s]" % ",".join(str(g._tag) for lg in reg.generator_descriptions().values() for g in lg.values())
            else:
                r = "?"
        except TextXRegistrationError:
            r = "err"
        except Exception as e:  # noqa
            r = "EXC:" + type(e).__name__
        out.append(r)
    return out


def main():
    payload = json.load(sys.stdin)
    json.dump([run_seq(c) for c in payload["cases"]], sys.stdout)


main()
