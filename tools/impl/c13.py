"""Implementation runner for C13: load generated models with recording object processors on
every rule (some returning replacement values), recording user classes and a recording scope
provider, through the public API only.  Reads {"cases": [...]}, prints one outcome per case."""
import json
import os
import shutil
import sys
import tempfile

sys.path.insert(0, os.path.join(os.path.dirname(os.path.abspath(__file__)), "..", "props"))
sys.path.insert(0, os.path.join(os.path.dirname(os.path.abspath(__file__)), ".."))

from textx import metamodel_from_file  # noqa: E402
from textx.const import RULE_MATCH  # noqa: E402
from textx.scoping.providers import PlainName  # noqa: E402


def canon_text(s):
    out = []
    for c in s:
        o = ord(c)
        if 32 <= o < 127 and c not in '\\"':
            out.append(c)
        else:
            out.append("\\%d;" % o)
    return "".join(out)


class Run:
    def __init__(self, case, mm):
        self.case = case
        self.mm = mm
        self.events = []
        self.ids = {}          # python id -> sequential id
        self.keep = []         # keep objects alive so python ids stay unique
        self.names = []
        self.nidx = {}
        self.nss = [""]
        self.root = None
        self.roots = None      # all models under construction, in processing order
        self.trees = None
        self.n_user = 0
        self.n_init = 0
        self.user_names = set(case["user"])
        for cls in mm:
            self.name_idx(cls.__name__)
        for n in case["reg"]:
            self.name_idx(n)
        self.actions = {}
        for p, on, kind, k in case["actions"]:
            self.actions[(p, on)] = (kind, k)

    def name_idx(self, n):
        if n not in self.nidx:
            self.nidx[n] = len(self.names)
            self.names.append(n)
        return self.nidx[n]

    def cref(self, cls):
        fqn = getattr(cls, "_tx_fqn", cls.__name__)
        ns = fqn[: -len(cls.__name__)].rstrip(".") if fqn.endswith(cls.__name__) else fqn
        if ns not in self.nss:
            self.nss.append(ns)
        return [self.nss.index(ns), self.name_idx(cls.__name__)]

    def is_obj(self, v):
        return id(v) in self.ids

    def metaclass(self, obj):
        return self.mm[obj._tx_fqn]

    # -- identities: depth-first pre-order over containment, before reference resolution
    def assign_ids(self, obj):
        if not hasattr(obj, "_tx_fqn") or id(obj) in self.ids:
            return
        self.ids[id(obj)] = len(self.ids) + 1
        self.keep.append(obj)
        if type(obj).__name__ in self.user_names:
            self.n_user += 1
        for a in self.metaclass(obj)._tx_attrs.values():
            if a.cont:
                v = getattr(obj, a.name, None)
                for x in (v if isinstance(v, list) else [v]):
                    if x is not None:
                        self.assign_ids(x)

    def snapshot_models(self):
        """The models under construction in the order they are processed, their objects
        identified, and their linked trees before any replacement."""
        if self.trees is not None or self.root is None:
            return
        from textx.scoping import get_included_models
        self.roots = [m for m in get_included_models(self.root) if hasattr(m, "_tx_fqn")]
        for m in self.roots:
            self.assign_ids(m)
        self.trees = [self.dump(m) for m in self.roots]

    def atom(self, v):
        if isinstance(v, bool):
            return "b:%s" % v
        if isinstance(v, int):
            return "i:%d" % v
        if isinstance(v, float):
            return "f:%r" % v
        if isinstance(v, str):
            return "s:" + v
        return "o:" + type(v).__name__

    def dump(self, v, cont=True):
        """JSON structure of a value as it is now."""
        if v is None:
            return None
        if not cont:
            if self.is_obj(v):
                return {"atom": "@%d" % self.ids[id(v)]}
            return {"atom": "?" + type(v).__name__}
        if not self.is_obj(v):
            return {"atom": self.atom(v)}
        fields = []
        for a in self.metaclass(v)._tx_attrs.values():
            val = getattr(v, a.name)
            f = {"n": self.name_idx(a.name), "cont": bool(a.cont), "d": self.cref(a.cls),
                 "match": a.cls._tx_type is RULE_MATCH, "many": isinstance(val, list)}
            if isinstance(val, list):
                f["v"] = [self.dump(x, a.cont) for x in val]
            else:
                f["v"] = self.dump(val, a.cont)
            fields.append(f)
        nm = getattr(v, "name", None)
        return {"id": self.ids[id(v)], "cls": self.cref(self.metaclass(v)), "name": nm if isinstance(nm, str) else None,
                "fields": fields}

    def show(self, v):
        if v is None:
            return "N"
        if "atom" in v:
            return "'" + canon_text(v["atom"]) + "'"
        fs = []
        for f in v["fields"]:
            if f["many"]:
                fs.append("%d=[%s]" % (f["n"], ",".join(self.show(x) for x in f["v"])))
            else:
                fs.append("%d=%s" % (f["n"], self.show(f["v"])))
        return "#%d:%d.%d{%s}" % (v["id"], v["cls"][0], v["cls"][1], ";".join(fs))

    def linked(self):
        """All references the model text contains are in place (resolved to the named object)."""
        byname = {}
        for o in self.keep:
            n = getattr(o, "name", None)
            if isinstance(n, str):
                byname[n] = o
        for on, attrs in self.case["expect_refs"].items():
            o = byname.get(on)
            if o is None:
                return False
            for an, tgt in attrs.items():
                val = getattr(o, an, None)
                if isinstance(tgt, list):
                    if not isinstance(val, list) or len(val) != len(tgt):
                        return False
                    if any(x is not byname.get(t) for x, t in zip(val, tgt)):
                        return False
                elif val is not byname.get(tgt):
                    return False
        return True

    def first_obj(self, obj):
        for a in self.metaclass(obj)._tx_attrs.values():
            if a.cont:
                v = getattr(obj, a.name)
                for x in (v if isinstance(v, list) else [v]):
                    if x is not None and self.is_obj(x):
                        return x
        return None

    def mk_proc(self, name):
        def proc(obj):
            self.snapshot_models()                   # linked models, before any replacement
            isobj = self.is_obj(obj)
            self.events.append({"k": "proc", "pn": name, "p": self.name_idx(name),
                                "id": self.ids[id(obj)] if isobj else 0,
                                "snap": self.show(self.dump(obj)), "linked": self.linked(),
                                "uninit": self.n_user - self.n_init})
            on = getattr(obj, "name", None) if isobj else ""
            act = self.actions.get((name, on))
            if act is None:
                return None
            kind, k = act
            if kind == "atom":
                return k
            if kind == "falsy":
                return 0
            if kind == "child" and isobj:
                return self.first_obj(obj)
            return None
        return proc

    def mk_match_proc(self, name, suffix):
        def proc(value):
            self.events.append({"k": "match", "pn": name, "p": self.name_idx(name), "v": value})
            return value + suffix
        return proc

    # -- parse subtrees of the match-rule values, in the order the models were built
    def build_order(self, root):
        order, seen = [], set()

        def visit(m):
            if id(m) in seen or not hasattr(m, "_tx_fqn"):
                return
            seen.add(id(m))
            order.append(m)
            for imp in getattr(m, "imports", None) or []:
                for sub in getattr(imp, "_tx_loaded_models", []):
                    visit(sub)
        visit(root)
        return order

    def forest(self, root, match_names):
        from arpeggio import Terminal
        out = []

        def tree(n):
            if isinstance(n, Terminal):
                return ["T", self.name_idx(n.rule_name), n.value]
            return ["N", self.name_idx(n.rule_name), [tree(k) for k in n]]

        def walk(n):
            if n.rule_name in match_names:
                out.append(tree(n))
            elif not isinstance(n, Terminal):
                for k in n:
                    walk(k)
        for m in self.build_order(root):
            walk(m._tx_parser.parse_tree)
        return out


def mk_user_class(run_holder, name):
    def __init__(self, **kwargs):
        run = run_holder[0]
        for k, v in kwargs.items():
            setattr(self, k, v)
        run.n_init += 1
        run.events.append({"k": "init", "cls": name, "name": kwargs.get("name")})
    return type(name, (object,), {"__init__": __init__})


def run_case(case):
    d = tempfile.mkdtemp(prefix="c13_")
    out = {"ok": False, "error": None, "error_type": None}
    try:
        for fn, text in case["grammars"].items():
            with open(os.path.join(d, fn), "w") as f:
                f.write(text)
        holder = [None]
        classes = [mk_user_class(holder, n) for n in case["user"]]
        mm = metamodel_from_file(os.path.join(d, case["main"]), classes=classes)
        run = Run(case, mm)
        holder[0] = run
        procs = {n: run.mk_proc(n) for n in case["reg"]}
        for n, suf in case.get("match_reg", {}).items():
            procs[n] = run.mk_match_proc(n, suf)
        mm.register_obj_processors(procs)
        multi = bool(case.get("files"))
        if multi:
            from textx.scoping.providers import PlainNameImportURI

            class Rec(PlainNameImportURI):
                def __call__(self, obj, attr, obj_ref):
                    return provider(obj, attr, obj_ref, PlainNameImportURI.__call__.__get__(self))
        plain = PlainName()

        def provider(obj, attr, obj_ref, plain=plain):
            if case.get("postpone_bad") and obj_ref.obj_name == "zz9":
                # a provider that never resolves this name: the load must end with
                # "Unresolvable cross references" and no object processor may run
                from textx.scoping import Postponed
                run.events.append({"k": "resolve", "attr": attr.name, "name": obj_ref.obj_name, "found": False})
                return Postponed()
            res = plain(obj, attr, obj_ref)
            run.events.append({"k": "resolve", "attr": attr.name, "name": obj_ref.obj_name,
                               "found": res is not None and type(res).__name__ != "Postponed"})
            return res
        mm.register_scope_providers({"*.*": Rec() if multi else provider})

        def pre(model):
            run.root = model
            run.assign_ids(model)
        try:
            if multi:
                for fn, text in case["files"].items():
                    with open(os.path.join(d, fn), "w") as f:
                        f.write(text)
                with open(os.path.join(d, "m0.m"), "w") as f:
                    f.write(case["model"])
                model = mm.model_from_str(case["model"], file_name=os.path.join(d, "m0.m"),
                                          pre_ref_resolution_callback=pre)
            else:
                model = mm.model_from_str(case["model"], pre_ref_resolution_callback=pre)
            out["ok"] = True
        except Exception as e:  # noqa
            out["error_type"] = type(e).__name__
            out["error"] = str(e)[:300].replace(d, "<tmp>")
            model = None
        if out["ok"]:
            run.root = model
            run.snapshot_models()
            out["forest"] = run.forest(model, ("W", "WW", "WWW"))
            out["models"] = []
            for m, t in zip(run.roots, run.trees):
                rootcls = mm[type(m).__name__]
                out["models"].append({"root_d": run.cref(rootcls), "root_match": rootcls._tx_type is RULE_MATCH,
                                      "tree": t, "final": run.show(run.dump(m))})
        out["events"] = run.events
        out["names"] = run.names
        out["nss"] = run.nss
        out["n_user_objs"] = run.n_user
    except Exception as e:  # harness or grammar problem: reported, never hidden
        import traceback
        out["error_type"] = "HARNESS:" + type(e).__name__
        out["error"] = traceback.format_exc()[-1500:]
        out.setdefault("events", [])
        out.setdefault("names", [])
        out.setdefault("n_user_objs", 0)
    finally:
        shutil.rmtree(d, ignore_errors=True)
    return out


def main():
    payload = json.load(sys.stdin)
    json.dump([run_case(c) for c in payload["cases"]], sys.stdout)


main()
