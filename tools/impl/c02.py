"""Implementation runner for C02: build metamodels from generated one-rule grammars, report the inferred
multiplicities, load inputs, report attribute values (or the error) and the assignment events of the parse tree."""
import json
import os
import signal
import sys

sys.path.insert(0, os.path.dirname(os.path.dirname(os.path.abspath(__file__))))
import pegdump  # noqa: E402
import mmdump  # noqa: E402

import textx.model as tmodel
from textx import metamodel_from_str
from textx.exceptions import TextXError

captured = []
_orig = tmodel.parse_tree_to_objgraph


def _wrapped(parser, parse_tree, *a, **k):
    captured.append(parse_tree)
    return _orig(parser, parse_tree, *a, **k)


tmodel.parse_tree_to_objgraph = _wrapped


class Timeout(Exception):
    pass


def _alarm(signum, frame):
    raise Timeout()


def canon(v):
    if v is None:
        return "N"
    if v is True:
        return "T"
    if v is False:
        return "F"
    if isinstance(v, int):
        return "i%d" % v
    if isinstance(v, float):
        return "f%r" % v
    if isinstance(v, str):
        out = []
        for c in v:
            o = ord(c)
            out.append(c if 32 <= o < 127 and c not in '\\"' else "\\%d;" % o)
        return "s" + "".join(out)
    if isinstance(v, list):
        return "[" + ",".join(canon(x) for x in v) + "]"
    return "?" + type(v).__name__


def term_value(n):
    """Converted value of a terminal below an assignment (the generated grammars only use INT, STRING and keywords)."""
    t = n.flat_str() if hasattr(n, "flat_str") else str(n)
    if n.rule_name == "INT":
        return int(t)
    if n.rule_name == "STRING":
        return t[1:-1]
    return t


def events(node, out):
    rn = getattr(node, "rule_name", "")
    if rn.startswith("__asgn"):
        op = rn.split("_")[-1]
        attr = node.rule._attr_name
        # children of an assignment node: a child is a separator node exactly when the expression that produced it is
        # the separator of this repetition (a fact about the parse tree, independent of how the builder tells them)
        sep = getattr(node.rule, "sep", None) if op in ("oneormore", "zeroormore") else None
        if op == "optional":
            kids = [[False, n.rule_name == "sep", canon(term_value(n))] for n in node]
            out.append([attr, op, [], kids, False])
            return
        elif op == "plain":
            kids = [[False, node[0].rule_name == "sep", canon(term_value(node[0]))]]
        else:
            kids = [[sep is not None and n.rule is sep, n.rule_name == "sep", canon(term_value(n))] for n in node]
        out.append([attr, op, [c for s, _, c in kids if not s], kids, sep is not None])
        return
    if hasattr(node, "__iter__") and not isinstance(node, str) and type(node).__name__ == "NonTerminal":
        for n in node:
            events(n, out)


def err_of(e):
    return [type(e).__name__, getattr(e, "err_type", None), str(getattr(e, "message", e))[:160]]


def main():
    payload = json.load(sys.stdin)
    signal.signal(signal.SIGALRM, _alarm)
    out = []
    for case in payload["cases"]:
        res = {"gerr": None, "attrs": [], "runs": []}
        out.append(res)
        try:
            signal.alarm(20)
            mm = metamodel_from_str(case["grammar"], auto_init_attributes=case["auto_init"])
            signal.alarm(0)
        except TextXError as e:
            signal.alarm(0)
            res["gerr"] = err_of(e)
            continue
        except Timeout:
            res["gerr"] = ["Timeout", None, ""]
            continue
        except Exception as e:  # noqa
            signal.alarm(0)
            res["gerr"] = ["CRASH:" + type(e).__name__, None, str(e)[:160]]
            continue
        cls = mm["Model"]
        # the parser model and the per-node metamodel information of the shared PEG core (for the link check)
        dump = None
        if case.get("link"):
            try:
                dump = pegdump.dump_metamodel(mm)
                res["link"] = {"dump": dump.to_json(), "mm": mmdump.dump_mm(mm, dump),
                               "model_nid": dump.idmap.get(id(cls._tx_peg_rule)), "tables": []}
            except pegdump.Unsupported as e:
                dump = None
                res["link"] = {"unsupported": str(e)[:120]}
        res["attrs"] = [[name, a.mult, a.cls.__name__, bool(a.bool_assignment)] for name, a in cls._tx_attrs.items()]
        for inp in case["inputs"]:
            if dump is not None:
                res["link"]["tables"].append(dump.oracle_table(inp))
            del captured[:]
            run = {"ok": False, "err": None, "vals": None, "trace": None}
            res["runs"].append(run)
            try:
                signal.alarm(6)
                m = mm.model_from_str(inp)
                signal.alarm(0)
                run["ok"] = True
                if type(m) is not cls:
                    # a rule that matched nothing yields no object (outside this property)
                    run["noobj"] = True
                    del captured[:]
                else:
                    run["vals"] = {name: canon(getattr(m, name)) for name in cls._tx_attrs}
            except TextXError as e:
                signal.alarm(0)
                run["err"] = err_of(e)
            except Timeout:
                run["err"] = ["Timeout", None, ""]
            except Exception as e:  # noqa
                signal.alarm(0)
                run["err"] = ["CRASH:" + type(e).__name__, None, str(e)[:160]]
            if captured:
                tr = []
                events(captured[0], tr)
                run["trace"] = tr
    json.dump(out, sys.stdout)


main()
