"""Implementation runner for C07: build the metamodel from the generated grammar, install the
builtins dictionary, load the model text through the public API and report, for every reference in
textual order, which object it was resolved to (path from the model root, found by this runner's
own walk over the containment attributes, or the builtins key), or the error the load failed with.
Reads {"cases": [...]} on stdin, prints a JSON list."""
import json
import sys
import types

from textx import metamodel_from_str
from textx.exceptions import TextXError

sys.setrecursionlimit(3000)
OTHER_GRAMMAR = "Zed: 'z' name=ID;"


def children(o):
    ks = []
    sub = getattr(o, "sub", None)
    if sub is not None:
        ks.append(sub)
    for attr in ("items", "kids"):
        v = getattr(o, attr, None)
        if v:
            ks.extend(v)
    return ks


def walk(o, path, idmap, order):
    idmap[id(o)] = path
    order.append(o)
    for i, k in enumerate(children(o)):
        walk(k, path + [i], idmap, order)


def dump_tree(o):
    nm = getattr(o, "name", None) if hasattr(o, "name") else None
    if not hasattr(o, "name"):
        tag = ["noname"]
    elif isinstance(nm, str):
        tag = ["str", nm]
    else:
        tag = ["other", type(nm).__name__]
    return [type(o).__name__, tag, [dump_tree(k) for k in children(o)]]


def mk_user_class(name, base):
    """a user-supplied class for the rule `name`, optionally a Python subclass of another user class"""
    def __init__(self, **kwargs):
        for k, v in kwargs.items():
            setattr(self, k, v)
    return type(name, (base,) if base else (), {"__init__": __init__})


def run_case(case):
    out = {}
    user = {}
    for name, base in case.get("user") or []:
        user[name] = mk_user_class(name, user[base] if base else None)
    try:
        mm = metamodel_from_str(case["grammar"], classes=list(user.values())) if user else metamodel_from_str(case["grammar"])
    except Exception as ex:  # the generated grammar must always load
        return {"harness": "grammar rejected: %s: %s" % (type(ex).__name__, ex)}
    out["classes"] = {}
    for name in case["class_names"]:
        if name == "OBJECT":
            continue
        try:
            c = mm[name]
            mmcls = {id(mm[n]) for n in case["class_names"] if n != "OBJECT"}
            out["classes"][name] = {"type": c._tx_type, "inh": [x.__name__ for x in c._tx_inh_by],
                                    "py": [x.__name__ for x in c.__mro__[1:] if id(x) in mmcls]}
        except Exception as ex:
            out["classes"][name] = {"type": "missing:" + type(ex).__name__, "inh": []}
    if case.get("nomm"):
        # the non-default variant of the provider: lookup through parser._instances instead of the tree search
        from textx.scoping.providers import PlainName
        mm.register_scope_providers({"*.*": PlainName(multi_metamodel_support=False)})
    other_model = None
    if case.get("other_text"):
        # another model of the same metamodel, loaded before and kept alive: its objects carry the same names
        try:
            other_model = mm.model_from_str(case["other_text"])
        except Exception as ex:
            return {"harness": "loading the other model failed: %s: %s" % (type(ex).__name__, ex)}
    b = case.get("builtins")
    keys = {}
    if b is not None:
        d = {}
        mm2 = other = None
        try:
            for e in b:
                kind = e["kind"]
                if kind == "same":
                    m = mm.model_from_str(e["text"])
                    o = m if e["cls"] == "Model" else m.items[0]
                elif kind == "foreign":
                    mm2 = mm2 or metamodel_from_str(case["grammar"])
                    m = mm2.model_from_str(e["text"])
                    o = m if e["cls"] == "Model" else m.items[0]
                elif kind == "other":
                    other = other or metamodel_from_str(OTHER_GRAMMAR)
                    o = other.model_from_str("z q")
                else:
                    o = types.SimpleNamespace(name=e["key"])
                if kind in ("same", "foreign") and type(o).__name__ != e["cls"]:
                    return {"harness": "library object for builtin %r is a %s, wanted %s" % (e["key"], type(o).__name__, e["cls"])}
                d[e["key"]] = o
                keys[id(o)] = e["key"]
        except Exception as ex:
            return {"harness": "building builtins failed: %s: %s" % (type(ex).__name__, ex)}
        mm.builtins = d
    try:
        model = mm.model_from_str(case["text"])
    except TextXError as ex:
        out["err"] = {"cls": type(ex).__name__, "message": ex.message, "err_type": ex.err_type,
                      "line": ex.line, "col": ex.col,
                      "expected_obj_cls": getattr(getattr(ex, "expected_obj_cls", None), "__name__", None)}
        return out
    except RecursionError:
        out["err"] = {"cls": "RecursionError", "message": "maximum recursion depth exceeded", "err_type": None, "line": None, "col": None}
        return out
    except Exception as ex:
        out["err"] = {"cls": type(ex).__name__, "message": str(ex)[:300], "err_type": None, "line": None, "col": None}
        return out
    idmap, order = {}, []
    walk(model, [], idmap, order)
    out["tree"] = dump_tree(model)

    def target(v):
        if v is None:
            return "none"
        if id(v) in idmap:
            return "/" + "/".join(str(i) for i in idmap[id(v)])
        if id(v) in keys:
            return "b:" + keys[id(v)]
        return "?" + type(v).__name__
    res = []

    def refs_of(o):
        # textual order inside one object: ref, refs, then the contained objects; the root's `uses` comes last
        if type(o).__name__ != "Model":
            if getattr(o, "ref", None) is not None:
                res.append(target(o.ref))
            for v in (getattr(o, "refs", None) or []):
                res.append(target(v))
        for k in children(o):
            refs_of(k)
        if type(o).__name__ == "Model":
            for v in (getattr(o, "uses", None) or []):
                res.append(target(v))
    refs_of(model)
    out["ok"] = res
    out["other_alive"] = other_model is not None
    return out


def main():
    payload = json.load(sys.stdin)
    json.dump([run_case(c) for c in payload["cases"]], sys.stdout)


main()
