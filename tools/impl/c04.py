"""Implementation runner for C04 (PYTHONPATH=$TEXTX_REPO).

stdin JSON:
  {"load": [[type, text], ...],            # metamodel_from_str('Model: v*=<type>;').model_from_str(text).v
   "rx":   [[name_or_null, pattern_or_null, flags, [strings...]], ...]}
           name = base type whose compiled regex object of textx.lang is used (the real one);
           otherwise re.compile(pattern, flags).  Result per string: match length (or null) at every position.
stdout JSON: {"load": [...], "rx": [...], "cls": {codepoint: bits}}
"""
import json
import re
import sys

import textx.lang as lang
from textx import metamodel_from_str
from textx.exceptions import TextXSyntaxError, TextXError


def canon_val(v):
    if isinstance(v, bool):
        return ["b", v]
    if isinstance(v, int):
        return ["i", str(v)]
    if isinstance(v, float):
        return ["f", v.hex()]
    if isinstance(v, str):
        return ["s", v]
    return ["?", repr(v)]


def main():
    payload = json.load(sys.stdin)
    mms = {}
    out_load = []
    for typ, text in payload.get("load", []):
        mm = mms.get(typ)
        if mm is None:
            mm = mms[typ] = metamodel_from_str("Model: v*=%s;" % typ)
        try:
            m = mm.model_from_str(text)
            if isinstance(m, str) and m == "":
                out_load.append({"empty": True})     # nothing matched: textX returns '' instead of an object
            else:
                out_load.append({"v": [canon_val(x) for x in m.v]})
        except TextXSyntaxError as ex:
            out_load.append({"err": "syntax", "line": ex.line, "col": ex.col})
        except TextXError as ex:
            out_load.append({"err": "textx:" + type(ex).__name__})
        except Exception as ex:  # conversion errors etc.
            out_load.append({"err": "exc:" + type(ex).__name__})
    out_alts = []
    amms = {}
    for types, text in payload.get("alts", []):
        key = "|".join(types)
        mm = amms.get(key)
        if mm is None:
            g = "Model: v*=V; V: %s; " % " | ".join("R%d" % i for i in range(len(types)))
            g += " ".join("R%d: v=%s;" % (i, t) for i, t in enumerate(types))
            mm = amms[key] = metamodel_from_str(g)
        try:
            m = mm.model_from_str(text)
            if isinstance(m, str) and m == "":
                out_alts.append({"empty": True})
            else:
                out_alts.append({"v": [[int(type(x).__name__[1:]), canon_val(x.v), x._tx_position, x._tx_position_end] for x in m.v]})
        except TextXSyntaxError as ex:
            out_alts.append({"err": "syntax", "line": ex.line, "col": ex.col})
        except TextXError as ex:
            out_alts.append({"err": "textx:" + type(ex).__name__})
        except Exception as ex:
            out_alts.append({"err": "exc:" + type(ex).__name__})
    out_rx = []
    chars = set()
    for name, pattern, flags, strings in payload.get("rx", []):
        if name is not None:
            rx = getattr(lang, name).regex
        else:
            rx = re.compile(pattern, flags)
        res = []
        for s in strings:
            chars.update(s)
            row = []
            for pos in range(len(s) + 1):
                m = rx.match(s, pos)
                row.append(None if m is None else m.end() - pos)
            res.append(row)
        out_rx.append(res)
    out_rxh = []
    M = (1 << 63) - 1
    for name, pattern, flags, spec in payload.get("rxh", []):
        rx = getattr(lang, name).regex if name is not None else re.compile(pattern, flags)
        if spec["kind"] == "enum":
            strings = [""]
            for _ in range(spec["n"]):
                strings = [c + s for s in strings for c in spec["alpha"]]
        else:
            strings = spec["strings"]
        h = 0
        nmatch = 0
        for s in strings:
            h = (h * 1000003 + 7 + 1) & M
            any_m = False
            for pos in range(len(s) + 1):
                m = rx.match(s, pos)
                if m is None:
                    v = 0
                else:
                    v = m.end() - pos + 1
                    any_m = True
                h = (h * 1000003 + v + 1) & M
            nmatch += any_m
        out_rxh.append([str(h), len(strings), nmatch])
    for _typ, text in payload.get("load", []):
        chars.update(text)
    d, w, sp = re.compile(r"\d"), re.compile(r"\w"), re.compile(r"\s")
    cls = {}
    for c in chars:
        if ord(c) >= 128:
            cls[str(ord(c))] = (1 if d.match(c) else 0) | (2 if w.match(c) else 0) | (4 if sp.match(c) else 0)
    json.dump({"load": out_load, "alts": out_alts, "rx": out_rx, "rxh": out_rxh, "cls": cls}, sys.stdout)


main()
