"""Implementation runner for C14/C15: scripted loads with user classes.

stdin: {"scenarios": [scenario, ...]}; stdout: one observation per scenario.
A scenario describes user classes (which rules, which shape), a set of loads (file trees with
imports, failure points and callback triggers that start further loads) and the sequence of
top-level loads.  Everything is observed through the public API and monkeypatching here.
"""
import gc
import json
import os
import shutil
import sys
import tempfile
import weakref

import textx
import textx.model as tm
from textx import metamodel_from_str
from textx.exceptions import TextXError
from textx.scoping import Postponed
import textx.scoping.providers as sp

GRAMMAR = r'''
Model: imports*=Import items*=Item refs*=Ref;
Import: 'import' importURI=STRING ';';
Item: 'item' name=ID ('{' subs*=Sub '}')? ';';
Sub: 'sub' name=ID (hook=Hook)? ';';
Ref: 'ref' target=[Item] ';';
Hook: /@\w+/;
'''
DUNDERS = ("__setattr__", "__delattr__", "__getattribute__", "__getattr__")


class Boom(Exception):
    pass


class MprocBoom(Exception):
    def __init__(self, cid):
        Exception.__init__(self, "model processor of load %r" % cid)
        self.cid = cid


class Run:
    """state of one scenario"""

    def __init__(self, sc, root):
        self.sc = sc
        self.root = root
        self.events = []
        self.seq = {}          # id(obj) -> allocation number (objects are kept alive in self.objs)
        self.byseq = {}
        self.objs = []         # strong refs while the scenario runs (dropped before the gc observation)
        self.wrefs = []        # (allocation number, weakref)
        self.model_wrefs = []   # (weakref to model, number of the load that built it)
        self.inits = {}        # allocation number -> list of init records
        self.ctx_stack = []
        self.main_names = []
        self.raised = []       # numbers of the loads that raised (for whatever reason)
        self.own = {}          # (kind, id(obj)) -> calls of the class's OWN accessor with a probe name
        self.probes = {}       # event index -> {allocation number: "set get get-missing del del-missing"}
        self.nctx = 0
        self.nobj = 0
        self.classes = {}
        self.problems = []

    # ---- class state snapshots
    def snap(self):
        cnt = sorted({c.__dict__.get("_tx_instrumented", 0) for c in self.classes.values()})
        store = sum(len(c.__dict__.get("_tx_obj_attrs", {})) for c in self.classes.values())
        return (cnt[0] if len(cnt) == 1 else 0 if not cnt else cnt), store

    def ev(self, *a):
        self.events.append(list(a) + list(self.snap()))

    def cur(self):
        return self.ctx_stack[-1] if self.ctx_stack else None


PROBE, PROBE_MISSING = "_c14_probe", "_c14_probe_missing"


def probe_objects(run):
    """attribute access on every user object allocated so far, at the current point of the load:
    which code acts?  set: S(torage) / U(ser class's own method) / B(ase); read and delete: U or N"""
    out = {}
    for n, o in list(run.byseq.items()):
        cls = type(o)
        key = id(o)

        def calls(kind):
            return run.own.get((kind, key), 0)
        res = []
        c0 = calls("set")
        try:
            setattr(o, PROBE, 1)
        except Exception:
            pass
        st = cls.__dict__.get("_tx_obj_attrs", {}).get(key)
        if st is not None and PROBE in st:
            res.append("S")
        else:
            res.append("U" if calls("set") > c0 else "B")
        for name in (PROBE, PROBE_MISSING):
            c0 = calls("get")
            try:
                getattr(o, name)
            except Exception:
                pass
            res.append("U" if calls("get") > c0 else "N")
        for name in (PROBE, PROBE_MISSING):
            c0 = calls("del")
            try:
                delattr(o, name)
            except Exception:
                pass
            res.append("U" if calls("del") > c0 else "N")
        out[str(n)] = "".join(res)
    run.probes[str(len(run.events) - 1)] = out


def make_classes(run, names, shape):
    """fresh user classes per scenario; every one logs __new__ and __init__"""
    def mk(name, attrs):
        def __new__(cls, *a, **k):
            o = object.__new__(cls)
            n = run.nobj
            run.nobj += 1
            run.seq[id(o)] = n
            run.objs.append(o)
            run.byseq[n] = o
            try:
                run.wrefs.append((n, weakref.ref(o)))
            except TypeError:
                run.problems.append("no weakref for " + name)
            run.ev("A", run.cur(), n, name)
            return o

        def __init__(self, **kw):
            n = run.seq.get(id(self))
            rec = {"keys": sorted(kw), "cls": name}
            p = kw.get("parent")
            rec["parent_is"] = None if p is None else type(p).__name__
            # nearest enclosing user object
            q, up = p, None
            while q is not None:
                if id(q) in run.seq and run.byseq.get(run.seq[id(q)]) is q:
                    up = run.seq[id(q)]
                    break
                q = getattr(q, "parent", None)
            rec["uparent"] = up
            if name == "Ref":
                t = kw.get("target")
                rec["target_resolved"] = type(t).__name__ == "Item"
            if name == "Item":
                rec["subs_ok"] = all(type(s).__name__ == "Sub" for s in kw.get("subs", []))
            run.inits.setdefault(n, []).append(rec)
            run.ev("I", run.cur(), n)
            probe_objects(run)
            setter = object.__setattr__ if shape == "frozen" else setattr
            for k, v in kw.items():
                try:
                    setter(self, k, v)
                except AttributeError:
                    pass
            nm = kw.get("name")
            act = run.sc["behav"].get("init:%s" % nm) if name == "Item" else None
            do_action(run, act)

        d = {"__new__": __new__, "__init__": __init__}
        if shape == "slots":
            d["__slots__"] = tuple(attrs) + ("parent", "__weakref__")
        elif shape == "frozen":
            def __setattr__(self, k, v):
                if k == PROBE:
                    run.own[("set", id(self))] = run.own.get(("set", id(self)), 0) + 1
                raise AttributeError("frozen")
            d["__setattr__"] = __setattr__
        elif shape == "own":
            def __setattr__(self, k, v):
                if k == PROBE:
                    run.own[("set", id(self))] = run.own.get(("set", id(self)), 0) + 1
                object.__setattr__(self, k, v)

            def __getattribute__(self, k):
                if k in (PROBE, PROBE_MISSING):
                    run.own[("get", id(self))] = run.own.get(("get", id(self)), 0) + 1
                return object.__getattribute__(self, k)

            def __delattr__(self, k):
                if k in (PROBE, PROBE_MISSING):
                    run.own[("del", id(self))] = run.own.get(("del", id(self)), 0) + 1
                object.__delattr__(self, k)
            d["__setattr__"] = __setattr__
            d["__getattribute__"] = __getattribute__
            d["__delattr__"] = __delattr__
        elif shape == "getattr":
            def __getattr__(self, k):
                raise AttributeError(k)
            d["__getattr__"] = __getattr__
        return type(name, (), d)
    attrs = {"Model": ["imports", "items", "refs"], "Item": ["name", "subs"], "Sub": ["name", "hook"], "Ref": ["target"]}
    return {n: mk(n, attrs[n]) for n in names}


def do_action(run, act):
    """act: None | 'boom' | ['nest', load_id, catch]"""
    if act is None:
        return
    if act == "boom":
        raise Boom("scripted failure")
    _, lid, catch = act
    try:
        run_load(run, lid)
    except Exception:
        if not catch:
            raise


def file_text(f):
    out = []
    for imp in f["imports"]:
        out.append('import "%s";' % imp["name"])
    for it in f["items"]:
        subs = " ".join("sub %s%s;" % (s["name"], (" @" + s["hook"]) if s.get("hook") else "") for s in it["subs"])
        out.append("item %s%s;" % (it["name"], (" { %s }" % subs) if it["subs"] else ""))
    for r in f["refs"]:
        out.append("ref %s;" % r)
    if not f["syntax_ok"]:
        out.append("item ;")
    return "\n".join(out) + "\n"


def write_files(run, f, seen):
    if f["name"] in seen:
        return
    seen.add(f["name"])
    with open(os.path.join(run.root, f["name"]), "w") as fh:
        fh.write(file_text(f))
    for imp in f["imports"]:
        if not imp.get("ref"):
            write_files(run, imp, seen)


def run_load(run, lid):
    load = run.sc["loads"][str(lid)]
    cid = run.nctx
    run.nctx += 1
    run.ctx_stack.append(cid)
    run.main_names.append(load["main"]["name"])
    write_files(run, load["main"], set())
    for lib in run.sc.get("libs", []):
        write_files(run, lib, set())
    path = os.path.join(run.root, load["main"]["name"])
    how = load.get("how", "file")
    try:
        try:
            if how == "file":
                run.mm.model_from_file(path)
            elif how == "str_named":
                run.mm.model_from_str(file_text(load["main"]), file_name=path)
            else:
                run.mm.model_from_str(file_text(load["main"]))
        finally:
            run.ctx_stack.pop()
            run.main_names.pop()
    except MprocBoom as e:
        run.raised.append(cid)
        if e.cid != cid:
            # raised by a load that a callback of this load had started: this load fails
            run.ev("F", cid)
            raise Boom("model processor of an inner load") from None
        run.ev("E", cid)
        raise
    except BaseException:
        run.raised.append(cid)
        run.ev("F", cid)
        raise
    run.ev("E", cid)


class Scripted:
    def __call__(self, obj, attr, obj_ref):
        n = obj_ref.obj_name
        if n == "provboom":
            raise Boom("provider")
        if n == "postp":
            return Postponed()
        run = getattr(self, "run", None)
        act = run.sc["behav"].get("prov:%s" % n) if run is not None else None
        if act is not None:
            do_action(run, act)      # e.g. a complete load started from inside the scope provider
        return super().__call__(obj, attr, obj_ref)



class Provider(Scripted, sp.PlainNameImportURI):
    pass


class ProviderGlobalRepo(Scripted, sp.PlainNameGlobalRepo):
    pass


class ProviderFQNGlobalRepo(Scripted, sp.FQNGlobalRepo):
    pass


def repositories(run, mm):
    """every model registered in a repository reachable from the metamodel or its scope providers:
    (repository, key, number of the load that built the model or None)"""
    creators = [(w(), cid) for w, cid in run.model_wrefs if w() is not None]
    out = []

    def add(where, mapping):
        for k, m in mapping.items():
            cid = [c for o, c in creators if o is m]
            key = os.path.basename(k)
            out.append([where, key, cid[0] if cid else None])
    gr = getattr(mm, "_tx_model_repository", None)
    if gr is not None:
        add("all_models", gr.all_models.filename_to_model)
        add("local_models", gr.local_models.filename_to_model)
    bm = getattr(mm, "builtin_models", None)
    if bm is not None and hasattr(bm, "filename_to_model"):
        add("builtin_models", bm.filename_to_model)
    for prov in set(mm.scope_providers.values()):
        for i, m in enumerate(getattr(prov, "models_to_be_added_directly", [])):
            add("provider", {"direct%d" % i: m})
    return sorted(out, key=lambda x: (x[0], x[1]))


def class_dict_snapshot(classes):
    return {n: {k: id(v) for k, v in vars(c).items()} for n, c in classes.items()}


def dict_diff(before, after, classes):
    out = []
    for n in before:
        b, a = before[n], after[n]
        for k in sorted(set(b) | set(a)):
            if k not in a:
                out.append("%s.%s removed" % (n, k))
            elif k not in b:
                out.append("%s.%s added" % (n, k))
            elif a[k] != b[k]:
                out.append("%s.%s replaced" % (n, k))
        st = classes[n].__dict__.get("_tx_obj_attrs")
        if st:
            out.append("%s._tx_obj_attrs holds %d entries" % (n, len(st)))
    return out


def dump_model(m):
    return {"items": [[it.name, [s.name for s in it.subs]] for it in m.items],
            "refs": [r.target.name for r in m.refs], "nimports": len(m.imports)}


REF_MAIN = 'import "zz_ref_inc.m";\nitem q { sub r; };\nref q;\nref w;\n'
REF_INC = 'item w { sub v; };\n'
REF_STR = 'item q { sub r; };\nref q;\n'


def reference_load(run, mm):
    """a fixed load (two files with the import provider, a string with the repository providers);
    returns a dump of the result, of the __init__ calls it made and of the repositories after it"""
    for n, t in (("zz_ref_main.m", REF_MAIN), ("zz_ref_inc.m", REF_INC)):
        with open(os.path.join(run.root, n), "w") as fh:
            fh.write(t)
    for lib in run.sc.get("libs", []):
        write_files(run, lib, set())
    e0 = len(run.events)
    run.ctx_stack.append(-1)
    run.main_names.append("zz_ref_main.m")
    try:
        if run.sc.get("provider", "importuri") == "importuri":
            m = mm.model_from_file(os.path.join(run.root, "zz_ref_main.m"))
        else:
            m = mm.model_from_str(REF_STR)
        d = dump_model(m)
    except Exception as e:  # noqa
        d = {"error": type(e).__name__ + ": " + str(e)[:80]}
    finally:
        run.ctx_stack.pop()
        run.main_names.pop()
    evs = [[e[0], e[3]] if e[0] == "A" else [e[0]] for e in run.events[e0:]]
    del run.events[e0:]
    return {"dump": d, "events": evs, "repo": [[w, k] for w, k, _ in repositories(run, mm)]}


def make_mm(run, sc):
    mm = metamodel_from_str(GRAMMAR, classes=list(run.classes.values()), global_repository=bool(sc.get("global")))
    kind = sc.get("provider", "importuri")
    prov = {"importuri": Provider, "globalrepo": ProviderGlobalRepo, "fqn_globalrepo": ProviderFQNGlobalRepo}[kind]()
    prov.run = run
    for lib in sc.get("libs", []):
        prov.register_models(os.path.join(run.root, lib["name"]))
    mm.register_scope_providers({"*.*": prov})

    def hook_proc(h):
        do_action(run, run.sc["behav"].get("hook:%s" % h[1:]))
        return h

    def item_proc(it):
        run.ev("P", run.cur())
        probe_objects(run)
        do_action(run, run.sc["behav"].get("proc:%s" % it.name))

    mm.register_obj_processors({"Hook": hook_proc, "Item": item_proc})

    def mproc(model, _mm):
        for it in model.items:
            if run.sc["behav"].get("mproc:%s" % it.name) == "boom":
                if run.main_names and (model._tx_filename is None or os.path.basename(model._tx_filename) == run.main_names[-1]):
                    raise MprocBoom(run.cur())       # after the load proper has finished
                raise Boom("model processor of an imported model")

    mm.register_model_processor(mproc)
    return mm


def run_scenario(sc):
    root = tempfile.mkdtemp(prefix="c14_")
    run = Run(sc, root)
    orig_start = tm._start_model_construction

    def start(model):
        try:
            run.model_wrefs.append((weakref.ref(model), run.cur()))
        except TypeError:
            pass
        return orig_start(model)
    tm._start_model_construction = start
    res = {"tops": []}
    try:
        run.classes = make_classes(run, sc["classes"], sc["shape"])
        run.mm = make_mm(run, sc)
        before = class_dict_snapshot(run.classes)
        for lid in sc["tops"]:
            outcome = "ok"
            try:
                run_load(run, lid)
            except (Boom, MprocBoom) as e:
                outcome = "raised:" + type(e).__name__
            except TextXError as e:
                outcome = "raised:" + type(e).__name__
            except Exception as e:  # noqa  anything else is reported and compared as a failure
                outcome = "raised:" + type(e).__name__
                rootless = "Model" in sc["classes"] and sc["shape"] in ("slots", "frozen") and isinstance(e, AttributeError) and "_tx_parser" in str(e)
                if not rootless:
                    run.problems.append("unexpected %s: %s" % (type(e).__name__, str(e)[:200]))
            e = None
            after = class_dict_snapshot(run.classes)
            top = {"load": lid, "outcome": outcome, "dict_diff": dict_diff(before, after, run.classes), "snap": list(run.snap())}
            top["repo"] = repositories(run, run.mm)
            res["tops"].append(top)
        res["events"] = list(run.events)
        res["raised_ctx"] = list(run.raised)
        res["probes"] = json.loads(json.dumps(run.probes))
        res["inits"] = json.loads(json.dumps({str(k): v for k, v in run.inits.items()}))
        res["tx_attrs"] = {n: list(c._tx_attrs) for n, c in run.classes.items()}
        failed = [t for t in res["tops"] if t["outcome"] not in ("ok",)]
        # ---- reachability observation (C15): only meaningful when the last top-level load failed
        if sc.get("gc_check") and res["tops"] and res["tops"][-1]["outcome"].startswith("raised") \
                and res["tops"][-1]["outcome"] != "raised:MprocBoom" and all(t["outcome"] != "ok" for t in res["tops"]):
            run.objs = []
            run.byseq = {}
            run.seq = {}
            gc.collect()
            # only what the loads that raised have built: a load that a callback started and that
            # succeeded may legitimately stay cached in a metamodel-global repository
            raised = set(run.raised)
            actx = {e[2]: e[1] for e in run.events if e[0] == "A"}
            alive = [n for n, w in run.wrefs if w() is not None and actx.get(n) in raised]
            malive = sum(1 for w, cid in run.model_wrefs if w() is not None and cid in raised)
            res["alive"] = alive
            res["models_alive"] = malive
            if alive:
                # who holds the first survivor (names only)
                o = [w for n, w in run.wrefs if n == alive[0]][0]()
                holders = []
                for r in gc.get_referrers(o):
                    if r is not run.wrefs and not isinstance(r, type(sys._getframe())):
                        holders.append(type(r).__name__)
                res["holders"] = sorted(holders)[:6]
                del o
        # ---- next load behaves like a fresh metamodel (C15)
        if sc.get("next_check") and failed:
            got = reference_load(run, run.mm)
            run2 = Run(sc, root)
            run2.classes = make_classes(run2, sc["classes"], sc["shape"])
            run2.mm = make_mm(run2, sc)
            want = reference_load(run2, run2.mm)
            if any(e[0] == "E" and e[1] not in run.raised for e in res["events"]):
                # earlier successful loads legitimately stay cached: only the result is comparable
                got, want = {"dump": got["dump"]}, {"dump": want["dump"]}
            res["next"] = {"same": got == want, "got": got, "want": want}
            res["next_dict_diff"] = dict_diff(before, class_dict_snapshot(run.classes), run.classes)
        res["problems"] = run.problems
    finally:
        tm._start_model_construction = orig_start
        shutil.rmtree(root, ignore_errors=True)
    return res


def main():
    payload = json.load(sys.stdin)
    out = []
    for sc in payload["scenarios"]:
        try:
            out.append(run_scenario(sc))
        except Exception as e:  # noqa
            import traceback
            out.append({"harness_error": traceback.format_exc()[-1500:]})
    json.dump(out, sys.stdout)


main()
