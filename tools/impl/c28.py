"""Implementation runner for C28 and C33: load generated (multi-file) models with the real textX and
report the error that loading raises.  Observation only through the public API: a scope provider
subclass that postpones names starting with "late", object/match processors registered per case."""
import json
import os
import shutil
import sys
import tempfile

from textx import metamodel_from_str, textxerror_wrap, get_model
from textx.exceptions import TextXError, TextXSemanticError, TextXSyntaxError
from textx.scoping import Postponed
import textx.scoping.providers as sp


class Provider(sp.PlainNameImportURI):
    def __call__(self, obj, attr, obj_ref):
        if obj_ref.obj_name.startswith("late"):
            return Postponed()
        return super().__call__(obj, attr, obj_ref)


class Boom(Exception):
    pass


def make_raise(p):
    style = p["style"]

    def do_raise():
        if style == "other":
            raise Boom("boom")
        s = p.get("supplied") or {}
        cls = {"semantic": TextXSemanticError, "syntax": TextXSyntaxError, "base": TextXError}[p.get("cls", "semantic")]
        raise cls("processor says no", line=s.get("line"), col=s.get("col"), nchar=s.get("nchar"), filename=s.get("filename"))
    return do_raise


def make_processor(p, fired):
    do_raise = make_raise(p)
    if p["kind"] == "obj":
        def proc(o):
            m = get_model(o)
            fn = getattr(m, "_tx_filename", None)
            fn = None if fn is None else os.path.basename(fn)
            if getattr(o, "_tx_position", None) == p["pos"] and fn == p["file"] and type(o).__name__ == p["cls_name"]:
                fired.append([type(o).__name__, o._tx_position, o._tx_position_end])
                do_raise()
            return None
    else:
        def proc(v):
            if str(v) == p["value"]:
                fired.append(["match", str(v)])
                do_raise()
            return v
    return textxerror_wrap(proc) if p.get("wrap") else proc


def peg_info(case, mm, out):
    """Dump of the live parser model (tools/pegdump.py) and the regex oracle table for the text the
    parser of one file holds: inputs of the Coq interpreter model (Model/Peg.v)."""
    if case.get("peg_text") is None:
        return
    tools = os.path.dirname(os.path.dirname(os.path.abspath(__file__)))
    if tools not in sys.path:
        sys.path.insert(0, tools)
    import pegdump
    try:
        dump = pegdump.dump_metamodel(mm)
        out["peg_dump"] = dump.to_json()
        out["peg_table"] = dump.oracle_table(case["peg_text"])
        if case.get("want_mm"):
            import mmdump
            mi = mmdump.dump_mm(mm, dump)
            out["mm_info"] = mi
            out["peg_gtable"] = mmdump.group_table(dump, mi, case["peg_text"])
            out["mm_auto"] = bool(mm.auto_init_attributes)
            out["mm_use_grp"] = bool(mm.use_regexp_group)
    except pegdump.Unsupported as e:
        out["peg_unsupported"] = str(e)


class Def:
    def __init__(self, parent=None, name=None, ver=None, val=None):
        self.parent, self.name, self.ver, self.val = parent, name, ver, val


class Box:
    def __init__(self, parent=None, name=None, items=None):
        self.parent, self.name, self.items = parent, name, items


COMMON_RULES = ["Model", "Import", "Def", "Use", "Uses", "Rr", "Box"]


def make_metamodel(case, d):
    kw = {}
    if case.get("builtin"):
        # the builtin model is loaded beforehand with a metamodel of its own (same grammar)
        from textx.scoping import ModelRepository
        mm0 = metamodel_from_str(case["grammar"])
        mm0.register_scope_providers({"*.*": Provider()})
        path = os.path.join(d, case["builtin"]["name"])
        with open(path, "w", encoding="utf-8", newline="") as fh:
            fh.write(case["builtin"]["raw"])
        repo = ModelRepository()
        repo.add_model(mm0.model_from_file(path))
        kw["builtin_models"] = repo
    if case.get("user_classes"):
        kw["classes"] = [Def, Box]
    mm = metamodel_from_str(case["grammar"], **kw)
    mm.register_scope_providers({"*.*": Provider()})
    return mm


def dir_ok(case, fn, d):
    """the reported file name is the path of the loaded file (or, for a string load with an explicit
    file_name, that name, possibly made absolute)"""
    if fn is None or os.path.dirname(fn) == "":
        return True
    if case["string"] and case.get("str_file_name"):
        return fn == os.path.abspath(case["str_file_name"])
    return os.path.realpath(os.path.dirname(fn)) == os.path.realpath(d)


def run_case(case):
    d = tempfile.mkdtemp(prefix="loc_")
    try:
        fired = []
        try:
            mm = make_metamodel(case, d)
        except Exception as e:  # noqa
            return {"status": "setup-failed", "cls": type(e).__name__, "message": str(e), "fired": fired}
        extra = {}
        peg_info(case, mm, extra)
        procs = {}
        if case.get("proc"):
            if case.get("benign"):
                for rule in COMMON_RULES:
                    procs[rule] = lambda o: None
            procs[case["proc"]["rule"]] = make_processor(case["proc"], fired)
            mm.register_obj_processors(procs)
        for f in case["files"]:
            with open(os.path.join(d, f["name"]), "w", encoding="utf-8", newline="") as fh:
                fh.write(f["raw"])
        try:
            if case["string"]:
                if case.get("str_file_name"):
                    mm.model_from_str(case["files"][0]["raw"], file_name=case["str_file_name"])
                else:
                    mm.model_from_str(case["files"][0]["raw"])
            else:
                mm.model_from_file(os.path.join(d, case["files"][0]["name"]))
            res = {"status": "ok", "fired": fired}
        except TextXError as e:
            fn = e.filename
            res = {"status": "textx", "cls": type(e).__name__, "message": e.message, "line": e.line, "col": e.col,
                   "nchar": e.nchar, "filename": None if fn is None else os.path.basename(fn),
                   "dir_ok": dir_ok(case, fn, d),
                   "fired": fired, "str": str(e).replace(d + os.sep, "")}
        except Exception as e:  # noqa
            res = {"status": "exc", "cls": type(e).__name__, "message": str(e), "fired": fired}
        res.update(extra)
        return res
    finally:
        shutil.rmtree(d, ignore_errors=True)


def linecol_table(texts):
    """Arpeggio's own Parser.pos_to_linecol on bare texts, every offset 0..len (a parser of the test
    grammar whose input is set as parse() sets it)."""
    mm = metamodel_from_str(GRAMMAR_MIN)
    out = []
    for t in texts:
        parser = mm._parser_blueprint.clone()
        parser.input = t
        parser.line_ends = []
        out.append([list(parser.pos_to_linecol(p)) for p in range(len(t) + 1)])
    return out


GRAMMAR_MIN = "Model: 'x';"


def main():
    payload = json.load(sys.stdin)
    if "linecol_texts" in payload:
        json.dump(linecol_table(payload["linecol_texts"]), sys.stdout)
        return
    json.dump([run_case(c) for c in payload["cases"]], sys.stdout)


main()
