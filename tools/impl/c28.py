"""Implementation runner for C28 and C33: load generated (multi-file) models with the real textX and
report the error that loading raises.  Observation only through the public API: a scope provider
subclass that postpones names starting with "late", object/match processors registered per case."""
import json
import os
import shutil
import sys
import tempfile

from textx import metamodel_from_str, textxerror_wrap, get_model
from textx.exceptions import TextXError, TextXSemanticError, TextXSyntaxError
from textx.scoping import Postponed
import textx.scoping.providers as sp


class Provider(sp.PlainNameImportURI):
    def __call__(self, obj, attr, obj_ref):
        if obj_ref.obj_name.startswith("late"):
            return Postponed()
        return super().__call__(obj, attr, obj_ref)


class Boom(Exception):
    pass


def make_raise(p):
    style = p["style"]

    def do_raise():
        if style == "other":
            raise Boom("boom")
        s = p.get("supplied") or {}
        cls = {"semantic": TextXSemanticError, "syntax": TextXSyntaxError, "base": TextXError}[p.get("cls", "semantic")]
        raise cls("processor says no", line=s.get("line"), col=s.get("col"), nchar=s.get("nchar"), filename=s.get("filename"))
    return do_raise


def make_processor(p, fired):
    do_raise = make_raise(p)
    if p["kind"] == "obj":
        def proc(o):
            m = get_model(o)
            fn = getattr(m, "_tx_filename", None)
            fn = None if fn is None else os.path.basename(fn)
            if getattr(o, "_tx_position", None) == p["pos"] and fn == p["file"] and type(o).__name__ == p["cls_name"]:
                fired.append([type(o).__name__, o._tx_position, o._tx_position_end])
                do_raise()
            return None
    else:
        def proc(v):
            if str(v) == p["value"]:
                fired.append(["match", str(v)])
                do_raise()
            return v
    return textxerror_wrap(proc) if p.get("wrap") else proc


def run_case(case):
    d = tempfile.mkdtemp(prefix="loc_")
    try:
        mm = metamodel_from_str(case["grammar"])
        mm.register_scope_providers({"*.*": Provider()})
        fired = []
        if case.get("proc"):
            mm.register_obj_processors({case["proc"]["rule"]: make_processor(case["proc"], fired)})
        for f in case["files"]:
            with open(os.path.join(d, f["name"]), "w", encoding="utf-8", newline="") as fh:
                fh.write(f["raw"])
        try:
            if case["string"]:
                mm.model_from_str(case["files"][0]["raw"])
            else:
                mm.model_from_file(os.path.join(d, case["files"][0]["name"]))
            return {"status": "ok", "fired": fired}
        except TextXError as e:
            fn = e.filename
            return {"status": "textx", "cls": type(e).__name__, "message": e.message, "line": e.line, "col": e.col,
                    "nchar": e.nchar, "filename": None if fn is None else os.path.basename(fn),
                    "dir_ok": fn is None or os.path.dirname(fn) == "" or os.path.realpath(os.path.dirname(fn)) == os.path.realpath(d), "fired": fired,
                    "str": str(e).replace(d + os.sep, "")}
        except Exception as e:  # noqa
            return {"status": "exc", "cls": type(e).__name__, "message": str(e), "fired": fired}
    finally:
        shutil.rmtree(d, ignore_errors=True)


def linecol_table(texts):
    """Arpeggio's own Parser.pos_to_linecol on bare texts, every offset 0..len (a parser of the test
    grammar whose input is set as parse() sets it)."""
    mm = metamodel_from_str(GRAMMAR_MIN)
    out = []
    for t in texts:
        parser = mm._parser_blueprint.clone()
        parser.input = t
        parser.line_ends = []
        out.append([list(parser.pos_to_linecol(p)) for p in range(len(t) + 1)])
    return out


GRAMMAR_MIN = "Model: 'x';"


def main():
    payload = json.load(sys.stdin)
    if "linecol_texts" in payload:
        json.dump(linecol_table(payload["linecol_texts"]), sys.stdout)
        return
    json.dump([run_case(c) for c in payload["cases"]], sys.stdout)


main()
