"""Implementation runner for C29: build metamodels/models from generated grammars and model texts,
plant hostile string values, run the real exporters (model_export, metamodel_export, the registered
'dot'/'PlantUML' generators) and return the exported text with object ids canonicalised, together with a
dump of the object graph / class list the export was made from."""
import json
import os
import re
import shutil
import sys
import tempfile

from textx import metamodel_from_str
from textx import export as ex
from textx import generators as gens
from textx.const import RULE_ABSTRACT, RULE_COMMON, RULE_MATCH
from textx.lang import ALL_TYPE_NAMES, PRIMITIVE_PYTHON_TYPES

TYP = {RULE_ABSTRACT: "abstract", RULE_COMMON: "common", RULE_MATCH: "match"}


def plant(value, values):
    if isinstance(value, str):
        m = re.fullmatch(r"@(\d+)", value)
        if m and int(m.group(1)) < len(values):
            return values[int(m.group(1))]
    return value


def walk(model, values):
    """All objects reachable through attributes (containment and references), in first-visit order;
    placeholders '@k' in string values are replaced by values[k] on the way."""
    order, seen = [], {}

    def go(o):
        if o is None or type(o) in PRIMITIVE_PYTHON_TYPES or id(o) in seen:
            return
        seen[id(o)] = len(order)
        order.append(o)
        attrs = getattr(o.__class__, "_tx_attrs", None)
        if attrs is None:
            return
        for an in attrs:
            v = getattr(o, an)
            if isinstance(v, list):
                for i, x in enumerate(v):
                    v[i] = plant(x, values)
                for x in v:
                    go(x)
            else:
                nv = plant(v, values)
                if nv is not v:
                    setattr(o, an, nv)
                go(nv)
    go(model)
    return order, seen


def dump_val(v, seen):
    if v is None:
        return {"t": "none"}
    if type(v) in PRIMITIVE_PYTHON_TYPES:
        return {"t": "prim", "ty": type(v).__name__, "s": str(v), "str": isinstance(v, str)}
    if isinstance(v, list):
        return {"t": "list", "v": [dump_val(x, seen) for x in v]}
    return {"t": "obj", "id": seen.get(id(v), -1)}


def dump_objects(order, seen):
    out = []
    for o in order:
        attrs = []
        for an, a in getattr(o.__class__, "_tx_attrs", {}).items():
            attrs.append({"name": an, "cont": bool(a.cont), "mult": a.mult, "val": dump_val(getattr(o, an), seen)})
        out.append({"cls": o.__class__.__name__, "attrs": attrs})
    return out


def canon_ids(text, idmap):
    """replace every python id() by 7000000+k (k = index in the dump)"""
    def rep(m):
        k = idmap.get(int(m.group(0)))
        return m.group(0) if k is None else str(7000000 + k)
    return re.sub(r"(?<![0-9])[0-9]{6,}(?![0-9])", rep, text)


class BuildError(Exception):
    """the metamodel/model could not be built: nothing was exported, the property says nothing"""


def user_class(rule, shape):
    """A user class for grammar rule `rule` (classes=[...]) with special methods of the given shape.  Equality and hash
    never look at identity: `value` compares the primitive attribute values, `const` makes all instances equal."""
    def __init__(self, **kw):
        for k, v in kw.items():
            setattr(self, k, v)

    def key(self):
        return tuple(sorted((k, repr(v)) for k, v in vars(self).items()
                            if not k.startswith("_") and k != "parent" and type(v) in PRIMITIVE_PYTHON_TYPES))

    def eq(self, other):
        return type(other) is type(self) and key(self) == key(other)
    ns = {"__init__": __init__}
    if shape == "value":
        ns.update(__eq__=eq, __hash__=lambda self: hash(key(self)))
    elif shape == "const":
        ns.update(__eq__=lambda self, other: type(other) is type(self), __hash__=lambda self: 7)
    elif shape == "unhashable":
        ns.update(__eq__=eq, __hash__=None)
    elif shape == "falsy_len":
        ns.update(__len__=lambda self: 0)
    elif shape == "falsy_bool":
        ns.update(__bool__=lambda self: False)
    elif shape == "strrepr":
        ns.update(__str__=lambda self: 'a"b{|}\\', __repr__=lambda self: '<"|{>')
    elif shape != "plain":
        raise ValueError("unknown class shape " + shape)
    return type(rule, (), ns)


def run_model(case, d):
    mode = case.get("mode", "single")
    try:
        kw = {}
        if case.get("classes"):
            kw["classes"] = [user_class(c["rule"], c["shape"]) for c in case["classes"]]
        if mode == "globalrepo":
            kw["global_repository"] = True
        mm = metamodel_from_str(case["grammar"], **kw)
        if mode == "globalrepo" and case.get("cross"):
            # references resolve across all files of the directory (cross-file reference edges in the export)
            from textx.scoping import providers
            mm.register_scope_providers({"*.*": providers.PlainNameGlobalRepo(os.path.join(d, "*"))})
            for f in case["files"]:
                with open(os.path.join(d, f["name"]), "w", encoding="utf-8") as fh:
                    fh.write(f["text"])
        models = []
        for f in case["files"]:
            p = os.path.join(d, f["name"])
            with open(p, "w", encoding="utf-8") as fh:
                fh.write(f["text"])
            models.append(mm.model_from_file(p))
    except Exception as e:
        raise BuildError("%s: %s" % (type(e).__name__, e)) from e
    order, seen = [], {}
    for m in models:
        o2, s2 = walk(m, case.get("values", []))
        for o in o2:
            if id(o) not in seen:
                seen[id(o)] = len(order)
                order.append(o)
    out = os.path.join(d, "out.dot")
    exported = models[:1]
    repo_path = mode == "repo"
    if mode == "single":
        ex.model_export(models[0], out)
    elif mode == "globalrepo":
        # a model of a metamodel with a global repository: every model of the repository is exported
        ex.model_export(models[-1], out)
        exported = [models[-1]]
        rep = getattr(models[-1], "_tx_model_repository", None)
        if rep is not None and len(rep.all_models):
            exported = list(rep.all_models)
            repo_path = True
    elif mode == "repo":
        ex.model_export(None, out, repo=models)
    elif mode == "generator":
        od = os.path.join(d, "gen")
        os.makedirs(od)
        gens.model_generate_dot.generator(mm, models[0], od, True, False)
        names = os.listdir(od)
        assert len(names) == 1, names
        out = os.path.join(od, names[0])
    with open(out, encoding="utf-8") as fh:
        text = fh.read()
    text = canon_ids(text, {k: v for k, v in seen.items()})
    text = text.replace(d, "/T")
    roots = [seen[id(m)] for m in (models if mode == "repo" else exported)]
    files = [None if m._tx_filename is None else m._tx_filename.replace(d, "/T") for m in models]
    root_files = [str(m._tx_filename).replace(d, "/T") for m in (models if mode == "repo" else exported)]
    return {"text": text, "objects": dump_objects(order, seen), "roots": roots, "files": files, "repo_path": repo_path, "root_files": root_files}


def run_metamodel(case, d):
    p = os.path.join(d, "g.tx")
    with open(p, "w", encoding="utf-8") as fh:
        fh.write(case["grammar"])
    mode = case.get("mode", "dot")
    from textx import metamodel_for_language
    if mode in ("gen_dot", "gen_plantuml"):
        mm = metamodel_for_language("textx").model_from_file(p)
    else:
        mm = metamodel_from_str(case["grammar"])
    classes = [c for c in mm]
    idmap = {}
    out = os.path.join(d, "out.txt")
    # ids of the Cls wrappers are not the ids of the metaclasses: observe them through get_unified_classes
    orig = ex.get_unified_classes
    captured = []

    def spy(classes_):
        r = list(orig(classes_))
        captured[:] = r
        return r
    ex.get_unified_classes = spy
    # rows of the match-rule table / legend: every dot_match_str call made while the trailer is rendered
    orig_dms = ex.dot_match_str
    rows = []

    def dms_spy(cls_, other=None):
        r = orig_dms(cls_, other)
        rows.append([cls_.name, r])
        return r
    ex.dot_match_str = dms_spy
    try:
        if mode == "dot":
            ex.metamodel_export(mm, out)
        elif mode == "plantuml":
            ex.metamodel_export(mm, out, renderer=ex.PlantUmlRenderer(case.get("linetype")))
        else:
            od = os.path.join(d, "gen")
            os.makedirs(od)
            if mode == "gen_dot":
                gens.metamodel_generate_dot.generator(metamodel_for_language("textx"), mm, od, True, False)
            else:
                kw = {"linetype": case["linetype"]} if case.get("linetype") else {}
                gens.metamodel_generate_plantuml.generator(metamodel_for_language("textx"), mm, od, True, False, **kw)
            names = os.listdir(od)
            assert len(names) == 1, names
            out = os.path.join(od, names[0])
    finally:
        ex.get_unified_classes = orig
        ex.dot_match_str = orig_dms
    with open(out, encoding="utf-8") as fh:
        text = fh.read()
    cl = []
    for k, c in enumerate(captured):
        idmap[id(c)] = k
    text = canon_ids(text, idmap)
    for k, c in enumerate(captured):
        cl.append({"name": c.name, "fqn": c.fqn, "typ": TYP.get(c.typ, str(c.typ)), "builtin": c.fqn in ALL_TYPE_NAMES or c.name in ALL_TYPE_NAMES,
                   "attrs": [{"name": a.name, "cls": a.cls.name, "clsid": idmap.get(id(a.cls), -1), "mult": a.mult, "cont": bool(a.cont), "ref": bool(a.ref)} for a in c.attrs],
                   "inh_by": [idmap.get(id(x), -1) for x in c.inh_by]})
    if mode in ("dot", "gen_dot"):
        from html import escape
        rows = [[n, escape(t)] for n, t in rows]
    return {"text": text, "classes": cl, "nclasses_mm": len(classes), "rows": rows}


def run_escape(case, d):
    return {"escape": [ex.dot_escape(s) for s in case["strings"]], "repr": [ex.dot_repr(s) for s in case["strings"]]}


def main():
    payload = json.load(sys.stdin)
    out = []
    for case in payload["cases"]:
        d = tempfile.mkdtemp(prefix="c29_")
        try:
            try:
                if case["kind"] == "model":
                    r = run_model(case, d)
                elif case["kind"] == "metamodel":
                    r = run_metamodel(case, d)
                else:
                    r = run_escape(case, d)
                r.setdefault("exc", None)
            except BuildError as e:
                r = {"exc": None, "build_exc": str(e)}
            except Exception as e:  # reported to the check, which decides
                import traceback
                r = {"exc": "%s: %s" % (type(e).__name__, e), "tb": traceback.format_exc()[-1500:]}
            out.append(r)
        finally:
            shutil.rmtree(d, ignore_errors=True)
    json.dump(out, sys.stdout)


main()
