"""Implementation runner for C22 (run with PYTHONPATH=$TEXTX_REPO).

stdin: {"cases": [{"grammar": text, "opts": {...}, "inputs": [text, ...], "max_mut": n, "pick": seed,
                   "comment": None|"line"|"both"|"hash"|"shared", "explicit": [[input, k, ins], ...]?}]}
stdout: per case {"grammar_error", "dump": <pegdump json>, "runs": [per input {
            "text", "tree", "model", "table", "tokens": [{"pos","len","nid","chain":[rule names],
            "gap_start", "skipws", "ws", "ambiguous"}], "comments": [[start,end],...],
            "muts": [{"k", "ins", "kind", "gap_empty", "text", "tree", "model", "table"}]}]}

Everything is observed through the public API (metamodel_from_str / model_from_str) plus the
Arpeggio-level parse of a clone of the model parser; arpeggio.Match.parse and the terminals'
_parse are wrapped INSIDE THIS PROCESS to log, for every successful terminal match, the position
before whitespace skipping and the whitespace mode of the parser at that moment.
"""
import json
import os
import signal
import sys

sys.path.insert(0, os.path.dirname(os.path.dirname(os.path.abspath(__file__))))
sys.path.insert(0, os.path.dirname(os.path.abspath(__file__)))
import pegdump  # noqa: E402
import mmdump  # noqa: E402  (read-only use of the C01/C06 metamodel dumper)
import c01 as _c01  # noqa: E402  (read-only use of the C01 runner's full model dump: dump_value / load)

import arpeggio as A  # noqa: E402
from textx import metamodel_from_str  # noqa: E402
from textx.exceptions import TextXError, TextXSyntaxError  # noqa: E402


class Timeout(BaseException):
    pass


def _alarm(signum, frame):
    raise Timeout()


# ---------------------------------------------------------------- instrumentation (this process only)
LOG = []
_STARTS = []
_ENABLED = [False]


def _wrap_inner(cls):
    orig = cls._parse

    def _parse(self, parser):
        if _ENABLED[0]:
            _STARTS.append(parser.position)
        return orig(self, parser)
    cls._parse = _parse


for _c in (A.RegExMatch, A.StrMatch, A.EndOfFile):
    _wrap_inner(_c)

_orig_match_parse = A.Match.parse


def _match_parse(self, parser):
    if not _ENABLED[0]:
        return _orig_match_parse(self, parser)
    entry = parser.position
    sk, ws, inc = parser.skipws, parser.ws, parser.in_parse_comments
    n0 = len(_STARTS)
    r = _orig_match_parse(self, parser)          # NoMatch propagates: only successes are logged
    start = _STARTS[-1] if len(_STARTS) > n0 else parser.position
    LOG.append(("eof" if isinstance(self, A.EndOfFile) else id(self), entry, start, parser.position, bool(sk), ws, bool(inc)))
    return r


A.Match.parse = _match_parse


# ---------------------------------------------------------------- canonical textX model, positions excluded
def canon_model(o, depth=0):
    if depth > 60:
        return "<deep>"
    if isinstance(o, list):
        return "[" + ",".join(canon_model(x, depth + 1) for x in o) + "]"
    cls = type(o)
    attrs = getattr(cls, "_tx_attrs", None)
    if attrs is not None and not isinstance(o, (str, int, float, bool)):
        parts = ["%s=%s" % (name, canon_model(getattr(o, name, "<missing>"), depth + 1)) for name in attrs]
        return "%s{%s}" % (cls.__name__, ",".join(parts))
    return "%s:%r" % (type(o).__name__, o)


def load(mm, text):
    try:
        m = mm.model_from_str(text)
    except TextXSyntaxError as e:
        c = e.__cause__
        return {"ok": False, "err": "syntax", "pos": getattr(c, "position", None)}
    except TextXError as e:
        return {"ok": False, "err": type(e).__name__, "pos": None}
    except Timeout:
        raise
    except RecursionError:
        return {"ok": False, "err": "crash:RecursionError", "pos": None}
    except Exception as e:
        return {"ok": False, "err": "crash:" + type(e).__name__, "pos": None}
    return {"ok": True, "model": canon_model(m)}


def leaves(node, chain, out):
    if isinstance(node, A.NonTerminal):
        ch = chain + [node.rule_name]
        for c in node:
            leaves(c, ch, out)
    elif isinstance(node, A.Terminal):
        out.append((node, chain))


def analyse(dump, parser, text):
    """Arpeggio-level parse with logging; returns (outcome, tokens, comment spans)."""
    del LOG[:]
    del _STARTS[:]
    _ENABLED[0] = True
    try:
        outcome = pegdump.parse_outcome(dump, parser, text)
    finally:
        _ENABLED[0] = False
    log = list(LOG)
    tokens, comments = [], []
    if not outcome.startswith("P:"):
        return outcome, tokens, comments
    for (nid, entry, start, end, sk, ws, inc) in log:
        if inc and end > start:
            comments.append([start, end])
    comments = sorted(set(map(tuple, comments)))
    lv = []
    leaves(parser.parse_tree, [], lv)
    for term, chain in lv:
        p, ln = term.position, len(term.value)
        key = id(term.rule)
        if isinstance(term.rule, A.EndOfFile):      # EndOfFile._parse returns a Terminal of a fresh EOF() object
            ln, key = 0, "eof"
        modes = set()
        for (nid, entry, start, end, sk, ws, inc) in log:
            if nid == key and start == p and end == p + ln and not inc:
                modes.add((sk, ws, entry))
        tok = {"pos": p, "len": ln, "nid": dump.idmap.get(id(term.rule)), "chain": chain, "gap_start": None,
               "skipws": None, "ws": None, "ambiguous": len(modes) != 1}
        if not tok["ambiguous"]:
            # the gap before the token = [position at which Match.parse was entered, position of the match)
            tok["skipws"], tok["ws"], tok["gap_start"] = sorted(modes)[0]
        tokens.append(tok)
    return outcome, tokens, [list(c) for c in comments]


class Lcg:
    def __init__(self, seed):
        self.s = (seed * 2862933555777941757 + 3037000493) % (1 << 64)

    def below(self, n):
        self.s = (self.s * 6364136223846793005 + 1442695040888963407) % (1 << 64)
        return (self.s >> 33) % n if n > 1 else 0


COMMENT_TEXT = {"line": ["// i"], "hash": ["# i"], "both": ["// i", "/* i */", "/**/", "/* i\n j */"],
                "shared": ["// i", "/* i */", "/*i*/"], "block": ["/* i */", "/**/"]}


def candidates(text, tokens, comments, comment_kind):
    """All (k, ins, kind, gap_empty) insertions at the token boundaries of an accepted parse where
    whitespace skipping is active."""
    cands = []
    seen = set()

    def inside_comment(k):
        return any(a < k < b for a, b in comments)

    for t in tokens:
        if t["ambiguous"] or not t["skipws"] or not t["ws"]:
            continue
        ws = t["ws"]
        g0, g1 = t["gap_start"], t["pos"]
        if g1 < g0:
            continue
        sites = sorted({g0, g1, (g0 + g1) // 2})
        for k in sites:
            if inside_comment(k):
                continue
            empty = g0 == g1
            at_edge = k in (g0, g1)
            inss = [(c, "ws", [c, "", ""]) for c in ws]
            if len(ws) > 1:
                inss.append((ws[0] + ws[-1] + ws[0], "ws", [ws[0] + ws[-1] + ws[0], "", ""]))
            if comment_kind:
                for ct in COMMENT_TEXT[comment_kind]:
                    if "\n" in ct and ("\n" not in ws):
                        continue
                    if ct.startswith("//") or ct.startswith("#"):
                        if "\n" in ws:
                            inss.append((ct + "\n", "comment", ["", ct, "\n"]))
                    else:
                        inss.append((ct, "comment", ["", ct, ""]))
                        inss.append((ws[0] + ct + ws[0], "comment", [ws[0], ct, ws[0]]))
            for ins, kind, parts in inss:
                key = (k, ins)
                if key not in seen:
                    seen.add(key)
                    cands.append({"k": k, "ins": ins, "kind": kind, "gap_empty": empty, "at_edge": at_edge, "mode_ws": ws,
                                  "parts": parts})
    return cands


def main():
    payload = json.load(sys.stdin)
    signal.signal(signal.SIGALRM, _alarm)
    sys.setrecursionlimit(3000)
    out = []
    for case in payload["cases"]:
        res = {"grammar_error": None, "dump": None, "runs": []}
        out.append(res)
        try:
            signal.setitimer(signal.ITIMER_REAL, 10, 1)
            mm = metamodel_from_str(case["grammar"], **case.get("opts", {}))
            d = pegdump.dump_metamodel(mm)
            mm_on = metamodel_from_str(case["grammar"], memoization=True, **case.get("opts", {}))
            d_on = pegdump.dump_metamodel(mm_on)
            signal.setitimer(signal.ITIMER_REAL, 0)
        except Timeout:
            res["grammar_error"] = "Timeout"
            continue
        except pegdump.Unsupported as e:
            signal.setitimer(signal.ITIMER_REAL, 0)
            res["grammar_error"] = "Unsupported: %s" % e
            continue
        except Exception as e:
            signal.setitimer(signal.ITIMER_REAL, 0)
            res["grammar_error"] = "%s" % type(e).__name__
            continue
        if d.memoization:
            res["grammar_error"] = "memoization unexpectedly on"
            continue
        res["dump"] = d.to_json()
        try:
            res["mm"] = mmdump.dump_mm(mm, d)
        except Exception as e:        # metamodel outside the Build model: the model-level sample is skipped
            res["mm"] = None
            res["mm_error"] = type(e).__name__
        rng = Lcg(int(case.get("pick", 1)))
        explicit = case.get("explicit") or []
        for text in case["inputs"]:
            run = {"text": text, "muts": []}
            res["runs"].append(run)
            try:
                signal.setitimer(signal.ITIMER_REAL, 5, 1)
                parser = mm._parser_blueprint.clone()
                run["tree"], run["tokens"], run["comments"] = analyse(d, parser, text)
                run["model"] = load(mm, text)
                run["full"] = _c01.load(lambda: mm.model_from_str(text))
                run["table"] = d.oracle_table(text)
                run["tree_on"] = pegdump.parse_outcome(d_on, mm_on._parser_blueprint.clone(), text)
                signal.setitimer(signal.ITIMER_REAL, 0)
            except Timeout:
                run["timeout"] = True
                continue
            except pegdump.Unsupported as e:
                signal.setitimer(signal.ITIMER_REAL, 0)
                run["unsupported"] = str(e)
                continue
            if not run["tree"].startswith("P:"):
                continue
            cands = candidates(text, run["tokens"], run["comments"], case.get("comment"))
            run["n_candidates"] = len(cands)
            chosen = []
            for (etext, k, ins) in explicit:
                if etext == text:
                    chosen.append({"k": k, "ins": ins, "kind": "explicit", "gap_empty": None, "at_edge": None, "mode_ws": None,
                                   "parts": [ins, "", ""]})
            mx = int(case.get("max_mut", 8))
            pool = list(cands)
            while pool and len(chosen) < mx + len([1 for e in explicit if e[0] == text]):
                chosen.append(pool.pop(rng.below(len(pool))))
            for c in chosen:
                k, ins = c["k"], c["ins"]
                mt = text[:k] + ins + text[k:]
                m = dict(c)
                m["text"] = mt
                try:
                    signal.setitimer(signal.ITIMER_REAL, 5, 1)
                    m["tree"] = pegdump.parse_outcome(d, mm._parser_blueprint.clone(), mt)
                    m["model"] = load(mm, mt)
                    m["full"] = _c01.load(lambda: mm.model_from_str(mt))
                    m["table"] = d.oracle_table(mt)
                    m["tree_on"] = pegdump.parse_outcome(d_on, mm_on._parser_blueprint.clone(), mt)
                    signal.setitimer(signal.ITIMER_REAL, 0)
                except Timeout:
                    m["timeout"] = True
                except pegdump.Unsupported as e:
                    signal.setitimer(signal.ITIMER_REAL, 0)
                    m["unsupported"] = str(e)
                run["muts"].append(m)
    json.dump(out, sys.stdout)


if __name__ == "__main__":
    main()
