"""Implementation runner for C34: load multi-file models with textx_tools_support=True and dump
_pos_crossref_list / _pos_rule_dict of every loaded model.

modes: 'scripted' -> one '*.*' provider driven by a table (per reference "file:position":
                     delay = number of initial Postponed answers, target = (file, class, name) or null)
       'real'     -> FQNImportURI for '*.*' and RelativeName('inst.type.elems') for Pick.val
"""
import json
import os
import shutil
import sys
import tempfile

from textx import metamodel_from_str
from textx.exceptions import TextXSemanticError, TextXError
from textx.model import get_children, get_model
from textx.scoping import Postponed
from textx.scoping.providers import ImportURI, FQNImportURI, RelativeName

GRAMMAR = r'''
Model: imports*=Import elems*=Elem;
Import: 'import' importURI=STRING;
Elem: Pkg | Use | One | Pick | Wrap | Item | Inst;
Pkg: 'pkg' name=ID '{' elems*=Elem '}';
Item: 'item' name=ID;
Wrap: mid=Mid ('with' extra=ID)?;
Mid: cores+=Core['plus'];
Core: 'core' name=ID;
Use: 'use' refs+=[Target:FQN][','] ';';
One: 'one' ref=[Target:FQN];
Inst: 'inst' name=ID ':' type=[Pkg:FQN];
Pick: 'pick' val=[Item] 'of' inst=[Inst:FQN];
Target: Item | Core | Pkg | Inst;
FQN: ID('.'ID)*;
'''


def fname(model):
    return "main.c34" if model._tx_filename is None else os.path.basename(model._tx_filename)


def all_models_of(model):
    res = {}
    rep = getattr(model, "_tx_model_repository", None)
    if rep is not None:
        for fn, m in rep.all_models.filename_to_model.items():
            res[os.path.basename(fn)] = m
    res[fname(model)] = model
    return res


class Scripted(ImportURI):
    def __init__(self, table):
        ImportURI.__init__(self, None)
        self.table = table
        self.asked = {}

    def __call__(self, obj, attr, obj_ref):
        model = get_model(obj)
        key = "%s:%d" % (fname(model), obj_ref.position)
        t = self.table.get(key)
        k = self.asked.get(key, 0)
        self.asked[key] = k + 1
        if t is None:
            return None
        if k < t["delay"]:
            return Postponed()
        tg = t["target"]
        if tg is None:
            return None
        tm = all_models_of(model).get(tg["file"])
        if tm is None:
            return None
        found = get_children(lambda o: type(o).__name__ == tg["cls"] and getattr(o, "name", None) == tg["name"], tm)
        return found[0] if found else None


def dump_model(mod):
    refs = []
    for e in mod._pos_crossref_list:
        refs.append([e.name, e.ref_pos_start, e.ref_pos_end,
                     None if e.def_file_name is None else os.path.basename(e.def_file_name),
                     e.def_pos_start, e.def_pos_end])
    d = []
    for k, v in mod._pos_rule_dict.items():
        d.append([k[0], k[1], type(v).__name__, v._tx_position, v._tx_position_end])
    return {"refs": refs, "dict": d}


def run_case(case):
    d = tempfile.mkdtemp(prefix="c34_")
    out = {}
    try:
        for name, text in case["files"].items():
            with open(os.path.join(d, name), "w", encoding="utf-8", newline="") as f:
                f.write(text)
        kw = {"global_repository": True} if case.get("grepo") else {}
        mm = metamodel_from_str(GRAMMAR, textx_tools_support=True, **kw)
        if case.get("builtins"):
            # objects that are instances of Item (hence of Target) but belong to no model
            item = mm["Item"]
            bi = {}
            for nm in case["builtins"]:
                o = item.__new__(item)
                o.name = nm
                bi[nm] = o
            mm.builtins = bi
        if case["mode"] == "scripted":
            mm.register_scope_providers({"*.*": Scripted(case["table"])})
        else:
            mm.register_scope_providers({"*.*": FQNImportURI(), "Pick.val": RelativeName("inst.type.elems")})
        k = 0
        try:
            if case.get("from_str"):
                m = mm.model_from_str(case["files"][case["main"]])
                out["outcome"] = "ok"
                out["models"] = {case["main"]: dump_model(m)}
            else:
                loaded = {}
                for k, main in enumerate(case.get("loads") or [case["main"]]):
                    m = mm.model_from_file(os.path.join(d, main))
                    loaded.update(all_models_of(m))
                out["outcome"] = "ok"
                out["models"] = {name: dump_model(mod) for name, mod in loaded.items()}
        except TextXSemanticError as e:
            msg = str(e)
            if "Unresolvable cross references" in msg:
                out["outcome"] = "fail%d:unresolvable" % k
            elif "Unknown object" in msg:
                out["outcome"] = "fail%d:unknown" % k
            else:
                out["outcome"] = "semantic:" + msg[:200].replace(d, "")
        except TextXError as e:
            out["outcome"] = "textx:" + type(e).__name__ + ":" + str(e)[:200].replace(d, "")
        except Exception as e:  # noqa
            out["outcome"] = "EXC:" + type(e).__name__ + ":" + str(e)[:200].replace(d, "")
        return out
    finally:
        shutil.rmtree(d, ignore_errors=True)


def main():
    payload = json.load(sys.stdin)
    json.dump([run_case(c) for c in payload["cases"]], sys.stdout)


main()
