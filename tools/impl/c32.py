"""Implementation runner for C32: which provider resolves each reference."""
import json
import sys
from textx import metamodel_from_str
from textx.exceptions import TextXError

GRAMMAR = r'''
Model: items+=Item a+=RefA b+=RefB;
Item: 'item' name=ID ('{' subs+=Item '}')?;
RefA: 'refa' single=[Item%(ra)s] ('many' many+=[Item%(ra)s][','])?;
RefB: 'refb' single=[Item%(rb)s] ('many' many+=[Item%(rb)s][','])?;
'''
MODEL = '''
item x { item y { item z } }
item w { item x }
item q
refa %(na)s many %(na)s, %(na)s
refb %(nb)s many %(nb)s
'''


def path_of(o):
    parts = []
    while o is not None and hasattr(o, 'name'):
        parts.append(o.name)
        o = getattr(o, 'parent', None)
        if not hasattr(o, 'name'):
            break
    return '/'.join(reversed(parts))


def run_config(cfg):
    rrel = '|ID|' + cfg['rrel']
    ra = rrel if cfg['rrel_on'] == 'A' else ''
    rb = rrel if cfg['rrel_on'] == 'B' else ''
    mm = metamodel_from_str(GRAMMAR % dict(ra=ra, rb=rb))
    if cfg.get('swap'):
        pass
    if 'steps' in cfg:
        # several register_scope_providers calls on this ONE meta-model, a model is loaded after each
        return {'steps': [load(mm, cfg, keys, {}, gen, len(cfg['steps']) - 1 - gen) for gen, keys in enumerate(cfg['steps'])]}
    return load(mm, cfg, cfg['keys'], cfg.get('string_keys', {}), 0, 0)


CUR = {}


def load(mm, cfg, keys, string_keys, gen, age):
    log = []
    CUR['log'], CUR['gen'] = log, gen

    def mk(key):
        def provider(obj, attr, ref):
            # a provider of an earlier registration that is still called shows up in the log of the current load
            CUR['log'].append([key if CUR['gen'] == gen else '%s@registration%d' % (key, gen), type(obj).__name__, attr.name])
            m = obj
            while hasattr(m, 'parent'):
                m = m.parent
            return m.items[2]   # 'q'
        return provider
    regs = {}
    for k in keys:
        regs[k] = mk(k)
    for k, v in string_keys.items():
        regs[k] = v
    try:
        mm.register_scope_providers(regs)
    except Exception as e:   # an RREL string that does not parse (arpeggio NoMatch / TextXError)
        return {'error': 'registration:' + type(e).__name__, 'log': log}
    try:
        m = mm.model_from_str(MODEL % dict(na=cfg.get('name_a', 'y'), nb=cfg.get('name_b', 'y')))
    except TextXError as e:
        return {'error': type(e).__name__ + ':' + str(getattr(e, 'err_type', None)), 'log': log}
    except Exception as e:   # e.g. a registration value that is not callable
        return {'error': 'OTHER:' + type(e).__name__ + ':' + str(e)[:80], 'log': log}
    out = {'log': log, 'targets': {}}
    for r in m.a + m.b:
        cls = type(r).__name__
        out['targets'][cls + '.single'] = path_of(r.single)
        out['targets'][cls + '.many'] = [path_of(x) for x in r.many]
    return out


def main():
    payload = json.load(sys.stdin)
    res = [run_config(c) for c in payload['configs']]
    json.dump(res, sys.stdout)


main()
