"""Implementation runner for C08/C09: scripted scope provider driven by a table
(per reference: delay = number of initial Postponed answers, deps = references it waits for, never)."""
import json
import os
import shutil
import sys
import tempfile

from textx import metamodel_from_str
from textx.exceptions import TextXSemanticError, TextXError
from textx.scoping import Postponed
from textx.scoping.providers import ImportURI

GRAMMAR = r'''
Model: imports*=Import items*=Item holders*=Holder;
Import: 'import' importURI=STRING;
Item: 'item' name=ID;
Holder: 'holder' name=ID parts*=Part;
Part: 'single' single=[Item] | 'many' many+=[Item][','];
'''
# NB: a Holder has several Parts so that one object can own several list attributes/scalars;
# the list attribute under test is Part.many, the scalar Part.single.


class Scripted(ImportURI):
    def __init__(self, table, log):
        ImportURI.__init__(self, None)
        self.table = table
        self.log = log
        self.asked = {}
        self.resolved = set()

    def __call__(self, obj, attr, obj_ref):
        name = obj_ref.obj_name
        rid = int(name[1:])
        t = self.table[str(rid)]
        k = self.asked.get(rid, 0)
        self.asked[rid] = k + 1
        self.log.append(rid)
        if k < t["delay"] or t["never"] or not all(d in self.resolved for d in t["deps"]):
            return Postponed()
        m = obj
        while hasattr(m, "parent"):
            m = m.parent
        for it in m.items:
            if it.name == "t%d" % t["tgt"]:
                self.resolved.add(rid)
                return it
        return None


def run_case(case):
    d = tempfile.mkdtemp(prefix="c08_")
    try:
        for name, text in case["files"].items():
            with open(os.path.join(d, name), "w") as f:
                f.write(text)
        mm = metamodel_from_str(GRAMMAR)
        log = []
        mm.register_scope_providers({"*.*": Scripted(case["table"], log)})
        out = {"log": log}
        try:
            m = mm.model_from_file(os.path.join(d, case["main"]))
            out["outcome"] = "ok"
            models = [m] + [x for x in m._tx_model_repository.all_models if x is not m] if hasattr(m, "_tx_model_repository") else [m]
            slots = {}
            for mod in models:
                fn = os.path.basename(mod._tx_filename)
                for h in mod.holders:
                    for pi, p in enumerate(h.parts):
                        key = "%s/%s/%d" % (fn, h.name, pi)
                        if p.single is not None:
                            slots[key] = p.single.name
                        else:
                            slots[key] = [x.name for x in p.many]
            out["slots"] = slots
        except TextXSemanticError as e:
            msg = str(e)
            if "Unresolvable cross references" in msg:
                import re
                out["outcome"] = "unresolvable"
                out["names"] = re.findall(r'"(r\d+)" of class', msg)
            else:
                out["outcome"] = "semantic:" + str(e.err_type)
                out["msg"] = msg[:200]
        except TextXError as e:
            out["outcome"] = "textx:" + type(e).__name__
            out["msg"] = str(e)[:200]
        except Exception as e:  # noqa
            out["outcome"] = "EXC:" + type(e).__name__
            out["msg"] = str(e)[:200]
        return out
    finally:
        shutil.rmtree(d, ignore_errors=True)


def main():
    payload = json.load(sys.stdin)
    json.dump([run_case(c) for c in payload["cases"]], sys.stdout)


main()
