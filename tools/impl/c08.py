"""Implementation runner for C08/C09: scripted scope provider driven by a table
(per reference: delay = number of initial Postponed answers, deps = references it waits for, never).
Two ways of deciding "the references it waits for have resolved":
  * table mode: the provider's own record of what it has resolved so far;
  * query mode (case["where"] given): the way real providers do it - textx.scoping.tools.needs_to_be_resolved
    on the object/attribute that holds the awaited reference, i.e. ReferenceResolver.has_unresolved_crossrefs of the
    model that owns it (possibly another file)."""
import json
import os
import shutil
import sys
import tempfile

from textx import metamodel_from_str
from textx.exceptions import TextXSemanticError, TextXError
from textx.scoping import Postponed
from textx.scoping.providers import ImportURI
from textx.scoping.tools import needs_to_be_resolved

GRAMMAR = r'''
Model: imports*=Import items*=Item holders*=Holder;
Import: 'import' importURI=STRING;
Item: 'item' name=ID;
Holder: 'holder' name=ID parts*=Part;
Part: 'single' single=[Item] | 'many' many+=[Item][','];
'''
# NB: a Holder has several Parts so that one object can own several list attributes/scalars;
# the list attribute under test is Part.many, the scalar Part.single.


class Scripted(ImportURI):
    def __init__(self, table, log, where=None):
        ImportURI.__init__(self, None)
        self.table = table
        self.log = log
        self.asked = {}
        self.resolved = set()
        self.where = where
        self.models = {}

    def _collect(self, m):
        fn = os.path.basename(m._tx_filename)
        if fn in self.models:
            return
        self.models[fn] = m
        rep = getattr(m, "_tx_model_repository", None)
        if rep is not None:
            for x in rep.all_models:
                self._collect(x)

    def _pending(self, m, d):
        """does the reference d still need to be resolved, as a real provider would ask it"""
        fn, hname, pi, attr = self.where[str(d)]
        if fn not in self.models:
            self._collect(m)
            for x in list(self.models.values()):
                self._collect(x)
        mod = self.models[fn]
        part = [h for h in mod.holders if h.name == hname][0].parts[pi]
        return needs_to_be_resolved(part, attr)

    def __call__(self, obj, attr, obj_ref):
        name = obj_ref.obj_name
        rid = int(name[1:])
        t = self.table[str(rid)]
        k = self.asked.get(rid, 0)
        self.asked[rid] = k + 1
        self.log.append(rid)
        m = obj
        while hasattr(m, "parent"):
            m = m.parent
        if k < t["delay"] or t["never"]:
            return Postponed()
        if self.where is None:
            if not all(d in self.resolved for d in t["deps"]):
                return Postponed()
        elif any(self._pending(m, d) for d in t["deps"]):
            return Postponed()
        for it in m.items:
            if it.name == "t%d" % t["tgt"]:
                self.resolved.add(rid)
                return it
        return None


def run_case(case):
    d = tempfile.mkdtemp(prefix="c08_")
    try:
        for name, text in case["files"].items():
            with open(os.path.join(d, name), "w") as f:
                f.write(text)
        mm = metamodel_from_str(GRAMMAR)
        log = []
        mm.register_scope_providers({"*.*": Scripted(case["table"], log, case.get("where"))})
        out = {"log": log}
        try:
            m = mm.model_from_file(os.path.join(d, case["main"]))
            out["outcome"] = "ok"
            models = [m] + [x for x in m._tx_model_repository.all_models if x is not m] if hasattr(m, "_tx_model_repository") else [m]
            slots = {}
            for mod in models:
                fn = os.path.basename(mod._tx_filename)
                for h in mod.holders:
                    for pi, p in enumerate(h.parts):
                        key = "%s/%s/%d" % (fn, h.name, pi)
                        if p.single is not None:
                            slots[key] = p.single.name
                        else:
                            slots[key] = [x.name for x in p.many]
            out["slots"] = slots
        except TextXSemanticError as e:
            msg = str(e)
            if "Unresolvable cross references" in msg:
                import re
                out["outcome"] = "unresolvable"
                out["names"] = re.findall(r'"(r\d+)" of class', msg)
            else:
                out["outcome"] = "semantic:" + str(e.err_type)
                out["msg"] = msg[:200]
        except TextXError as e:
            out["outcome"] = "textx:" + type(e).__name__
            out["msg"] = str(e)[:200]
        except Exception as e:  # noqa
            out["outcome"] = "EXC:" + type(e).__name__
            out["msg"] = str(e)[:200]
        return out
    finally:
        shutil.rmtree(d, ignore_errors=True)


def main():
    payload = json.load(sys.stdin)
    json.dump([run_case(c) for c in payload["cases"]], sys.stdout)


main()
