"""Implementation runner for C33: same runner as C28 (cases carry a processor specification)."""
import os
import runpy

runpy.run_path(os.path.join(os.path.dirname(os.path.abspath(__file__)), "c28.py"), run_name="__main__")
