"""Implementation runner for C17/C18: histories of loads / file rewrites over generated
directories of model files, for every ImportURI-based provider, with and without a global
repository and builtin models.  Observes through the public API only: builtins.open is
wrapped (file-open counts), glob.glob inside textx.scoping is wrapped to return its result
sorted (the directory order of the host must not leak into outcomes), processors are
registered through the public registration calls.

stdin : {"cases": [case, ...]}     stdout: [outcome, ...]
case  : {"files": [{"path": rel, "versions": [text, ...]}], "provider": kind, "search_path": [rel dirs] | null,
         "recursive": bool, "patterns": [rel patterns] (GlobalRepo kinds), "global_repo": bool,
         "builtins": [text, ...], "ops": [{"op": "load", "file": i} | {"op": "write", "file": i, "version": v}]}
"""
import builtins
import json
import os
import shutil
import sys
import tempfile

import textx.scoping as scoping
import textx.scoping.providers as providers
from textx import get_model, metamodel_from_str
from textx.exceptions import TextXSemanticError, TextXSyntaxError
from textx.scoping import ModelRepository, get_included_models

GRAMMAR = r"""
Model: imports*=Import elements*=Element refs*=Ref;
Import: 'import' importURI=STRING ';';
Element: 'def' name=ID ';';
Ref: 'use' target=[Element%s] ';';
"""
BUILTIN_GRAMMAR = r"""
Model: elements*=Element;
Element: 'def' name=ID ';';
"""


class ProcError(Exception):
    def __init__(self, kind, filename):
        Exception.__init__(self, kind)
        self.kind = kind
        self.filename = filename


_real_glob = scoping.glob.glob


class _SortedGlob:
    """stand-in for the `glob` module inside textx.scoping: real glob, sorted result"""

    def __init__(self):
        self.calls = 0

    def glob(self, pattern, **kw):
        self.calls += 1
        return sorted(_real_glob(pattern, **kw))


def build_metamodel(case, root, global_repo=None):
    kind = case["provider"]
    rrel = kind == "rrel"
    kw = {}
    if case["global_repo"] if global_repo is None else global_repo:
        kw["global_repository"] = True
    if case["builtins"]:
        bmm = metamodel_from_str(BUILTIN_GRAMMAR)
        repo = ModelRepository()
        bmodels = []
        for t in case["builtins"]:
            m = bmm.model_from_str(t)
            repo.add_model(m)
            bmodels.append(m)
        kw["builtin_models"] = repo
    else:
        bmodels = []
    mm = metamodel_from_str(GRAMMAR % ("|ID|+m:elements" if rrel else ""), **kw)
    glob_args = {"recursive": True} if case.get("recursive") else None
    sp = None
    if case.get("search_path") is not None:
        sp = [os.path.join(root, d) for d in case["search_path"]]
    if kind == "plain_uri":
        p = providers.PlainNameImportURI(glob_args=glob_args, search_path=sp)
    elif kind == "fqn_uri":
        p = providers.FQNImportURI(glob_args=glob_args, search_path=sp)
    elif kind == "plain_grepo":
        p = providers.PlainNameGlobalRepo(glob_args=glob_args)
    elif kind == "fqn_grepo":
        p = providers.FQNGlobalRepo(glob_args=glob_args)
    elif kind == "rrel":
        p = None
    else:
        raise ValueError(kind)
    if kind.endswith("grepo"):
        for pat in case["patterns"]:
            p.register_models(os.path.join(root, pat))
    if p is not None:
        mm.register_scope_providers({"*.*": p})

    def elem_proc(e):
        if e.name == "opfail":
            raise ProcError("obj", get_model(e)._tx_filename)

    def model_proc(model, the_mm):
        if any(e.name == "mpfail" for e in model.elements):
            raise ProcError("mp", model._tx_filename)

    mm.register_obj_processors({"Element": elem_proc})
    mm.register_model_processor(model_proc)
    return mm, bmodels


def run_case(case):
    root = os.path.realpath(tempfile.mkdtemp(prefix="c17_"))
    try:
        return run_in(case, root)
    finally:
        import textx
        textx.clear_language_registrations()
        shutil.rmtree(root, ignore_errors=True)


def run_in(case, root):
    paths = []
    for f in case["files"]:
        p = os.path.join(root, f["path"])
        os.makedirs(os.path.dirname(p), exist_ok=True)
        with open(p, "w") as fh:
            fh.write(f["versions"][0])
        paths.append(p)
    for d in case.get("dirs", []):
        os.makedirs(os.path.join(root, d), exist_ok=True)
    idx = {p: i for i, p in enumerate(paths)}

    def fidx(p):
        if p is None:
            return "?"
        if p.startswith("anonymous") and p[9:].isdigit():
            return "a" + p[9:]          # invented repository name of a model loaded from a string
        p = os.path.abspath(p)
        return idx.get(p, "?")

    sg = _SortedGlob()
    scoping.glob = sg
    import textx
    textx.clear_language_registrations()
    langs = case.get("langs")
    if langs:
        # one metamodel per registered language (same grammar text, own provider instance, own global repository)
        mms = []
        for li, lg in enumerate(langs):
            lmm, _ = build_metamodel(case, root, global_repo=lg["global_repo"])
            textx.register_language("c17lang%d" % li, pattern="*" + lg["ext"], metamodel=lmm)
            mms.append(lmm)
        bmodels = []
        mm = None

        def mm_of(path):
            return mms[[i for i, lg in enumerate(langs) if path.endswith(lg["ext"])][0]]
    else:
        mm, bmodels = build_metamodel(case, root)
        mms = [mm]

        def mm_of(path):
            return mm

    # identity tokens: (op of first sighting, file, k)
    tokens = {}
    keep = []          # keeps every tokenised object alive (ids must not be reused)
    per_key = {}

    def tok(m, op):
        if id(m) in tokens:
            return tokens[id(m)]
        if any(m is b for b in bmodels):
            t = "b%d" % [i for i, b in enumerate(bmodels) if b is m][0]
        else:
            f = fidx(getattr(m, "_tx_filename", None))
            k = per_key.get((op, f), 0)
            per_key[(op, f)] = k + 1
            t = ("s@%d" % op if f == "?" else "f%s@%d" % (f, op)) + ("" if k == 0 else "#%d" % k)
        tokens[id(m)] = t
        keep.append(m)
        return t

    reads = []
    real_open = builtins.open

    def counting_open(file, *a, **k):
        if isinstance(file, str) and os.path.abspath(file) in idx:
            reads.append(idx[os.path.abspath(file)])
        return real_open(file, *a, **k)

    def describe(m, op, oracle):
        d = {"tok": tok(m, op), "file": fidx(getattr(m, "_tx_filename", None))}
        repo = getattr(m, "_tx_model_repository", None)
        if d["file"] == "?" and repo is not None:
            reg = [fn for fn, x in repo.all_models.filename_to_model.items() if x is m]
            if reg:
                d["file"] = fidx(reg[0])
        d["local"] = [[fidx(fn), tok(x, op)] for fn, x in repo.local_models.filename_to_model.items()] if repo else []
        tg = []
        for r in m.refs:
            t = r.target
            if t is None or not hasattr(t, "name"):
                tg.append(None)
                continue
            tm = get_model(t)
            pos = [i for i, e in enumerate(tm.elements) if e is t]
            tg.append([tok(tm, op), pos[0] if pos else -1])
            # identity, observed on the objects themselves
            if repo is not None and not any(tm is b for b in bmodels):
                fn = tm._tx_filename
                reg = repo.all_models.filename_to_model.get(os.path.abspath(fn)) if fn else tm
                if reg is not tm and tm is not m:
                    oracle.append("target %s of %s is not the registered model of its file" % (t.name, d["tok"]))
        d["targets"] = tg
        return d

    results_alive = []
    outs = []
    for opi, o in enumerate(case["ops"]):
        if o["op"] == "write":
            with real_open(paths[o["file"]], "w") as fh:
                fh.write(case["files"][o["file"]]["versions"][o["version"]])
            outs.append({"res": "written"})
            continue
        del reads[:]
        oracle = []
        builtins.open = counting_open
        res = None
        try:
            if o["op"] == "loadstr":
                m = mm.model_from_str(case["strs"][o["str"]][o["version"]])
            else:
                mm = mm_of(paths[o["file"]])
                m = mm.model_from_file(paths[o["file"]])
            res = "ok"
        except TextXSyntaxError as e:
            res = "err:syntax:%s" % fidx(e.filename)
        except TextXSemanticError as e:
            res = "err:unresolved:%s" % fidx(e.filename)
        except ProcError as e:
            res = "err:%s:%s" % (e.kind, fidx(e.filename))
        except OSError as e:
            res = "err:nofile"
        except Exception as e:  # noqa
            res = "EXC:%s:%s" % (type(e).__name__, str(e)[:200])
        finally:
            builtins.open = real_open
        out = {"res": res, "reads": list(reads)}
        if res == "ok":
            results_alive.append(m)
            out["main"] = tok(m, opi)
            out["models"] = [describe(x, opi, oracle) for x in get_included_models(m)]
            repo = getattr(m, "_tx_model_repository", None)
            out["all"] = [[fidx(fn), tok(x, opi)] for fn, x in repo.all_models.filename_to_model.items()] if repo else []
        if langs:
            out["grepos"] = [[[fidx(fn), tok(x, opi)] for fn, x in lm._tx_model_repository.all_models.filename_to_model.items()]
                             if hasattr(lm, "_tx_model_repository") else None for lm in mms]
        if hasattr(mm, "_tx_model_repository"):
            am = mm._tx_model_repository.all_models.filename_to_model
            out["grepo"] = [[fidx(fn), tok(x, opi)] for fn, x in am.items()]
            if res != "ok":
                # what is still cached is observable: describe it
                out["models"] = [describe(x, opi, oracle) for x in am.values()]
        else:
            out["grepo"] = None
        out["oracle"] = oracle
        outs.append(out)
    # import expansions as the loader sees them (sorted glob / search path), per file version
    exp = []
    kind = case["provider"]
    for i, f in enumerate(case["files"]):
        per_version = []
        for v, imports in enumerate(f["imports"]):
            stmts = []
            if kind.endswith("grepo"):
                uris = [os.path.join(root, pat) for pat in case["patterns"]]
                for u in uris:
                    stmts.append([fidx(x) for x in sorted(_real_glob(u, recursive=bool(case.get("recursive"))))])
            else:
                for u in imports:
                    if case.get("search_path") is not None:
                        hit = []
                        for d in [os.path.dirname(paths[i])] + [os.path.join(root, d) for d in case["search_path"]]:
                            if os.path.exists(os.path.join(d, u)):
                                hit = [fidx(os.path.join(d, u))]
                                break
                        stmts.append(hit)
                    else:
                        pat = os.path.abspath(os.path.join(os.path.dirname(paths[i]), u))
                        stmts.append([fidx(x) for x in sorted(_real_glob(pat, recursive=bool(case.get("recursive"))))])
            per_version.append(stmts)
        exp.append(per_version)
    return {"ops": outs, "expansions": exp}


def main():
    payload = json.load(sys.stdin)
    json.dump([run_case(c) for c in payload["cases"]], sys.stdout)


main()
