"""Implementation runner for C20 / C21 (run with PYTHONPATH=$TEXTX_REPO).

stdin: {"mode": "c20", "cases": [{"grammar", "opts", "inputs": [...], "masks": [int...], "all_upto": k, "max_variants": n}]}
   per case: a case-sensitive twin of the grammar is built first (same process), then the metamodel is built
   through the public API with the given options (ignore_case=True for C20), its parser model dumped; per input the oracle table, the Arpeggio-level outcome, the textX-level
   model; for accepted inputs the positions of cased letters matched by literal terminals of the grammar
   (StrMatch / RegExMatch nodes that are not textX built-in base types) and, for subsets of those
   positions chosen by the masks (all subsets when there are at most `all_upto` positions), the
   case-swapped variant with its table / outcome / model.
stdin: {"mode": "c21", "cases": [{"grammar", "opts", "inputs": [...]}]}
   per case: two metamodels, autokwd=False / True, both dumps; per input both tables, outcomes, models.
stdin: {"mode": "kwlike", "literals": [...]}
   per literal: kind of the terminal textX builds for `Model: <literal>;` with autokwd=True.
stdout: JSON list.
"""
import json
import os
import re
import signal
import sys

sys.path.insert(0, os.path.dirname(os.path.dirname(os.path.abspath(__file__))))
import pegdump  # noqa: E402
import mmdump  # noqa: E402
import importlib.util  # noqa: E402

_spec = importlib.util.spec_from_file_location("impl_c01", os.path.join(os.path.dirname(os.path.abspath(__file__)), "c01.py"))
impl_c01 = importlib.util.module_from_spec(_spec)       # the C01/C06 runner's model dump (read only)
_spec.loader.exec_module(impl_c01)

import arpeggio as A  # noqa: E402
from textx import metamodel_from_str  # noqa: E402
from textx import lang as txlang  # noqa: E402
from textx.exceptions import TextXError, TextXSyntaxError  # noqa: E402


class Timeout(BaseException):
    pass


def _alarm(signum, frame):
    raise Timeout()


def canon_model(o, depth=0):
    if depth > 60:
        return "<deep>"
    if isinstance(o, list):
        return [canon_model(x, depth + 1) for x in o]
    if isinstance(o, bool):
        return {"b": o}
    if isinstance(o, str):
        return {"s": o}
    if isinstance(o, (int, float)):
        return {"n": repr(o)}
    if o is None:
        return None
    cls = type(o)
    attrs = getattr(cls, "_tx_attrs", None)
    if attrs is not None:
        return {"cls": cls.__name__, "pos": getattr(o, "_tx_position", None), "end": getattr(o, "_tx_position_end", None),
                "attrs": [[name, canon_model(getattr(o, name, "<missing>"), depth + 1)] for name in attrs]}
    return {"other": type(o).__name__}


def load(mm, text):
    try:
        m = mm.model_from_str(text)
    except TextXSyntaxError as e:
        c = e.__cause__
        return {"ok": False, "err": "syntax", "pos": getattr(c, "position", None)}
    except TextXError as e:
        return {"ok": False, "err": type(e).__name__, "pos": None}
    except Timeout:
        raise
    except RecursionError:
        return {"ok": False, "err": "crash:RecursionError", "pos": None}
    except Exception as e:
        return {"ok": False, "err": "crash:" + type(e).__name__, "pos": None}
    return {"ok": True, "model": canon_model(m)}


BUILTINS = list(txlang.BASE_TYPE_RULES.values())


def is_builtin(obj):
    return any(obj is b for b in BUILTINS)


def annotate(d):
    """dump json + per node: builtin flag (identity with a textX base type rule)"""
    j = d.to_json()
    j["builtin"] = [is_builtin(o) for o in d.objs]
    return j


def swappable(c):
    s = c.swapcase()
    return len(s) == 1 and s != c and s.swapcase() == c and len(c.lower()) == 1 and len(s.lower()) == 1 and c.lower() == s.lower()


def literal_positions(d, parser, text):
    """(positions of cased letters inside terminals of literal nodes, all terminal values consistent?)"""
    tree = parser.parse_tree
    pos, values_ok = [], True

    def walk(n):
        nonlocal values_ok
        if isinstance(n, A.NonTerminal):
            for c in n:
                walk(c)
            return
        if isinstance(n, A.Terminal):
            r = n.rule
            if isinstance(r, A.EndOfFile):
                return
            if type(r) is A.RegExMatch:
                if n.value != text[n.position:n.position + len(n.value)]:
                    values_ok = False
            elif type(r) is A.StrMatch:
                if n.value != r.to_match:
                    values_ok = False
            if not is_builtin(r):
                for i in range(n.position, n.position + len(n.value)):
                    if i < len(text) and swappable(text[i]):
                        pos.append(i)
    walk(tree)
    return sorted(set(pos)), values_ok


def run_one(d, mm, text, mi=None):
    run = {"table": d.oracle_table(text)}
    p = mm._parser_blueprint.clone()
    run["tree"] = pegdump.parse_outcome(d, p, text)
    run["model"] = load(mm, text)
    if mi is not None:
        # for the model-level composition with Model/Build.v: group spans and the model in the C01/C06 dump format
        run["gtable"] = mmdump.group_table(d, mi, text)
        try:
            run["model01"] = impl_c01.load(lambda: mm.model_from_str(text))
        except impl_c01.Timeout:
            raise Timeout()
    return run, p


def mm_info(mm, d):
    try:
        return mmdump.dump_mm(mm, d)
    except pegdump.Unsupported:
        return None


def do_c20(case):
    res = {"grammar_error": None, "dump": None, "runs": []}
    try:
        signal.setitimer(signal.ITIMER_REAL, 10, 1)
        # process history must not matter: a case-sensitive twin of the same grammar is built first in this
        # process (anything shared between meta-models - caches, module-level terminals - would leak its flags)
        twin = dict(case.get("opts", {}))
        twin["ignore_case"] = False
        try:
            mm_twin = metamodel_from_str(case["grammar"], **twin)
            for text in case["inputs"][:1]:
                load(mm_twin, text)
        except Timeout:
            raise
        except Exception:
            pass
        mm = metamodel_from_str(case["grammar"], **case.get("opts", {}))
        d = pegdump.dump_metamodel(mm)
        signal.setitimer(signal.ITIMER_REAL, 0)
    except Timeout:
        res["grammar_error"] = "Timeout"
        return res
    except pegdump.Unsupported as e:
        signal.setitimer(signal.ITIMER_REAL, 0)
        res["grammar_error"] = "Unsupported: %s" % e
        return res
    except Exception as e:
        signal.setitimer(signal.ITIMER_REAL, 0)
        res["grammar_error"] = "%s" % type(e).__name__
        return res
    res["dump"] = annotate(d)
    mi = mm_info(mm, d)
    res["mm"], res["auto"], res["use_grp"] = mi, bool(mm.auto_init_attributes), bool(mm.use_regexp_group)
    masks = case.get("masks", [])
    for text in case["inputs"]:
        try:
            signal.setitimer(signal.ITIMER_REAL, 20, 1)
            run, p = run_one(d, mm, text, mi)
            run["variants"] = []
            if run["tree"].startswith("P:"):
                L, vok = literal_positions(d, p, text)
                run["lit_pos"], run["values_ok"] = L, vok
                n = len(L)
                subsets = []
                if n:
                    if n <= case.get("all_upto", 3):
                        subsets = list(range(1, 2 ** n))
                    else:
                        subsets = [2 ** n - 1] + [2 ** i for i in range(n)] + [1 + (m % (2 ** n - 1)) for m in masks]
                seen = set()
                for m in subsets:
                    if m in seen or len(seen) >= case.get("max_variants", 12):
                        continue
                    seen.add(m)
                    cs = list(text)
                    for i, q in enumerate(L):
                        if m >> i & 1:
                            cs[q] = cs[q].swapcase()
                    t2 = "".join(cs)
                    v, _ = run_one(d, mm, t2, mi)
                    v["input"] = t2
                    run["variants"].append(v)
            signal.setitimer(signal.ITIMER_REAL, 0)
        except Timeout:
            run = {"timeout": True}
        except pegdump.Unsupported as e:
            signal.setitimer(signal.ITIMER_REAL, 0)
            run = {"unsupported": str(e)}
        res["runs"].append(run)
    return res


KW_RE = re.compile(r"[^\d\W]\w*")
WORD_RE = re.compile(r"\w")


def kw_like(t):
    m = KW_RE.match(t)
    return bool(m and m.span() == (0, len(t)))


def walk_model(root):
    """all parsing expressions reachable from root (generic: works for node classes pegdump refuses)"""
    seen, todo, out = set(), [root], []
    while todo:
        n = todo.pop()
        if n is None or id(n) in seen:
            continue
        seen.add(id(n))
        out.append(n)
        todo.extend(list(getattr(n, "nodes", None) or []))
        todo.append(getattr(n, "sep", None))
    return out


def keyword_literals(mm_plain):
    """keyword-like string literals of the grammar = StrMatch texts of the parser model built WITHOUT autokwd"""
    p = mm_plain._parser_blueprint
    nodes = walk_model(p.parser_model) + (walk_model(p.comments_model) if getattr(p, "comments_model", None) is not None else [])
    return sorted({n.to_match for n in nodes if isinstance(n, A.StrMatch) and isinstance(n.to_match, str) and kw_like(n.to_match)})


def glued_keyword_matches(parser, text, kws):
    """terminals of the parse tree that come from a keyword-like grammar literal (a StrMatch, or a regex built
    FROM a literal: its regex source differs from its display text) and are immediately followed by a word
    character (Python re \\w).  Needs only the Arpeggio parse tree, not the dump."""
    out = []
    kws = set(kws)

    def walk(n):
        if isinstance(n, A.NonTerminal):
            for c in n:
                walk(c)
        elif isinstance(n, A.Terminal):
            r = n.rule
            lit = getattr(r, "to_match", None)
            if isinstance(r, A.EndOfFile) or is_builtin(r) or not isinstance(lit, str):
                return
            if isinstance(r, A.RegExMatch) and getattr(r, "to_match_regex", None) == lit:
                return            # a user regex, not a literal
            if lit.lower() in {k.lower() for k in kws} if getattr(r, "ignore_case", False) else lit in kws:
                e = n.position + len(n.value)
                if e < len(text) and WORD_RE.match(text[e]):
                    out.append([lit, n.position, text[e]])
    tree = getattr(parser, "parse_tree", None)
    if tree is not None:
        walk(tree)
    return out


def run_light(mm, text, kws):
    """outcome without a dump: model_from_str result + glued keyword terminals of the parse"""
    p = mm._parser_blueprint.clone()
    glued = None
    try:
        p.parse(text)
        glued = glued_keyword_matches(p, text, kws)
    except Timeout:
        raise
    except Exception:
        pass
    return {"model": load(mm, text), "glued": glued}


def do_c21(case):
    res = {"grammar_error": None, "dump_plain": None, "dump_kw": None, "dump_error": None, "runs": [], "keywords": []}
    opts = dict(case.get("opts", {}))
    opts.pop("autokwd", None)
    try:
        signal.setitimer(signal.ITIMER_REAL, 10, 1)
        mm0 = metamodel_from_str(case["grammar"], autokwd=False, **opts)
        mm1 = metamodel_from_str(case["grammar"], autokwd=True, **opts)
        kws = keyword_literals(mm0)
        res["keywords"] = kws
        signal.setitimer(signal.ITIMER_REAL, 0)
    except Timeout:
        res["grammar_error"] = "Timeout"
        return res
    except Exception as e:
        signal.setitimer(signal.ITIMER_REAL, 0)
        res["grammar_error"] = "%s" % type(e).__name__
        return res
    d0 = d1 = None
    try:
        d0 = pegdump.dump_metamodel(mm0)
        d1 = pegdump.dump_metamodel(mm1)
        res["dump_plain"], res["dump_kw"] = annotate(d0), annotate(d1)
        res["mm_plain"], res["mm_kw"] = mm_info(mm0, d0), mm_info(mm1, d1)
        res["auto"], res["use_grp"] = bool(mm1.auto_init_attributes), bool(mm1.use_regexp_group)
    except pegdump.Unsupported as e:
        # the tie to the model is lost for this grammar; the property is still observed on the implementation
        res["dump_error"] = "Unsupported: %s" % e
        d0 = d1 = None
    for text in case["inputs"]:
        try:
            signal.setitimer(signal.ITIMER_REAL, 10, 1)
            if d0 is not None:
                r0, p0 = run_one(d0, mm0, text, res.get("mm_plain"))
                r1, p1 = run_one(d1, mm1, text, res.get("mm_kw"))
                r1["glued"] = glued_keyword_matches(p1, text, kws)
            else:
                r0, r1 = run_light(mm0, text, kws), run_light(mm1, text, kws)
            signal.setitimer(signal.ITIMER_REAL, 0)
            run = {"plain": r0, "kw": r1}
        except Timeout:
            run = {"timeout": True}
        except pegdump.Unsupported as e:
            signal.setitimer(signal.ITIMER_REAL, 0)
            run = {"unsupported": str(e)}
        res["runs"].append(run)
    return res


def quote(t):
    return "'" + t.replace("\\", "\\\\").replace("'", "\\'").replace("\n", "\\n").replace("\t", "\\t") + "'"


def do_kwlike(lits, opts):
    out = []
    for t in lits:
        try:
            mm = metamodel_from_str("Model: %s;\n" % quote(t), autokwd=True, **opts)
            d = pegdump.dump_metamodel(mm)
            ns = [n for n in d.nodes if n["kind"] in ("KStr", "KRegex")]
            if len(ns) != 1:
                out.append({"err": "expected one terminal, got %d" % len(ns)})
                continue
            n = ns[0]
            o = d.oracles[n["oid"]] if n["oid"] is not None else None
            out.append({"kind": n["kind"], "text": n["text"], "oracle": o})
        except Exception as e:
            out.append({"err": type(e).__name__})
    return out


def main():
    payload = json.load(sys.stdin)
    signal.signal(signal.SIGALRM, _alarm)
    sys.setrecursionlimit(3000)
    mode = payload.get("mode")
    if mode == "kwlike":
        json.dump(do_kwlike(payload["literals"], payload.get("opts", {})), sys.stdout)
        return
    out = []
    for case in payload["cases"]:
        out.append(do_c20(case) if mode == "c20" else do_c21(case))
    json.dump(out, sys.stdout)


if __name__ == "__main__":
    main()
