"""Implementation runner for C23 (PYTHONPATH=$TEXTX_REPO).

Per case (a grammar text + metamodel keyword arguments):
  * calls the public `metamodel_from_str` and records the outcome (exception type with its MRO,
    message, line/col, innermost frame);
  * parses the same text with the grammar-language parser that language_from_str builds
    (ParserPython(textx_model, comment_def=comment, reduce_tree=False)) and turns the parse tree
    into the abstract syntax of coq/Model/Front.v (walking by rule names; anything unexpected
    raises, which the check treats as a machinery failure);
  * evaluates the oracles the model takes as parameters on exactly the texts that occur:
    RegExMatch(...).compile(), the `try` body of visit_str_match, metamodel_for_language(l)[name].
"""
import json
import sys
import traceback

from arpeggio import NoMatch, NonTerminal, ParserPython, RegExMatch
import textx.lang as lang
from textx import metamodel_from_str, LanguageDesc, register_language
from textx.exceptions import TextXError
from textx.metamodel import TextXMetaMetaModel
from textx.registration import metamodel_for_language

_parser = None


def grammar_parser():
    global _parser
    if _parser is None:
        _parser = ParserPython(lang.textx_model, comment_def=lang.comment, ignore_case=False, reduce_tree=False)
    return _parser


class Shape(Exception):
    pass


def kids(n, keep_suppressed=False):
    return [c for c in n if keep_suppressed or not getattr(c, "suppress", False)]


def need(c, msg):
    if not c:
        raise Shape(msg)


def x_smatch(n):
    """simple_match / str_match / re_match node -> {"k": "str"|"re", "s": text between the delimiters}"""
    if n.rule_name == "simple_match":
        need(isinstance(n, NonTerminal) and len(n) == 1, "simple_match arity")
        n = n[0]
    if n.rule_name == "str_match":
        need(isinstance(n, NonTerminal) and len(n) == 1, "str_match arity")
        v = n[0].value
        need(len(v) >= 2 and v[0] in "'\"" and v[-1] == v[0], "string_value text")
        return {"k": "str", "s": v[1:-1]}
    need(n.rule_name == "re_match" and not isinstance(n, NonTerminal), "simple_match alternative " + n.rule_name)
    v = n.value
    need(len(v) >= 2 and v[0] == "/" and v[-1] == "/", "re_match text")
    need(n.extra_info.group(1) == v[1:-1], "re_match group")
    return {"k": "re", "s": v[1:-1]}


def x_mods(n):
    need(n.rule_name == "repeat_modifiers", "repeat_modifiers expected")
    out = []
    for c in kids(n):
        if c.rule_name == "simple_match":
            out.append(x_smatch(c))
        else:
            need(c.value == "eolterm", "modifier " + repr(c.value))
            out.append({"k": "eol"})
    need(out, "empty modifiers")
    return out


def x_objref(n):
    cs = kids(n)
    need(cs and cs[0].rule_name == "class_name", "obj_ref class_name")
    r = {"k": "obj", "cls": cs[0].value, "rule": None, "rrel": False}
    if len(cs) > 1:
        need(cs[1].value in (":", "|") and cs[2].rule_name == "obj_ref_rule", "obj_ref separator/rule")
        r["rule"] = cs[2].value
        if len(cs) > 3:
            need(len(cs) == 4 and cs[3].rule_name == "rrel_expression", "obj_ref rrel")
            r["rrel"] = True
    return r


def x_rhs(n):
    cs = kids(n)
    need(1 <= len(cs) <= 2, "assignment_rhs arity")
    a = cs[0]
    if a.rule_name == "simple_match":
        rhs = x_smatch(a)
    else:
        need(a.rule_name == "reference" and len(a) == 1, "assignment_rhs alternative")
        b = a[0]
        if b.rule_name == "rule_ref":
            rhs = {"k": "rule", "name": b.value}
        else:
            need(b.rule_name == "obj_ref", "reference alternative")
            rhs = x_objref(b)
    mods = x_mods(cs[1]) if len(cs) > 1 else None
    return rhs, mods


def x_expression(n):
    need(n.rule_name == "expression", "expression expected, got " + n.rule_name)
    cs = kids(n)
    if len(cs) == 1 and cs[0].rule_name == "assignment":
        a = kids(cs[0])
        need(len(a) == 3 and a[0].rule_name == "attribute" and a[1].rule_name == "assignment_op", "assignment shape")
        op = a[1].value
        need(op in ("=", "*=", "+=", "?="), "assignment op")
        rhs, mods = x_rhs(a[2])
        return {"k": "asg", "attr": a[0].value, "op": op, "rhs": rhs, "mods": mods}
    pred = None
    if len(cs) == 2:
        need(cs[0].rule_name == "syntactic_predicate", "predicate expected")
        pred = cs[0].value
        need(pred in ("!", "&"), "predicate text")
        cs = cs[1:]
    need(len(cs) == 1, "expression arity")
    b = cs[0]
    if b.rule_name == "simple_match":
        m = x_smatch(b)
        return {"k": m["k"], "pred": pred, "s": m["s"]}
    if b.rule_name == "rule_ref":
        return {"k": "ref", "pred": pred, "name": b.value}
    need(b.rule_name == "bracketed_choice", "expression alternative " + b.rule_name)
    inner = kids(b)
    need(len(inner) == 1, "bracketed_choice arity")
    return {"k": "grp", "pred": pred, "c": x_choice(inner[0])}


def x_rexpr(n):
    need(n.rule_name == "repeatable_expr", "repeatable_expr expected")
    cs = kids(n)
    e = x_expression(cs[0])
    rep, sup = None, False
    for c in cs[1:]:
        if c.rule_name == "repeat_operator":
            need(rep is None, "two repeat operators")
            ro = kids(c)
            need(ro[0].value in ("*", "?", "+", "#"), "repeat op")
            rep = {"op": ro[0].value, "mods": x_mods(ro[1]) if len(ro) > 1 else None}
        else:
            need(c.value == "-" and not sup, "suppress marker")
            sup = True
    return {"e": e, "rep": rep, "sup": sup}


def x_choice(n):
    need(n.rule_name in ("choice", "textx_rule_body"), "choice expected, got " + n.rule_name)
    out = []
    for s in kids(n):
        need(s.rule_name == "sequence", "sequence expected")
        out.append([x_rexpr(r) for r in kids(s)])
    need(out, "empty choice")
    return out


def x_rule(n):
    cs = kids(n)
    need(cs[0].rule_name == "rule_name", "rule_name first")
    params = None
    i = 1
    if cs[i].rule_name == "rule_params":
        params = []
        for p in kids(cs[i]):
            need(p.rule_name == "rule_param", "rule_param expected")
            pk = kids(p)
            need(pk[0].rule_name == "param_name", "param_name")
            val = None
            if len(pk) > 1:
                need(len(pk) == 2 and pk[1].rule_name == "string_value", "param value")
                val = pk[1].value[1:-1]
            params.append([pk[0].value, val])
        i += 1
    need(len(cs) == i + 1 and cs[i].rule_name == "textx_rule_body", "rule body")
    return {"name": cs[0].value, "params": params, "body": x_choice(cs[i])}


def x_tree(t):
    need(t.rule_name == "textx_model", "textx_model root")
    stmts, rules = [], []
    for c in kids(t):
        if c.rule_name == "import_or_reference_stm":
            need(len(c) == 1, "import_or_reference arity")
            s = c[0]
            if s.rule_name == "import_stm":
                stmts.append({"k": "import"})
            else:
                need(s.rule_name == "reference_stm", "statement kind")
                sk = kids(s)
                need(sk[0].rule_name == "language_name", "language_name")
                alias = None
                if len(sk) > 1:
                    need(sk[1].rule_name == "language_alias", "language_alias")
                    alias = kids(sk[1])[0].value
                stmts.append({"k": "reference", "lang": sk[0].value, "alias": alias})
        elif c.rule_name == "textx_rule":
            rules.append(x_rule(c))
        else:
            need(c.rule_name == "EOF", "top-level node " + c.rule_name)
    need(rules, "no rules")
    return {"stmts": stmts, "rules": rules}


# ------------------------------------------------------------------ oracles
def walk_matches(ast, out_s, out_r, out_c):
    def sm(m):
        (out_s if m["k"] == "str" else out_r).add(m["s"])

    def mods(ms):
        for m in ms or []:
            if m["k"] != "eol":
                sm(m)

    def ex(e):
        if e["k"] == "asg":
            if e["rhs"]["k"] in ("str", "re"):
                sm(e["rhs"])
            elif e["rhs"]["k"] == "obj":
                out_c.add(e["rhs"]["cls"])
                if e["rhs"]["rule"]:
                    out_c.add(e["rhs"]["rule"])
            elif e["rhs"]["k"] == "rule":
                out_c.add(e["rhs"]["name"])       # rule references may be fully qualified names too
            mods(e["mods"])
        elif e["k"] in ("str", "re"):
            sm(e)
        elif e["k"] == "ref":
            out_c.add(e["name"])
        elif e["k"] == "grp":
            ch(e["c"])

    def ch(c):
        for s in c:
            for r in s:
                ex(r["e"])
                if r["rep"]:
                    mods(r["rep"]["mods"])
    for ru in ast["rules"]:
        ch(ru["body"])


def exc_info(e):
    """the TYPE of an exception as the model sees it: class name + names of the classes in its MRO"""
    return {"name": type(e).__name__, "mro": [c.__name__ for c in type(e).__mro__ if c is not object]}


def o_regex(s, ignore_case):
    try:
        RegExMatch(s, ignore_case=ignore_case).compile()
        return None
    except BaseException as e:      # noqa: BLE001 - the type is the oracle's answer
        return exc_info(e)


def o_decode(s):
    """the try body of visit_str_match on the text between the quotes"""
    try:
        to_match = ("'" + s + "'")[1:-1]
        if "\\" in to_match:
            lang.decode_escapes(to_match)
        return None
    except BaseException as e:      # noqa: BLE001
        return exc_info(e)


def o_ext(language, name):
    try:
        mm = metamodel_for_language(language)
    except BaseException as e:      # noqa: BLE001
        return {"k": "raises", "exc": exc_info(e)}
    if isinstance(mm, TextXMetaMetaModel):
        try:
            mm.metamodel[name]
            return {"k": "builtin", "found": True}
        except KeyError:
            return {"k": "builtin", "found": False}
    try:
        mm[name]
        return {"k": "found"}
    except KeyError:
        return {"k": "missing"}
    except BaseException as e:      # noqa: BLE001
        return {"k": "other", "exc": exc_info(e)}


def user_class(name):
    def __init__(self, parent=None, **kwargs):
        for k, v in kwargs.items():
            setattr(self, k, v)
    return type(str(name), (), {"__init__": __init__})


def run_case(case):
    text = case["text"]
    kwargs = dict(case.get("kwargs") or {})
    if case.get("user"):
        kwargs["classes"] = [user_class(n) for n in case["user"]]
    res = {}
    try:
        mm = metamodel_from_str(text, **kwargs)
        res["impl"] = {"cls": "OK"}
        # cls._tx_type of the classes of the grammar's namespace, in namespace order (read like tools/impl/c03.py does)
        try:
            res["kinds"] = [[n, c._tx_type] for n, c in mm.namespaces[None].items()]
        except BaseException as e:      # noqa: BLE001
            res["kinds_error"] = type(e).__name__
    except BaseException as e:      # noqa: BLE001 - the property is about every exception type
        tb = traceback.extract_tb(e.__traceback__)
        where = "%s:%d" % (tb[-1].filename.replace("\\", "/").split("/")[-1], tb[-1].lineno) if tb else "?"
        try:
            msg = str(e)
        except BaseException as e2:
            msg = None
        res["impl"] = {"cls": type(e).__name__, "tx": isinstance(e, TextXError),
                       "mro": [c.__name__ for c in type(e).__mro__], "msg": msg,
                       "message_attr": getattr(e, "message", None) if isinstance(e, TextXError) else None,
                       "cause": type(e.__cause__).__name__ if e.__cause__ is not None else None,
                       "line": getattr(e, "line", None), "col": getattr(e, "col", None), "where": where}
        del tb
    try:
        tree = grammar_parser().parse(text)
    except BaseException as e:      # noqa: BLE001  NoMatch, or e.g. RecursionError of the recursive-descent parser
        res["parse_exc"] = exc_info(e)
        return res
    try:
        ast = x_tree(tree)
        ss, rs, cs = set(), set(), set()
        walk_matches(ast, ss, rs, cs)
        ic = bool(kwargs.get("ignore_case", False))
        langs = {}
        for st in ast["stmts"]:
            if st["k"] == "reference":
                langs[st["alias"] or st["lang"]] = st["lang"]
        ext = []
        for cn in sorted(cs):
            if "." in cn:
                ns, nm = cn.rsplit(".", 1)
                if ns in langs:
                    ext.append([langs[ns], nm, o_ext(langs[ns], nm)])
        res["oracle"] = {"re": [[s, o_regex(s, ic)] for s in sorted(rs)],
                         "dec": [[s, o_decode(s)] for s in sorted(ss)], "ext": ext}
        res["ast"] = ast
    except Shape as e:
        res["ast_error"] = "Shape: " + str(e)
    except BaseException as e:      # noqa: BLE001
        res["ast_error"] = "extractor: " + type(e).__name__
    return res


def main():
    payload = json.load(sys.stdin)
    mm0 = metamodel_from_str("Model: things+=Thing; Thing: 'thing' name=ID;")
    register_language(LanguageDesc("c23lang", pattern="*.c23lang", metamodel=mm0))
    json.dump([run_case(c) for c in payload["cases"]], sys.stdout)


main()
