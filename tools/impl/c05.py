"""Implementation runner for C05: load generated models with the real textX, dump the object
graph (by an independent walk over `_tx_attrs`) and the answers of the navigation API
(obj.parent, get_model, get_parent_of_type, get_children, get_children_of_type)."""
import json
import signal
import sys

sys.setrecursionlimit(3000)

from textx import metamodel_from_str, get_model, get_children, get_children_of_type  # noqa: E402
from textx import get_parent_of_type  # noqa: E402
from textx.const import MULT_ONEORMORE, MULT_ZEROORMORE  # noqa: E402

PRIM_KIND = {str: 0, int: 1, float: 2, bool: 3}


def make_user_class(name, style):
    """User classes whose Python-level protocol differs from the generic textX classes:
    truthiness (__len__/__bool__), equality and hashing must not influence navigation."""
    def __init__(self, **kwargs):
        for k, v in kwargs.items():
            setattr(self, k, v)
    d = {"__init__": __init__}
    if style == "init_parent":
        # the documented shape: the constructor takes `parent` and stores it itself
        def __init__(self, parent=None, **kwargs):  # noqa: F811
            self.parent = parent
            for k, v in kwargs.items():
                setattr(self, k, v)
        d = {"__init__": __init__}
    if style == "eq_all":
        # a user class whose __eq__ makes all instances equal (get_children must use identity)
        d["__eq__"] = lambda self, other: isinstance(other, type(self))
        d["__hash__"] = lambda self: 7
    if style == "eq_none":
        # never equal to anything, not even to itself
        d["__eq__"] = lambda self, other: False
        d["__hash__"] = lambda self: 11
    if style == "unhashable":
        # defines __eq__ without __hash__: instances cannot be put into sets or used as dict keys
        d["__eq__"] = lambda self, other: self is other
        d["__hash__"] = None
    if style == "len0":
        # container-like class whose instances are always empty, hence falsy
        d["__len__"] = lambda self: 0
    if style == "bool_off":
        # flag-like class whose instances are falsy
        d["__bool__"] = lambda self: False
    if style == "len_kids":
        # container-like class: as long as its first list-valued attribute (falsy when that is empty)
        def __len__(self):
            for v in self.__dict__.values():
                if isinstance(v, list):
                    return len(v)
            return 0
        d["__len__"] = __len__
    return type(name, (object,), d)


def is_model_obj(x):
    return hasattr(type(x), "_tx_attrs")


def dump(root):
    """Independent walk: pre-order numbering over containment slots, then the tree with
    references as numbers.  Returns (tree, objects in id order, problems)."""
    idmap, objs, problems = {}, [], []

    def number(o):
        if id(o) in idmap:
            problems.append("object %d is reached twice through containment" % idmap[id(o)])
            return
        idmap[id(o)] = len(objs)
        objs.append(o)
        for name, attr in type(o)._tx_attrs.items():
            if not attr.cont:
                continue
            v = getattr(o, name)
            vals = v if isinstance(v, list) else ([] if v is None else [v])
            for x in vals:
                if is_model_obj(x):
                    number(x)
    number(root)
    emitted = set()

    def val(x, cont):
        if is_model_obj(x):
            if cont and id(x) in idmap and id(x) not in emitted:
                return node(x)
            return {"ref": idmap.get(id(x), 999999)}
        return {"prim": PRIM_KIND.get(type(x), 9), "text": repr(x)[:12]}

    def node(o):
        emitted.add(id(o))
        slots = []
        for name, attr in type(o)._tx_attrs.items():
            many = attr.mult in (MULT_ZEROORMORE, MULT_ONEORMORE)
            v = getattr(o, name)
            if many and not isinstance(v, list):
                problems.append("multi-valued attribute %s of object %d holds %s" % (name, idmap[id(o)], type(v).__name__))
                v = []
            if many:
                vals = list(v)
            else:
                vals = [] if v is None else [v]
            slots.append({"name": name, "cont": bool(attr.cont), "many": many,
                          "vals": [val(x, attr.cont) for x in vals]})
        return {"id": idmap[id(o)], "cls": type(o).__name__, "slots": slots}
    return node(root), objs, idmap, problems


def mk_pred(p, prim, idmap):
    k = p["k"]

    def f(o):
        if not is_model_obj(o):
            return prim
        if k == "true":
            return True
        if k == "false":
            return False
        if k == "cls":
            return type(o).__name__ in p["names"]
        if k == "notcls":
            return type(o).__name__ not in p["names"]
        if k == "idmod":
            return idmap[id(o)] % p["m"] != p["r"]
        raise ValueError(k)
    return f


def show(x, idmap):
    if x is None:
        return "N"
    return str(idmap[id(x)]) if id(x) in idmap and is_model_obj(x) else "?"


def guarded(f):
    try:
        return f()
    except RecursionError:
        return "E:RecursionError"
    except Exception as e:  # noqa: BLE001
        return "E:" + type(e).__name__


def parent_chain_ends(o, bound):
    p = o
    for _ in range(bound):
        if not hasattr(p, "parent"):
            return True
        p = p.parent
    return False


class CaseTimeout(BaseException):
    pass


def on_alarm(signum, frame):
    raise CaseTimeout()


def run_case(case):
    """One case under an alarm: a loop that never ends (e.g. get_model over a cyclic `parent`
    reference chain inside textX itself) is reported as an outcome instead of hanging the run."""
    signal.signal(signal.SIGALRM, on_alarm)
    signal.alarm(int(case.get("time_limit", 90)))
    try:
        return run_case_inner(case)
    except CaseTimeout:
        return {"load_error": "Timeout: the call did not return"}
    finally:
        signal.alarm(0)


def run_case_inner(case):
    classes = [make_user_class(n, s) for n, s in case.get("user", {}).items()]
    try:
        mm = metamodel_from_str(case["grammar"], classes=classes)
    except RecursionError:
        return {"mm_error": "RecursionError"}
    except Exception as e:  # noqa: BLE001
        return {"mm_error": type(e).__name__ + ": " + str(e)[:200]}
    try:
        model = mm.model_from_str(case["text"])
    except RecursionError:
        return {"load_error": "RecursionError"}
    except Exception as e:  # noqa: BLE001
        return {"load_error": type(e).__name__ + ": " + str(e)[:200]}
    tree, objs, idmap, problems = dump(model)
    n = len(objs)
    out = {"tree": tree, "problems": problems}
    parents = []
    for o in objs:
        if not hasattr(o, "parent"):
            parents.append("-")
        else:
            parents.append(show(o.parent, idmap) if o.parent is not None else "?")
    out["parents"] = parents
    ends = [parent_chain_ends(o, n + 3) for o in objs]
    out["get_model"] = [guarded(lambda o=o: show(get_model(o), idmap)) if e else "F" for o, e in zip(objs, ends)]
    pot = []
    for i, t in enumerate(case["types"]):
        row = []
        for j, (o, e) in enumerate(zip(objs, ends)):
            if not e:
                row.append("F")
                continue
            # alternate between the string and the class form of `typ`
            arg = t
            if (i + j) % 2 and t in mm:
                arg = mm[t]
            row.append(guarded(lambda o=o, arg=arg: show(get_parent_of_type(arg, o), idmap)))
        pot.append(row)
    out["parent_of_type"] = pot
    qres = []
    for k, q in enumerate(case["queries"]):
        root = "a plain string" if q["root"] is None else objs[q["root"] % n]
        sf = mk_pred(q["sf"], q["sfprim"], idmap)
        kw = {}
        if q["cf"] or k % 2:
            kw["children_first"] = q["cf"]

        def call(q=q, root=root, sf=sf, kw=kw):
            if q.get("typ") is not None:
                t = q["typ"]["name"]
                if q["typ"]["form"] == "cls" and t in mm:
                    t = mm[t]
                if q["sf"]["k"] == "true" and q["sfprim"]:
                    r = get_children_of_type(t, root, **kw)
                else:
                    r = get_children_of_type(t, root, should_follow=sf, **kw)
            else:
                sel = mk_pred(q["sel"], False, idmap)
                if q["sf"]["k"] == "true" and q["sfprim"]:
                    r = get_children(sel, root, **kw)
                else:
                    r = get_children(sel, root, should_follow=sf, **kw)
            return [show(x, idmap) for x in r]
        qres.append(guarded(call))
    out["queries"] = qres
    out["root_has_parent"] = hasattr(model, "parent")
    return out


def main():
    payload = json.load(sys.stdin)
    json.dump([run_case(c) for c in payload["cases"]], sys.stdout)


main()
