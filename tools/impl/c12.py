"""Implementation runner for C12: parse / print RREL expressions and dump their structure."""
import json
import sys
from textx.scoping import rrel as R


def canon(s):
    out = []
    for c in s:
        o = ord(c)
        out.append(c if 32 <= o < 127 and c not in '\\"' else "\\%d;" % o)
    return "".join(out)


def dump(n):
    if isinstance(n, R.RRELExpression):
        return "E(%s:%s)" % (canon(n.flags), dump(n.seq))
    if isinstance(n, R.RRELSequence):
        return "".join("[%s]" % dump(p) for p in n.paths)
    if isinstance(n, R.RRELPath):
        return ".".join(dump(e) for e in n.path_elements)
    if isinstance(n, R.RRELParent):
        return "Parent(%s)" % canon(n.type)
    if isinstance(n, R.RRELNavigation):
        return "Nav(%s,%s,%s)" % (canon(n.name), "T" if n.consume_name else "F", "None" if n.fixed_name is None else canon(n.fixed_name))
    if isinstance(n, R.RRELDots):
        return "Dots(%d)" % n.num
    if isinstance(n, R.RRELBrackets):
        return "Br(%s)" % dump(n.seq)
    if isinstance(n, R.RRELZeroOrMore):
        assert isinstance(n.path_element, R.RRELBrackets)
        return "Star(%s)" % dump(n.path_element.seq)
    return "?%r" % (n,)


def fixed_names(n, out):
    if isinstance(n, R.RRELNavigation) and n.fixed_name is not None:
        out.append(canon(n.fixed_name))
    if isinstance(n, R.RRELExpression):
        fixed_names(n.seq, out)
    elif isinstance(n, R.RRELBase):
        for c in n.__dict__.values():
            for e in (c if isinstance(c, list) else [c]):
                if isinstance(e, R.RRELBase):
                    fixed_names(e, out)
    return out


def dump_peg():
    """the live parser rrel.parse builds (ParserPython(rrel_standalone, reduce_tree=False)), walked by tools/pegdump.py"""
    import os
    sys.path.insert(0, os.path.dirname(os.path.dirname(os.path.abspath(__file__))))
    import pegdump
    from arpeggio import ParserPython
    return pegdump.dump_parser(ParserPython(R.rrel_standalone, reduce_tree=False)).to_json()


def main():
    payload = json.load(sys.stdin)
    if payload.get("mode") == "dump":
        json.dump(dump_peg(), sys.stdout)
        return
    out = []
    for text in payload["texts"]:
        try:
            t = R.parse(text)
            printed = str(t)
            try:
                t2 = R.parse(printed)
                re_dump = dump(t2)
                reprinted = str(t2)
            except Exception as e:  # noqa
                re_dump, reprinted = "ERR:" + type(e).__name__, None
            out.append({"ok": True, "dump": dump(t), "printed": printed, "redump": re_dump, "reprinted": reprinted,
                        "fixed": fixed_names(t, [])})
        except Exception as e:  # noqa
            out.append({"ok": False, "err": type(e).__name__})
    json.dump(out, sys.stdout)


main()
