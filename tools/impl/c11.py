"""Implementation runner for C11: evaluate RREL expressions with textx.scoping.rrel on real
textX models (direct find() calls, grammar-attached RRELs, registered RREL strings) and
dump the object graph the evaluation saw.  stdin: {"cases": [...]}; stdout: list of results."""
import json
import sys

from textx import metamodel_from_str, get_children  # noqa: F401
from textx.exceptions import TextXSemanticError, TextXSyntaxError
from textx.model import textx_isinstance
from textx.scoping import rrel as R
from textx.scoping import Postponed

ATTRS = ["kids", "members", "one", "links", "link", "parent", "zzz"]
TYPES = ["Model", "Item", "Pkg", "Cls", "Anon", "Mem", "One", "Ref"]

GRAMMAR_HEAD = r'''
Model: 'model' kids*=Item refs*=Ref;
Item: Pkg | Cls | Anon;
Pkg: 'pkg' name=ID '{' kids*=Item refs*=Ref '}';
Cls: 'cls' name=ID '{' members*=Mem (one=One)? refs*=Ref '}';
Anon: 'anon' '{' kids*=Item '}';
Mem: 'mem' name=ID ('->' link=[Mem:FQD|^members, ^kids*.members])?;
One: 'one' name=ID '{' members*=Mem '}';
FQD: ID ('.' ID)*;
'''


def grammar(ref_rule):
    return GRAMMAR_HEAD + ref_rule


# three kinds of references, each with its own match rule (and so its own `split`)
KINDS = [("ref", "DRef", "RN"), ("sref", "SRef", "RNS"), ("cref", "CRef", "RNC")]
REFCLS = {cls: kw for kw, cls, _ in KINDS}
NAME_RX = "/[A-Za-z_0-9.\\/:\\-]+/"


def ref_rules(body, splits):
    """Ref: DRef | SRef | CRef with body(kw, match_rule) as right-hand side; splits: kw -> split or None."""
    t = "Ref: DRef | SRef | CRef;\n"
    for kw, cls, mr in KINDS:
        t += "%s: '%s' %s;\n" % (cls, kw, body(kw, mr))
    for kw, cls, mr in KINDS:
        sp = splits.get(kw)
        t += "%s%s: %s;\n" % (mr, "[split='%s']" % sp if sp else "", NAME_RX)
    return t


PLAIN_REF = ref_rules(lambda kw, mr: "refname=%s" % mr, {})

_mm_cache = {}


def get_mm(text):
    if text not in _mm_cache:
        _mm_cache[text] = metamodel_from_str(text)
    return _mm_cache[text]


def canon(s):
    out = []
    for c in s:
        o = ord(c)
        out.append(c if 32 <= o < 127 and c not in '\\"' else "\\%d;" % o)
    return "".join(out)


def dump_tree(n):
    if isinstance(n, R.RRELExpression):
        return "E(%s:%s)" % (canon(n.flags), dump_tree(n.seq))
    if isinstance(n, R.RRELSequence):
        return "".join("[%s]" % dump_tree(p) for p in n.paths)
    if isinstance(n, R.RRELPath):
        return ".".join(dump_tree(e) for e in n.path_elements)
    if isinstance(n, R.RRELParent):
        return "Parent(%s)" % canon(n.type)
    if isinstance(n, R.RRELNavigation):
        return "Nav(%s,%s,%s)" % (canon(n.name), "T" if n.consume_name else "F",
                                  "None" if n.fixed_name is None else canon(n.fixed_name))
    if isinstance(n, R.RRELDots):
        return "Dots(%d)" % n.num
    if isinstance(n, R.RRELBrackets):
        return "Br(%s)" % dump_tree(n.seq)
    if isinstance(n, R.RRELZeroOrMore):
        return "Star(%s)" % dump_tree(n.path_element.seq)
    return "?%r" % (n,)


def walk(root):
    """Objects in containment pre-order (the numbering shared with the check)."""
    objs = []

    def go(o):
        objs.append(o)
        for a in o.__class__._tx_attrs.values():
            if a.cont and a.ref:
                v = getattr(o, a.name)
                if isinstance(v, list):
                    for x in v:
                        go(x)
                elif v is not None:
                    go(v)
    go(root)
    return objs


class FakeResolver:
    """Stands in for the reference resolver of a model under construction: reports the given
    (object, attribute) pairs as still unresolved (needs_to_be_resolved -> Postponed)."""

    def __init__(self, pairs):
        self.pairs = pairs

    def has_unresolved_crossrefs(self, obj, attr_name=None):
        return (id(obj), attr_name) in self.pairs


def dump_model(objs, mm, post):
    idx = {id(o): i for i, o in enumerate(objs)}
    rows = []
    for o in objs:
        row = {"cls": o.__class__.__name__, "attrs": {}, "conf": []}
        nm = getattr(o, "name", None) if hasattr(o, "name") else None
        row["name"] = nm if isinstance(nm, str) else None
        row["parent"] = idx[id(o.parent)] if hasattr(o, "parent") else None
        for a in ATTRS:
            if (id(o), a) in post:
                row["attrs"][a] = "POST"
            elif not hasattr(o, a):
                row["attrs"][a] = "ABSENT"
            else:
                v = getattr(o, a)
                if v is None:
                    row["attrs"][a] = None
                elif isinstance(v, list):
                    if not all(id(x) in idx for x in v):
                        raise RuntimeError("unsupported list content in %s.%s" % (row["cls"], a))
                    row["attrs"][a] = [idx[id(x)] for x in v]
                elif id(v) in idx:
                    row["attrs"][a] = idx[id(v)]
                else:
                    raise RuntimeError("unsupported value in %s.%s: %r" % (row["cls"], a, v))
        for t in TYPES:
            if t in mm and textx_isinstance(o, mm[t]):
                row["conf"].append(t)
        rows.append(row)
    return rows


def show_result(r, idx):
    if r is None:
        return "None"
    if isinstance(r, Postponed):
        return "Postponed"
    if isinstance(r, R.ReferenceProxy):
        p = r._tx_path
        return "Proxy([%s])" % ",".join(str(idx.get(id(x), "?")) for x in p)
    return "Obj(%s)" % idx.get(id(r), "?")


def run_find(case):
    mm = get_mm(grammar(PLAIN_REF))
    model = mm.model_from_str(case["model"])
    objs = walk(model)
    for src, attr, val in case.get("xrefs", []):
        if isinstance(val, list):
            setattr(objs[src], attr, [objs[i] for i in val])
        elif val is None:
            setattr(objs[src], attr, None)
        else:
            setattr(objs[src], attr, objs[val])
    post = {(id(objs[i]), a) for i, a in case.get("post", [])}
    if post:
        model._tx_reference_resolver = FakeResolver(post)
    elif hasattr(model, "_tx_reference_resolver"):
        del model._tx_reference_resolver
    idx = {id(o): i for i, o in enumerate(objs)}
    out = {"rows": dump_model(objs, mm, post), "results": []}
    for q in case["queries"]:
        try:
            tree = R.parse(q["expr"])
            d = dump_tree(tree)
            cls = mm[q["cls"]] if q.get("cls") else None
            kw = {}
            if "split" in q:
                kw["split_string"] = q["split"]
            r = R.find(objs[q["start"]], q["name"], tree, cls, use_proxy=bool(q.get("proxy")), **kw)
            res = show_result(r, idx)
            # the proxy must behave as the target: _tx_obj and attribute access
            extra = None
            if isinstance(r, R.ReferenceProxy):
                extra = {"tx_obj": idx.get(id(r._tx_obj), "?")}
            out["results"].append({"r": res, "tree": d, "extra": extra})
        except Exception as e:  # noqa
            out["results"].append({"r": "ERR:%s:%s" % (type(e).__name__, str(e)[:200]), "tree": None})
    return out


def run_glue(case):
    """Reference attributes DRef.ref / SRef.ref / CRef.ref (three match rules with their own
    `split`) resolved by ONE RREL expression: in the grammar ([T:RN|expr], one provider per
    reference), registered under a wildcard key, under one key per class, or as one provider
    object registered under several keys.  Optional preload: other models loaded first with the
    same meta-model (state kept on providers / the meta-model shows up in the main load)."""
    expr = case["expr"]
    splits = case.get("splits") or {}
    via = case["via"]
    if via == "grammar":
        g = grammar(ref_rules(lambda kw, mr: "ref=[%s:%s|%s]" % (case["cls"], mr, expr), splits))
    else:
        g = grammar(ref_rules(lambda kw, mr: "ref=[%s:%s]" % (case["cls"], mr), splits))
    out = {}
    try:
        out["tree"] = dump_tree(R.parse(expr))
        mm = metamodel_from_str(g)
        if via == "register_wild":
            mm.register_scope_providers({"*.ref": expr})
        elif via == "register_each":
            mm.register_scope_providers({cls + ".ref": expr for _, cls, _ in KINDS})
        elif via == "register_obj":
            prov = R.create_rrel_scope_provider(expr)
            mm.register_scope_providers({cls + ".ref": prov for _, cls, _ in KINDS})
        elif via != "grammar":
            return {"r": "ERR:unknown via"}
    except Exception as e:  # noqa
        return {"r": "GRAMMAR-ERR:%s:%s" % (type(e).__name__, str(e)[:200])}
    # the same text loaded with plain (non-reference) Ref rules gives the object graph
    pmm = get_mm(grammar(PLAIN_REF))
    pmodel = pmm.model_from_str(case["model"])
    pobjs = walk(pmodel)
    out["rows"] = dump_model(pobjs, pmm, set())
    out["refs"] = [{"i": i, "name": o.refname, "kind": REFCLS[o.__class__.__name__]}
                   for i, o in enumerate(pobjs) if o.__class__.__name__ in REFCLS]
    out["preload"] = []
    for t in case.get("preload", []):
        try:
            mm.model_from_str(t)
            out["preload"].append("OK")
        except Exception as e:  # noqa
            out["preload"].append(type(e).__name__)
    try:
        model = mm.model_from_str(case["model"])
    except TextXSemanticError as e:
        out["r"] = "SEM-ERR"
        out["msg"] = str(e)[:200]
        # which Ref object the error is about (the model text is a single line)
        off = (e.col or 0) - 1
        out["err_ref"] = None
        if "Unknown object" in str(e) and e.line == 1:
            for i, po in enumerate(pobjs):
                if po.__class__.__name__ in REFCLS and po._tx_position <= off < po._tx_position_end:
                    out["err_ref"] = i
        return out
    except TextXSyntaxError as e:
        out["r"] = "SYN-ERR:" + str(e)[:200]
        return out
    objs = walk(model)
    if len(objs) != len(pobjs) or any(a.__class__.__name__ != b.__class__.__name__ for a, b in zip(objs, pobjs)):
        out["r"] = "ERR:object graphs of the two loads differ"
        return out
    idx = {id(o): i for i, o in enumerate(objs)}
    out["r"] = "OK"
    out["resolved"] = []
    for i, o in enumerate(objs):
        if o.__class__.__name__ in REFCLS:
            out["resolved"].append({"i": i, "r": show_result(o.ref, idx),
                                    "name": getattr(o.ref, "name", None)})
    return out


def main():
    payload = json.load(sys.stdin)
    out = []
    for case in payload["cases"]:
        try:
            if case["kind"] == "find":
                out.append(run_find(case))
            elif case["kind"] == "glue":
                out.append(run_glue(case))
            else:
                out.append({"r": "ERR:unknown case kind"})
        except Exception as e:  # noqa
            import traceback
            out.append({"r": "RUNNER-ERR:%s:%s" % (type(e).__name__, str(e)[:300]), "tb": traceback.format_exc()[-800:]})
    json.dump(out, sys.stdout)


main()
