"""Implementation runner for C06: the same runner as C01 (tools/impl/c01.py) - models loaded from strings and
files, every object dumped with _tx_position, _tx_position_end and get_location. Kept as a separate entry point so
that `run_impl("c06", ...)` works; tools/props/c06.py currently calls the shared runner directly."""
import os
import sys

sys.path.insert(0, os.path.dirname(os.path.abspath(__file__)))
import c01  # noqa: E402

if __name__ == "__main__":
    c01.main()
