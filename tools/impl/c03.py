"""Implementation runner for C03: rule kinds, inheritance lists, textx_isinstance and the
objects of loaded models, observed through the public API of the textX in PYTHONPATH.

stdin : {"cases": [{"grammar": str, "rules": [names], "inputs": [str]}]}
stdout: per case {"error": str|None, "kinds": {name: type}, "inh": {name: [names]},
                  "isinst": {K: {R: bool|"exc:..."}}, "runs": [per input]}
per input: {"error": str|None, "dump": canonical model, "tree": parse tree, "objs": [class names],
            "dyn": [[object class, declared class, textx_isinstance]]}
"""
import json
import signal
import sys

import textx.model as tm
from arpeggio import Terminal
from textx import metamodel_from_str, textx_isinstance

PLAIN = (str, int, float, bool)


def canon_text(s):
    out = []
    for c in s:
        o = ord(c)
        if 32 <= o < 127 and c not in '\\"':
            out.append(c)
        else:
            out.append("\\%d;" % o)
    return "".join(out)


def conv_tree(node):
    """Arpeggio parse tree -> ["T", text] | ["N", rule name, kids] | ["A", kids]"""
    if isinstance(node, Terminal):
        return ["T", node.value]
    name = node.rule_name
    if name.startswith("__asgn"):
        op = name.split("_")[-1]
        if op == "plain":
            kids = [node[0]]
        elif op == "optional":
            kids = []
        else:
            kids = [n for n in node if n.rule_name != "sep"]
        return ["A", [conv_tree(k) for k in kids]]
    if not node.rule.root:
        raise AssertionError("non-root NonTerminal " + name)
    return ["N", node.rule._tx_class.__name__, [conv_tree(k) for k in node]]


def is_obj(v):
    return hasattr(type(v), "_tx_attrs") and not isinstance(v, PLAIN)


def dump(v, objs, dyn, declared):
    """Canonical form of a value; collects class names of all objects and the dynamic
    isinstance observations (object, class declared at its containing attribute)."""
    if v is None:
        return "None"
    if isinstance(v, bool):
        return "b:" + str(v)
    if isinstance(v, PLAIN):
        return "s:" + canon_text(str(v))
    if not is_obj(v):
        return "?:" + type(v).__name__
    cls = type(v)
    objs.append(cls.__name__)
    if declared is not None:
        try:
            r = textx_isinstance(v, declared)
        except RecursionError:
            r = "exc:RecursionError"
        dyn.append([cls.__name__, declared.__name__, r])
    parts = []
    for name, attr in cls._tx_attrs.items():
        val = getattr(v, name, None)
        vals = val if isinstance(val, list) else [val]
        for x in vals:
            if x is None:
                continue
            parts.append(dump(x, objs, dyn, attr.cls))
    return "%s(%s)" % (cls.__name__, ",".join(parts))


PASSES = [0]


def install_pass_counter():
    """count the iterations of `while has_change[0]` in _determine_rule_types: each iteration
    iterates the meta-model exactly once (`for cls in metamodel`)"""
    import textx.lang as tl
    import textx.metamodel as tmm
    orig_det = tl.TextXVisitor._determine_rule_types
    orig_iter = tmm.TextXMetaModel.__iter__
    active = [False]

    def counting_iter(self):
        if active[0]:
            PASSES[0] += 1
        return orig_iter(self)

    def det(self, metamodel):
        PASSES[0] = 0
        active[0] = True
        try:
            return orig_det(self, metamodel)
        finally:
            active[0] = False

    tmm.TextXMetaModel.__iter__ = counting_iter
    tl.TextXVisitor._determine_rule_types = det


def run_case(case):
    out = {"error": None, "kinds": {}, "inh": {}, "isinst": {}, "runs": [], "passes": None}
    PASSES[0] = -1
    try:
        # memoization only bounds the parse time of ambiguous generated grammars (packrat)
        mm = metamodel_from_str(case["grammar"], memoization=True)
    except RecursionError:
        out["error"] = "RecursionError"
        return out
    except Exception as ex:  # noqa: BLE001
        out["error"] = type(ex).__name__ + ": " + str(ex)[:200]
        return out
    rules = case["rules"]
    out["passes"] = PASSES[0]
    for n in rules:
        cls = mm[n]
        out["kinds"][n] = cls._tx_type
        out["inh"][n] = [c.__name__ for c in cls._tx_inh_by]
    for k in rules:
        kc = mm[k]
        obj = kc.__new__(kc)
        row = {}
        for r in rules + ["OBJECT"]:
            try:
                row[r] = bool(textx_isinstance(obj, mm[r]))
            except RecursionError:
                row[r] = "exc:RecursionError"
        out["isinst"][k] = row
    captured = []
    orig = tm.parse_tree_to_objgraph

    def spy(parser, parse_tree, *a, **kw):
        captured.append(parse_tree)
        return orig(parser, parse_tree, *a, **kw)

    tm.parse_tree_to_objgraph = spy
    try:
        for text in case["inputs"]:
            del captured[:]
            run = {"error": None, "dump": None, "tree": None, "objs": [], "dyn": []}
            try:
                model = mm.model_from_str(text)
                run["tree"] = conv_tree(captured[0])
                run["dump"] = dump(model, run["objs"], run["dyn"], mm[rules[0]])
            except RecursionError:
                run["error"] = "RecursionError"
            except Exception as ex:  # noqa: BLE001
                run["error"] = type(ex).__name__
            out["runs"].append(run)
    finally:
        tm.parse_tree_to_objgraph = orig
    return out


class CaseTimeout(BaseException):
    pass


def on_alarm(signum, frame):
    raise CaseTimeout()


def main():
    payload = json.load(sys.stdin)
    signal.signal(signal.SIGALRM, on_alarm)
    install_pass_counter()
    res = []
    for c in payload["cases"]:
        signal.alarm(int(payload.get("case_timeout", 60)))
        try:
            res.append(run_case(c))
        except CaseTimeout:
            res.append({"error": "Timeout", "kinds": {}, "inh": {}, "isinst": {}, "runs": []})
        finally:
            signal.alarm(0)
    json.dump(res, sys.stdout)


main()
