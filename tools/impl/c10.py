"""Implementation runner for C10: parse generated package/class models with the real FQN scope
provider, dump the object graph exactly as the provider sees it (`__dict__` order, `_tx_attrs`
flags, callability, parent link, resolved references) and answer queries

  * direct:  provider(obj, attr, ObjCrossRef(obj_name=text, cls=T))  on the fully resolved model
  * e2e:     parse a text in which one reference is replaced by the probe text; report the
             resolved target or the 'Unknown object' error (message, line, col)

Input : {"grammars": {gid: text}, "cases": [{"gid", "text", "queries": [[r, text, T]], "e2e": [{"text", "holder", "attr"}]}]}
Output: [{"dump": [...], "conf": [[c, T]], "answers": [...], "e2e": [...], "error": None | str}]
"""
import json
import sys

import textx.scoping.providers as sp
from textx import metamodel_from_str, textx_isinstance
from textx.exceptions import TextXSemanticError
from textx.model import ObjCrossRef

MMS = {}


def mk_user(name):
    def __init__(self, **kw):
        for k, v in kw.items():
            setattr(self, k, v)
    return type(name, (object,), {"__init__": __init__})


def get_mm(gid, grammars, user_classes=None):
    if gid not in MMS:
        mm = metamodel_from_str(grammars[gid], classes=[mk_user(n) for n in (user_classes or {}).get(gid, [])])
        mm.register_scope_providers({"*.*": sp.FQN()})
        MMS[gid] = mm
    return MMS[gid]


class PyObj:
    """A plain Python object (no _tx_attrs) hung into a model by the runner."""


def table(model, objs=None, ids=None):
    """Objects in pre-order over containment attributes (declaration order)."""
    if objs is None:
        objs, ids = [], {}

    def visit(o):
        ids[id(o)] = len(objs)
        objs.append(o)
        for a in type(o)._tx_attrs.values():
            if a.cont and a.ref:
                v = getattr(o, a.name)
                if isinstance(v, list):
                    for c in v:
                        if hasattr(type(c), "_tx_attrs"):
                            visit(c)
                elif v is not None and hasattr(type(v), "_tx_attrs"):
                    visit(v)
    visit(model)
    return objs, ids


def add_plain(objs, ids):
    """Append the plain Python objects reachable from the table (discovery order: holders first)."""
    i = 0
    while i < len(objs):
        o = objs[i]
        i += 1
        for k, v in list(o.__dict__.items()):
            if k == "parent":
                continue
            for x in (v if isinstance(v, (list, tuple)) else [v]):
                if isinstance(x, PyObj) and id(x) not in ids:
                    ids[id(x)] = len(objs)
                    objs.append(x)


def mk_py(spec, holder):
    o = PyObj()
    o.name = spec["name"]
    o.kids = [mk_py(k, o) for k in spec.get("kids", [])]
    o.one = mk_py(spec["one"], o) if spec.get("one") else None
    o.fn = (lambda: None)
    if spec.get("hidden"):
        o._secret = mk_py(spec["hidden"], o)
        o._tx_fake = [mk_py(spec["hidden"], o)]
    if spec.get("with_parent"):
        o.parent = holder
    return o


def dump(objs, ids):
    out = []
    foreign = 0
    for o in objs:
        attrs = []
        cls_attrs = getattr(type(o), "_tx_attrs", {})
        for k in o.__dict__:
            v = getattr(o, k)
            decl = k in cls_attrs
            cont = bool(cls_attrs[k].cont) if decl else False
            if isinstance(v, (list, tuple)):
                val = ["m", [ids[id(x)] for x in v if id(x) in ids]]
                foreign += sum(1 for x in v if id(x) not in ids and hasattr(x, "name"))
            elif id(v) in ids:
                val = ["o", ids[id(v)]]
            elif v is None and decl and cls_attrs[k].ref:
                val = ["o", None]
            else:
                val = ["p"]
                if hasattr(v, "name") and not k.startswith("_tx_"):
                    foreign += 1
            attrs.append([k, decl, cont, bool(callable(v)), val])
        nm = getattr(o, "name", None) if hasattr(o, "name") else None
        out.append({"cls": type(o).__name__, "name": nm if isinstance(nm, str) else None, "attrs": attrs})
    return out, foreign


def main():
    payload = json.load(sys.stdin)
    grammars = payload["grammars"]
    classes = payload["classes"]
    out = []
    for case in payload["cases"]:
        mm = get_mm(case["gid"], grammars, payload.get("user_classes"))
        res = {"dump": None, "conf": [], "answers": [], "e2e": [], "error": None, "foreign": 0}
        out.append(res)
        try:
            model = mm.model_from_str(case["text"])
        except TextXSemanticError as e:
            res["error"] = {"msg": e.message, "line": e.line, "col": e.col, "type": type(e).__name__}
            continue
        except Exception as e:  # noqa: BLE001
            res["error"] = {"msg": str(e), "line": getattr(e, "line", None), "col": getattr(e, "col", None), "type": type(e).__name__}
            continue
        objs, ids = table(model)
        res["dump"], res["foreign"] = dump(objs, ids)
        seen = {}
        for o in objs:
            seen.setdefault(type(o).__name__, o)
        for c, o in seen.items():
            for T in classes:
                if textx_isinstance(o, mm[T] if T in mm else PyObj):
                    res["conf"].append([c, T])
        prov = mm.scope_providers["*.*"]
        for r, text, T in case["queries"]:
            ref = ObjCrossRef(obj_name=text, cls=mm[T] if T in mm else PyObj, position=0, scope_provider=None, match_rule_name="FQN")
            try:
                t = prov(objs[r], None, ref)
                if t is None:
                    res["answers"].append("U")
                elif id(t) in ids:
                    res["answers"].append("F%d" % ids[id(t)])
                else:
                    res["answers"].append("E:foreign result %r" % (t,))
            except Exception as e:  # noqa: BLE001
                res["answers"].append("E:%s: %s" % (type(e).__name__, e))
        for probe in case["e2e"]:
            try:
                m1 = mm.model_from_str(probe["text"])
                o1, i1 = table(m1)
                v = getattr(o1[probe["holder"]], probe["attr"])
                if isinstance(v, list):
                    v = v[probe.get("index", 0)]
                res["e2e"].append({"ok": True, "target": i1.get(id(v)), "n": len(o1)})
            except TextXSemanticError as e:
                res["e2e"].append({"ok": False, "msg": e.message, "line": e.line, "col": e.col,
                                   "err_type": getattr(e, "err_type", None), "type": type(e).__name__})
            except Exception as e:  # noqa: BLE001
                res["e2e"].append({"ok": False, "msg": str(e), "line": None, "col": None, "err_type": None,
                                   "type": type(e).__name__})
        # FQN with a scope_redirection_logic: the owner class of a package stands in for the package
        if case.get("redir_queries"):
            from textx.scoping import Postponed

            def logic(o):
                return [o.owner] if type(o).__name__ == "Package" and getattr(o, "owner", None) is not None else []
            prov_r = sp.FQN(scope_redirection_logic=logic)
            res["redir_answers"] = []
            for r, text, T in case["redir_queries"]:
                ref = ObjCrossRef(obj_name=text, cls=mm[T], position=0, scope_provider=None, match_rule_name="FQN")
                try:
                    t = prov_r(objs[r], None, ref)
                    res["redir_answers"].append("U" if t is None else "P" if type(t) is Postponed else "F%d" % ids[id(t)] if id(t) in ids else "E:foreign")
                except Exception as e:  # noqa: BLE001
                    res["redir_answers"].append("E:%s: %s" % (type(e).__name__, e))
        # the same callback, but it answers Postponed the first time it is asked about some objects; a postponed
        # reference is asked again (next round) until it is no longer postponed
        if case.get("post_queries"):
            from textx.scoping import Postponed
            pending = set()

            def logic_p(o):
                if ids.get(id(o)) in pending:
                    pending.discard(ids[id(o)])
                    return Postponed()
                return [o.owner] if type(o).__name__ == "Package" and getattr(o, "owner", None) is not None else []
            prov_p = sp.FQN(scope_redirection_logic=logic_p)
            res["post_answers"] = []
            for r, text, T, post in case["post_queries"]:
                pending.clear()
                pending.update(post)
                rounds = []
                ref = ObjCrossRef(obj_name=text, cls=mm[T], position=0, scope_provider=None, match_rule_name="FQN")
                for _ in range(len(post) + 2):
                    before = sorted(pending)
                    try:
                        t = prov_p(objs[r], None, ref)
                        a = "U" if t is None else "P" if type(t) is Postponed else "F%d" % ids[id(t)] if id(t) in ids else "E:foreign"
                    except Exception as e:  # noqa: BLE001
                        a = "E:%s: %s" % (type(e).__name__, e)
                    rounds.append([before, a])
                    if a != "P":
                        break
                res["post_answers"].append(rounds)
        # plain Python objects hung into the parsed model, then direct calls on the extended graph
        if case.get("py"):
            for d in case["py"]:
                setattr(objs[d["holder"]], d["attr"], [mk_py(x, objs[d["holder"]]) for x in d["objs"]])
            add_plain(objs, ids)
            res["py_dump"], _ = dump(objs, ids)
            res["py_conf"] = res["conf"] + [["PyObj", T] for T in classes if textx_isinstance(objs[-1], mm[T] if T in mm else PyObj)]
            res["py_answers"] = []
            for r, text, T in case["py_queries"]:
                ref = ObjCrossRef(obj_name=text, cls=mm[T] if T in mm else PyObj, position=0, scope_provider=None, match_rule_name="FQN")
                try:
                    t = prov(objs[r], None, ref)
                    res["py_answers"].append("U" if t is None else "F%d" % ids[id(t)] if id(t) in ids else "E:foreign")
                except Exception as e:  # noqa: BLE001
                    res["py_answers"].append("E:%s: %s" % (type(e).__name__, e))
    for case in payload.get("multi", []):
        out.append(run_multi(case, grammars, classes))
    json.dump(out, sys.stdout)


def run_multi(case, grammars, classes):
    """Several files: main imports libraries (FQNImportURI, importAs or not) or they come from FQNGlobalRepo."""
    import os
    import shutil
    import tempfile
    from textx.scoping import Postponed
    res = {"world": None, "roots": [], "locals": {}, "redir": {}, "answers": [], "error": None, "conf": []}
    d = tempfile.mkdtemp(prefix="c10_")
    try:
        for name, text in case["files"].items():
            with open(os.path.join(d, name), "w") as f:
                f.write(text)
        mm = metamodel_from_str(grammars[case["gid"]])
        kind = case["provider"]
        prov = (sp.FQNImportURI() if kind == "imp" else sp.FQNImportURI(importAs=True) if kind == "impas"
                else sp.FQNGlobalRepo(os.path.join(d, "lib*.m")))
        mm.register_scope_providers({"*.*": prov})
        repo_b = None
        if case.get("builtins"):
            from textx.scoping import ModelRepository
            repo_b = ModelRepository()
            try:
                for f in case["builtins"]:
                    repo_b.add_model(mm.model_from_file(os.path.join(d, f)))
            except Exception as e:  # noqa: BLE001  (a builtin model that does not load is an outcome of the case, not a crash of the runner)
                res["error"] = {"msg": "builtin model: " + getattr(e, "message", str(e)).replace(d, "<dir>"), "line": getattr(e, "line", None),
                                "col": getattr(e, "col", None), "type": type(e).__name__}
                return res
            mm.builtin_models = repo_b
        try:
            main = mm.model_from_file(os.path.join(d, case["main"]))
        except Exception as e:  # noqa: BLE001
            res["error"] = {"msg": getattr(e, "message", str(e)).replace(d, "<dir>"), "line": getattr(e, "line", None),
                            "col": getattr(e, "col", None), "type": type(e).__name__}
            return res
        repo = main._tx_model_repository
        models = [main] + [x for x in repo.local_models if x is not main]
        for x in list(repo_b or []) + list(repo.all_models.filename_to_model.values()):
            if all(x is not y for y in models):
                models.append(x)
                for y in x._tx_model_repository.local_models:
                    if all(y is not z for z in models):
                        models.append(y)
        objs, ids = [], {}
        for x in models:
            res["roots"].append(len(objs))
            table(x, objs, ids)
        res["files"] = [os.path.basename(x._tx_filename) for x in models]
        res["world"], _ = dump(objs, ids)
        for x in models:
            res["locals"][str(ids[id(x)])] = [ids[id(y)] for y in x._tx_model_repository.local_models]
        res["builtins"] = [ids[id(x)] for x in (repo_b or [])]
        if kind == "impas":
            for o in objs:
                if hasattr(o, "_tx_loaded_models"):
                    res["redir"][str(ids[id(o)])] = [ids[id(y)] for y in o._tx_loaded_models]
        seen = {}
        for o in objs:
            seen.setdefault(type(o).__name__, o)
        for c, o in seen.items():
            for T in classes:
                if T in mm and textx_isinstance(o, mm[T]):
                    res["conf"].append([c, T])
        for r, text, T in case["queries"]:
            ref = ObjCrossRef(obj_name=text, cls=mm[T] if T in mm else PyObj, position=0, scope_provider=None, match_rule_name="FQN")
            try:
                t = prov(objs[r], None, ref)
                res["answers"].append("U" if t is None else "P" if type(t) is Postponed else "F%d" % ids[id(t)] if id(t) in ids else "E:foreign")
            except Exception as e:  # noqa: BLE001
                res["answers"].append("E:%s: %s" % (type(e).__name__, str(e).replace(d, "<dir>")))
    finally:
        shutil.rmtree(d, ignore_errors=True)
    return res


main()
