"""Implementation runner for C21: the same runner as C20 (modes "c21" and "kwlike" of tools/impl/c20.py)."""
import os
import runpy

runpy.run_path(os.path.join(os.path.dirname(os.path.abspath(__file__)), "c20.py"), run_name="__main__")
