(* Lemmas about Model/Peg.v. *)
From TxV Require Import Core.Base Model.PegSyntax Model.Peg.

(* ---------------------------------------------------------------- the class *)
Definition is_unord (k : kind) : bool := match k with KUnord => true | _ => false end.
Definition node_ctx_free (nd : node) : bool :=
  match n_ws nd, n_skipws nd with
  | None, None => negb (n_eolterm nd)
  | _, _ => false
  end.

(* the comment model is absent or a single terminal (a Match node: never memoized) *)
Definition comments_ok (g : grammar) : bool :=
  match g_comments g with
  | None => true
  | Some cm => match get_node g cm with Some nd => is_match_kind (n_kind nd) | None => false end
  end.

(* no node changes the whitespace context, and the comment model is absent or a single terminal *)
Definition ctx_constant (g : grammar) : bool :=
  forallb node_ctx_free (g_nodes g) && comments_ok g.

(* ---------------------------------------------------------------- refutation outside the class
   Model: a=A | b=B; A[noskipws]: x=X 'q'; B: x=X 'r'; X: 'x' 'y';   (dumped by tools/pegdump.py) *)
Definition g_probe : grammar := (mkGrammar [mkNode KSeq [1;13] None false [77;111;100;101;108]%N true false None None;
  mkNode KChoice [2;9] None false [77;111;100;101;108]%N true false None None;
  mkNode KSeq [3] None false [95;95;97;115;103;110;95;112;108;97;105;110]%N true false None None;
  mkNode KSeq [4;8] None false [65]%N true false None (Some false);
  mkNode KSeq [5] None false [95;95;97;115;103;110;95;112;108;97;105;110]%N true false None None;
  mkNode KSeq [6;7] None false [88]%N true false None None;
  mkNode (KStr [120]%N None) [] None false []%N false false None None;
  mkNode (KStr [121]%N None) [] None false []%N false false None None;
  mkNode (KStr [113]%N None) [] None false []%N false false None None;
  mkNode KSeq [10] None false [95;95;97;115;103;110;95;112;108;97;105;110]%N true false None None;
  mkNode KSeq [11;12] None false [66]%N true false None None;
  mkNode KSeq [5] None false [95;95;97;115;103;110;95;112;108;97;105;110]%N true false None None;
  mkNode (KStr [114]%N None) [] None false []%N false false None None;
  mkNode KEOF [] None false [69;79;70]%N false false None None] 0 None).
Definition c_default : config := mkConfig true [9;10;13;32]%N.
Definition in_probe : list N := [120;32;121;32;114]%N.     (* "x y r" *)

Definition accepts (o : outcome) : bool := match o with Parsed _ => true | _ => false end.

Lemma refuted_probe :
  ctx_constant g_probe = false /\
  accepts (run g_probe c_default (fun _ _ => None) false 100 in_probe) = true /\
  run g_probe c_default (fun _ _ => None) true 100 in_probe = SyntaxErr 1.
Proof. vm_compute. repeat split. Qed.

(* ================================================================ state algebra *)
Lemma set_pos_same s : set_pos (pos s) s = s.
Proof. destruct s; reflexivity. Qed.
Lemma set_pos_set_pos p q s : set_pos p (set_pos q s) = set_pos p s.
Proof. destruct s; reflexivity. Qed.
Lemma pos_set_pos p s : pos (set_pos p s) = p.
Proof. reflexivity. Qed.

Lemma lookup_upd_same k v m : lookup k (upd k v m) = Some v.
Proof.
  induction m as [|[k' v'] m IH]; cbn [upd lookup].
  - now rewrite Nat.eqb_refl.
  - destruct (Nat.eqb k k') eqn:E; cbn [lookup]; [now rewrite Nat.eqb_refl | now rewrite E].
Qed.
Lemma lookup_upd_other k k2 v m : k2 <> k -> lookup k2 (upd k v m) = lookup k2 m.
Proof.
  intro Hne. induction m as [|[k' v'] m IH]; cbn [upd lookup].
  - destruct (Nat.eqb k2 k) eqn:E; [apply Nat.eqb_eq in E; contradiction | reflexivity].
  - destruct (Nat.eqb k k') eqn:E; cbn [lookup].
    + apply Nat.eqb_eq in E; subst k'.
      destruct (Nat.eqb k2 k) eqn:E2; [apply Nat.eqb_eq in E2; contradiction | reflexivity].
    + destruct (Nat.eqb k2 k'); [reflexivity | exact IH].
Qed.
Lemma upd_idem k v m : lookup k m = Some v -> upd k v m = m.
Proof.
  induction m as [|[k' v'] m IH]; cbn [upd lookup]; [discriminate|].
  destruct (Nat.eqb k k') eqn:E; intro H.
  - apply Nat.eqb_eq in E. congruence.
  - now rewrite IH.
Qed.

Definition nm_le (a b : option nat) : Prop :=
  match a, b with
  | None, _ => True
  | Some x, Some y => x <= y
  | Some _, None => False
  end.
Lemma nm_le_refl a : nm_le a a.
Proof. destruct a; cbn; auto. Qed.
Lemma nm_le_trans a b c : nm_le a b -> nm_le b c -> nm_le a c.
Proof. destruct a, b, c; cbn; try tauto; lia. Qed.

Definition cpos_le (c c' : list (nat * nat)) : Prop :=
  forall k v, lookup k c = Some v -> lookup k c' = Some v.
Definition cpos_id (c : list (nat * nat)) : Prop :=
  forall k v, lookup k c = Some v -> v = k.

Lemma cpos_id_upd k c : cpos_id c -> cpos_id (upd k k c).
Proof.
  intros H k2 v. destruct (Nat.eq_dec k2 k) as [->|Hne].
  - rewrite lookup_upd_same. congruence.
  - rewrite lookup_upd_other by assumption. apply H.
Qed.
Lemma cpos_le_upd k c : cpos_id c -> cpos_le c (upd k k c).
Proof.
  intros H k2 v Hl. destruct (Nat.eq_dec k2 k) as [->|Hne].
  - rewrite lookup_upd_same. now rewrite (H _ _ Hl).
  - now rewrite lookup_upd_other.
Qed.

(* s' has the same context and cache as s, and its nm / comment_positions extend those of s
   (the position is unconstrained) *)
Record dom (s s' : st) : Prop := mkDom {
  d_ws : ws s' = ws s;
  d_rws : real_ws s' = real_ws s;
  d_skip : skipws s' = skipws s;
  d_eol : eolterm s' = eolterm s;
  d_cmt : in_cmt s' = in_cmt s;
  d_cache : cache s' = cache s;
  d_nm : nm_le (nm s) (nm s');
  d_cpos : cpos_le (cpos s) (cpos s') }.

Lemma dom_refl s : dom s s.
Proof. constructor; auto using nm_le_refl. intros k v H; exact H. Qed.
Lemma dom_trans a b c : dom a b -> dom b c -> dom a c.
Proof.
  intros [] []; constructor; try congruence.
  - eapply nm_le_trans; eassumption.
  - intros k v H. auto.
Qed.
Lemma dom_set_pos_r p s s' : dom s s' -> dom s (set_pos p s').
Proof. intros []; constructor; assumption. Qed.
Lemma dom_set_pos_l p s s' : dom s s' -> dom (set_pos p s) s'.
Proof. intros []; constructor; assumption. Qed.
Lemma dom_set_pos_l_inv p s s' : dom (set_pos p s) s' -> dom s s'.
Proof. intros []; constructor; assumption. Qed.
Lemma dom_reg_fail p s : dom s (reg_fail p s).
Proof.
  unfold reg_fail. destruct (nm s) as [q|] eqn:E.
  - destruct (in_cmt s); [apply dom_refl|].
    destruct (Nat.ltb q p) eqn:L; [|apply dom_refl].
    constructor; try reflexivity.
    + cbn. rewrite E. cbn. apply Nat.ltb_lt in L. lia.
    + intros k v H; exact H.
  - constructor; try reflexivity.
    + rewrite E. exact I.
    + intros k v H; exact H.
Qed.
Lemma cpos_reg_fail p s : cpos (reg_fail p s) = cpos s.
Proof. unfold reg_fail. destruct (nm s); [destruct (in_cmt s); [|destruct (Nat.ltb _ _)]|]; reflexivity. Qed.
Lemma pos_reg_fail p s : pos (reg_fail p s) = pos s.
Proof. unfold reg_fail. destruct (nm s); [destruct (in_cmt s); [|destruct (Nat.ltb _ _)]|]; reflexivity. Qed.

Lemma in_cmt_reg_fail p s : in_cmt (reg_fail p s) = in_cmt s.
Proof. unfold reg_fail. destruct (nm s); [destruct (in_cmt s) eqn:E; [|destruct (Nat.ltb _ _)]|]; auto. Qed.
Lemma nm_reg_fail p s : exists q, nm (reg_fail p s) = Some q /\ (in_cmt s = false -> p <= q).
Proof.
  unfold reg_fail. destruct (nm s) as [q|] eqn:E.
  - destruct (in_cmt s) eqn:C; [exists q; split; [assumption | discriminate]|].
    destruct (Nat.ltb q p) eqn:L.
    + exists p. split; [reflexivity | lia].
    + exists q. split; [assumption | apply Nat.ltb_ge in L; lia].
  - exists p. split; [reflexivity | lia].
Qed.

(* registering a failure at p in a state whose nm already dominates that of the first run *)
Lemma reg_fail_saturated p s s' :
  dom (reg_fail p s) s' -> reg_fail p s' = s'.
Proof.
  intros D. pose proof (d_nm _ _ D) as Hn. pose proof (d_cmt _ _ D) as Hc.
  rewrite in_cmt_reg_fail in Hc.
  destruct (nm_reg_fail p s) as [q [Hq Hpq]]. rewrite Hq in Hn.
  unfold reg_fail. destruct (nm s') as [q'|] eqn:E'; [|contradiction]. cbn in Hn.
  destruct (in_cmt s') eqn:C'; [reflexivity|].
  destruct (Nat.ltb q' p) eqn:L'; [|reflexivity].
  apply Nat.ltb_lt in L'. try rewrite C' in Hc. symmetry in Hc. specialize (Hpq Hc). lia.
Qed.

(* ---------------------------------------------------------------- further witnesses (dumped by tools/pegdump.py) *)
(* Model: ('a' X 'q')*[eolterm] 'a' X 'r'; X: 'x' 'y'; *)
Definition g_eol : grammar := (mkGrammar [mkNode KSeq [1;11] None false [77;111;100;101;108]%N true false None None;
  mkNode KSeq [2;9;5;10] None false [77;111;100;101;108]%N true false None None;
  mkNode KStar [3] None true []%N false false None None;
  mkNode KSeq [4;5;8] None false []%N false false None None;
  mkNode (KStr [97]%N None) [] None false []%N false false None None;
  mkNode KSeq [6;7] None false [88]%N true false None None;
  mkNode (KStr [120]%N None) [] None false []%N false false None None;
  mkNode (KStr [121]%N None) [] None false []%N false false None None;
  mkNode (KStr [113]%N None) [] None false []%N false false None None;
  mkNode (KStr [97]%N None) [] None false []%N false false None None;
  mkNode (KStr [114]%N None) [] None false []%N false false None None;
  mkNode KEOF [] None false [69;79;70]%N false false None None] 0 None).
Definition in_eol0 : list N := [97;32;120;10;121;32;114]%N.  (* 'a x\ny r' *)
Definition tbl_eol0 : list ((nat * nat) * nat) := (@nil ((nat * nat) * nat)).
(* memoization=False: P:n0(n1(t9@0+1-,n5(t6@2+1-,t7@4+1-),t10@6+1-),eof@7+0-) *)
(* memoization=True: E:3 *)
(* Model: ('k' | CB) 'r'; Comment: CL | CB; CL: /\/\/.*?$/; CB: '#' 'x'; *)
Definition g_cmt : grammar := (mkGrammar [mkNode KSeq [1;8] None false [77;111;100;101;108]%N true false None None;
  mkNode KSeq [2;7] None false [77;111;100;101;108]%N true false None None;
  mkNode KChoice [3;4] None false []%N false false None None;
  mkNode (KStr [107]%N None) [] None false []%N false false None None;
  mkNode KSeq [5;6] None false [67;66]%N true false None None;
  mkNode (KStr [35]%N None) [] None false []%N false false None None;
  mkNode (KStr [120]%N None) [] None false []%N false false None None;
  mkNode (KStr [114]%N None) [] None false []%N false false None None;
  mkNode KEOF [] None false [69;79;70]%N false false None None;
  mkNode KChoice [10;4] None false [67;111;109;109;101;110;116]%N true false None None;
  mkNode (KRegex 0) [] None false [67;76]%N true false None None] 0 (Some 9)).
Definition in_cmt0 : list N := [35;47;47;32;99;10;32;120;32;114]%N.  (* '#// c\n x r' *)
Definition tbl_cmt0 : list ((nat * nat) * nat) := [((0,1),4)].
(* memoization=False: P:n0(n1(n4(t5@0+1-,t6@7+1-),t7@9+1-),eof@10+0-) *)
(* memoization=True: E:0 *)
(* Model: xs+=X[','] ';' | xs+=X[','] '.'; X: 'x' | /\d+/; *)
Definition g_ex : grammar := (mkGrammar [mkNode KSeq [1;13] None false [77;111;100;101;108]%N true false None None;
  mkNode KChoice [2;9] None false [77;111;100;101;108]%N true false None None;
  mkNode KSeq [3;8] None false []%N false false None None;
  mkNode KPlus [4] (Some 7) false [95;95;97;115;103;110;95;111;110;101;111;114;109;111;114;101]%N true false None None;
  mkNode KChoice [5;6] None false [88]%N true false None None;
  mkNode (KStr [120]%N None) [] None false []%N false false None None;
  mkNode (KRegex 0) [] None false []%N false false None None;
  mkNode (KStr [44]%N None) [] None false [115;101;112]%N false false None None;
  mkNode (KStr [59]%N None) [] None false []%N false false None None;
  mkNode KSeq [10;12] None false []%N false false None None;
  mkNode KPlus [4] (Some 11) false [95;95;97;115;103;110;95;111;110;101;111;114;109;111;114;101]%N true false None None;
  mkNode (KStr [44]%N None) [] None false [115;101;112]%N false false None None;
  mkNode (KStr [46]%N None) [] None false []%N false false None None;
  mkNode KEOF [] None false [69;79;70]%N false false None None] 0 None).
Definition in_ex0 : list N := [120;44;32;49;44;32;120;46]%N.  (* 'x, 1, x.' *)
Definition tbl_ex0 : list ((nat * nat) * nat) := [((0,3),1)].
(* memoization=False: P:n0(n1(n10(n4(t5@0+1),t11@1+1,n4(t6@3+1),t11@4+1,n4(t5@6+1)),t12@7+1-),eof@8+0-) *)
(* memoization=True: P:n0(n1(n10(n4(t5@0+1),t11@1+1,n4(t6@3+1),t11@4+1,n4(t5@6+1)),t12@7+1-),eof@8+0-) *)
Definition in_ex1 : list N := [120;44;32;49;44;32;120;33]%N.  (* 'x, 1, x!' *)
Definition tbl_ex1 : list ((nat * nat) * nat) := [((0,3),1)].
(* memoization=False: E:7 *)
(* memoization=True: E:7 *)

Lemma refuted_eolterm :
  ctx_constant g_eol = false /\
  accepts (run g_eol c_default (orc_of tbl_eol0) false 100 in_eol0) = true /\
  run g_eol c_default (orc_of tbl_eol0) true 100 in_eol0 = SyntaxErr 3.
Proof. vm_compute. repeat split. Qed.

Lemma refuted_comment_shared :
  ctx_constant g_cmt = false /\
  accepts (run g_cmt c_default (orc_of tbl_cmt0) false 100 in_cmt0) = true /\
  run g_cmt c_default (orc_of tbl_cmt0) true 100 in_cmt0 = SyntaxErr 0.
Proof. vm_compute. repeat split. Qed.

(* non-vacuity: a context-constant grammar, an accepted and a rejected input, memoization on *)
Lemma example_in_class :
  ctx_constant g_ex = true /\
  accepts (run g_ex c_default (orc_of tbl_ex0) true 100 in_ex0) = true /\
  run g_ex c_default (orc_of tbl_ex0) true 100 in_ex0 = run g_ex c_default (orc_of tbl_ex0) false 100 in_ex0 /\
  run g_ex c_default (orc_of tbl_ex1) false 100 in_ex1 = SyntaxErr 7 /\
  run g_ex c_default (orc_of tbl_ex1) true 100 in_ex1 = SyntaxErr 7.
Proof. vm_compute. repeat split. Qed.

(* Model: B 'q' | 'b'; B: /[^;\n]+/ 'x'; Comment: /\/\/.*?$/ | /\/\*(.|\n)*?\*\//; *)
Definition g_cm2 : grammar := (mkGrammar [mkNode KSeq [1;8] None false [77;111;100;101;108]%N true false None None;
  mkNode KChoice [2;7] None false [77;111;100;101;108]%N true false None None;
  mkNode KSeq [3;6] None false []%N false false None None;
  mkNode KSeq [4;5] None false [66]%N true false None None;
  mkNode (KRegex 0) [] None false []%N false false None None;
  mkNode (KStr [120]%N None) [] None false []%N false false None None;
  mkNode (KStr [113]%N None) [] None false []%N false false None None;
  mkNode (KStr [98]%N None) [] None false []%N false false None None;
  mkNode KEOF [] None false [69;79;70]%N false false None None;
  mkNode KChoice [10;11] None false [67;111;109;109;101;110;116]%N true false None None;
  mkNode (KRegex 1) [] None false []%N false false None None;
  mkNode (KRegex 2) [] None false []%N false false None None] 0 (Some 9)).
Definition in_cm2 : list N := [98;47;47;10;47;42;42;47]%N.  (* 'b//\n/**/' *)
Definition tbl_cm2 : list ((nat * nat) * nat) := [((0,0),3);((0,1),2);((0,2),1);((0,4),4);((0,5),3);((0,6),2);((0,7),1);((1,1),2);((2,4),4)].

(* a Comment rule that is not a single terminal is itself memoized; Arpeggio consults
   comment_positions even while it is parsing comments, and the cache hides that *)
Lemma refuted_comment_model :
  run g_cm2 c_default (orc_of tbl_cm2) false 100 in_cm2 = SyntaxErr 8 /\
  accepts (run g_cm2 c_default (orc_of tbl_cm2) true 100 in_cm2) = true.
Proof. vm_compute. repeat split. Qed.

(* Model: xs+=X[','] ';' | xs+=X[','] '.'; X: 'x' | /\d+/; Comment: /\/\/.*?$/; *)
Definition g_exc : grammar := (mkGrammar [mkNode KSeq [1;13] None false [77;111;100;101;108]%N true false None None;
  mkNode KChoice [2;9] None false [77;111;100;101;108]%N true false None None;
  mkNode KSeq [3;8] None false []%N false false None None;
  mkNode KPlus [4] (Some 7) false [95;95;97;115;103;110;95;111;110;101;111;114;109;111;114;101]%N true false None None;
  mkNode KChoice [5;6] None false [88]%N true false None None;
  mkNode (KStr [120]%N None) [] None false []%N false false None None;
  mkNode (KRegex 0) [] None false []%N false false None None;
  mkNode (KStr [44]%N None) [] None false [115;101;112]%N false false None None;
  mkNode (KStr [59]%N None) [] None false []%N false false None None;
  mkNode KSeq [10;12] None false []%N false false None None;
  mkNode KPlus [4] (Some 11) false [95;95;97;115;103;110;95;111;110;101;111;114;109;111;114;101]%N true false None None;
  mkNode (KStr [44]%N None) [] None false [115;101;112]%N false false None None;
  mkNode (KStr [46]%N None) [] None false []%N false false None None;
  mkNode KEOF [] None false [69;79;70]%N false false None None;
  mkNode (KRegex 1) [] None false [67;111;109;109;101;110;116]%N true false None None] 0 (Some 14)).
Definition in_exc : list N := [120;44;32;47;47;32;99;10;32;49;44;32;120;46]%N.  (* 'x, // c\n 1, x.' *)
Definition tbl_exc : list ((nat * nat) * nat) := [((0,9),1);((1,3),4)].
(* memoization=False: P:n0(n1(n10(n4(t5@0+1),t11@1+1,n4(t6@9+1),t11@10+1,n4(t5@12+1)),t12@13+1-),eof@14+0-) *)
(* memoization=True: P:n0(n1(n10(n4(t5@0+1),t11@1+1,n4(t6@9+1),t11@10+1,n4(t5@12+1)),t12@13+1-),eof@14+0-) *)

(* non-vacuity with a (single-terminal) Comment rule: in the class, comment inside the input *)
Lemma example_in_class_comment :
  ctx_constant g_exc = true /\ c_skipws c_default = true /\
  accepts (run g_exc c_default (orc_of tbl_exc) true 100 in_exc) = true /\
  run g_exc c_default (orc_of tbl_exc) true 100 in_exc = run g_exc c_default (orc_of tbl_exc) false 100 in_exc.
Proof. vm_compute. repeat split. Qed.
