(* Lemmas about Model/Peg.v. *)
From TxV Require Import Core.Base Model.PegSyntax Model.Peg.

(* ---------------------------------------------------------------- the class *)
Definition node_ctx_free (nd : node) : bool :=
  match n_ws nd, n_skipws nd with
  | None, None => negb (n_eolterm nd)
  | _, _ => false
  end.

(* no node changes the whitespace context, and there is no comment model *)
Definition ctx_constant (g : grammar) : bool :=
  forallb node_ctx_free (g_nodes g) && match g_comments g with None => true | Some _ => false end.

(* ---------------------------------------------------------------- refutation outside the class
   Model: a=A | b=B; A[noskipws]: x=X 'q'; B: x=X 'r'; X: 'x' 'y';   (dumped by tools/pegdump.py) *)
Definition g_probe : grammar := (mkGrammar [mkNode KSeq [1;13] None false [77;111;100;101;108]%N true false None None;
  mkNode KChoice [2;9] None false [77;111;100;101;108]%N true false None None;
  mkNode KSeq [3] None false [95;95;97;115;103;110;95;112;108;97;105;110]%N true false None None;
  mkNode KSeq [4;8] None false [65]%N true false None (Some false);
  mkNode KSeq [5] None false [95;95;97;115;103;110;95;112;108;97;105;110]%N true false None None;
  mkNode KSeq [6;7] None false [88]%N true false None None;
  mkNode (KStr [120]%N None) [] None false []%N false false None None;
  mkNode (KStr [121]%N None) [] None false []%N false false None None;
  mkNode (KStr [113]%N None) [] None false []%N false false None None;
  mkNode KSeq [10] None false [95;95;97;115;103;110;95;112;108;97;105;110]%N true false None None;
  mkNode KSeq [11;12] None false [66]%N true false None None;
  mkNode KSeq [5] None false [95;95;97;115;103;110;95;112;108;97;105;110]%N true false None None;
  mkNode (KStr [114]%N None) [] None false []%N false false None None;
  mkNode KEOF [] None false [69;79;70]%N false false None None] 0 None).
Definition c_default : config := mkConfig true [9;10;13;32]%N.
Definition in_probe : list N := [120;32;121;32;114]%N.     (* "x y r" *)

Definition accepts (o : outcome) : bool := match o with Parsed _ => true | _ => false end.

Lemma refuted_probe :
  ctx_constant g_probe = false /\
  accepts (run g_probe c_default (fun _ _ => None) false 100 in_probe) = true /\
  run g_probe c_default (fun _ _ => None) true 100 in_probe = SyntaxErr 1.
Proof. vm_compute. repeat split. Qed.
