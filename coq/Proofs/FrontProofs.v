(* C23 — proofs about the front-end model. *)
From TxV Require Import Core.Base Model.FrontDefs Model.Front.
From TxV Require Proofs.KindsProofs.

Definition is_crash (o : outcome) : bool := match o with Crash _ => true | _ => false end.

(* ---------------------------------------------------------------- except clauses *)
Lemma catches_of_type cl e T : mem_str T (cl_types cl) = true -> In T (x_mro e) -> catches cl e = true.
Proof.
  intros Hm Hin. unfold catches. apply existsb_exists. exists T. split.
  - apply mem_str_In. exact Hm.
  - apply mem_str_In. exact Hin.
Qed.

(* a clause list that `handles` class T turns every exception with T in its MRO into "swallowed" or a TextXError *)
Lemma dispatch_handles cls T e w : handles cls T = true -> In T (x_mro e) ->
  dispatch cls e w = DSwallowed \/ exists c, dispatch cls e w = DOut (TxErr c w).
Proof.
  induction cls as [|cl rest IH]; intros Hh Hin; [discriminate|].
  cbn [handles] in Hh. apply andb_true_iff in Hh as [Hsafe Hor].
  cbn [dispatch]. destruct (catches cl e) eqn:Hc.
  - destruct (cl_action cl) as [|[n|] c]; [left; reflexivity | discriminate | right; exists c; reflexivity].
  - apply orb_true_iff in Hor as [Hm|Hr]; [|exact (IH Hr Hin)].
    rewrite (catches_of_type cl e T Hm Hin) in Hc. discriminate.
Qed.

Lemma dispatch_no_crash cls T e w : handles cls T = true -> In T (x_mro e) -> is_crash (out_of (dispatch cls e w)) = false.
Proof.
  intros Hh Hin. destruct (dispatch_handles cls T e w Hh Hin) as [-> | [c ->]]; reflexivity.
Qed.

(* ---------------------------------------------------------------- cfg_safe, unpacked *)
Record safe_facts (c : cfg) : Prop := {
  sf_ws : exists cl, c_ws_guard c = Some cl;
  sf_re : handles (c_re_clauses c) n_Exception = true;
  sf_str_u : handles (c_str_clauses c) n_UnicodeDecodeError = true;
  sf_str_i : handles (c_str_clauses c) n_IndexError = true;
  sf_nomatch : handles (c_nomatch_clauses c) n_NoMatch = true;
  sf_key : handles (c_keyerror_clauses c) n_KeyError = true;
  sf_contains : handles (c_contains_clauses c) n_KeyError = true;
  sf_ugroup : c_ugroup_guard c = true;
  sf_alias : exists cl, c_alias_guard c = Some cl;
  sf_mmm : c_mmm_getitem c = true;
  sf_ruletype : c_ruletype_by_class c = true }.

Lemma cfg_safe_parts c : cfg_safe c = true -> safe_facts c.
Proof.
  unfold cfg_safe. intro H.
  repeat (apply andb_true_iff in H; destruct H as [H ?]).
  constructor; try assumption.
  - destruct (c_ws_guard c) as [cl|]; [exists cl; reflexivity | discriminate].
  - destruct (c_alias_guard c) as [cl|]; [exists cl; reflexivity | discriminate].
Qed.

Lemma key_in_mro : In n_KeyError (x_mro exc_KeyError).
Proof. left. reflexivity. Qed.

(* ---------------------------------------------------------------- first pass *)
Lemma check_param_no_crash c p : (exists cl, c_ws_guard c = Some cl) -> is_crash (check_param c p) = false.
Proof.
  intros [cl Hg]. destruct p as [n v]. unfold check_param.
  destruct (negb (mem_str n (c_params c))); [reflexivity|].
  destruct (str_eqb n s_split && negb (is_str v)); [reflexivity|].
  destruct (str_eqb n s_split && match v with PStr [] => true | _ => false end); [reflexivity|].
  destruct (str_eqb n s_ws && negb (is_str v)); [|reflexivity].
  rewrite Hg. reflexivity.
Qed.

Lemma check_params_no_crash c ps : (exists cl, c_ws_guard c = Some cl) -> is_crash (check_params c ps) = false.
Proof.
  intro Hg. induction ps as [|p ps IH]; [reflexivity|].
  cbn [check_params]. pose proof (check_param_no_crash c (norm_param p) Hg) as Hp.
  destruct (check_param c (norm_param p)); [exact IH | reflexivity | discriminate].
Qed.

Lemma step_no_crash c o user st e : cfg_safe c = true -> oracle_wf o -> is_crash (snd (step c o user st e)) = false.
Proof.
  intros Hs [Hre [Hdec _]]. destruct (cfg_safe_parts c Hs).
  destruct e as [n|ps|s|s|cls|op hm onr|a op hm|br bm]; cbn [step snd].
  - unfold visit_rule_name. destruct (mem_str n user); [destruct (mem_str n (s_used st))|]; reflexivity.
  - apply check_params_no_crash; assumption.
  - unfold visit_str_match. destruct (o_decode o s) as [e|] eqn:E; [|reflexivity].
    destruct (Hdec s e E) as [Hu|Hi].
    + exact (dispatch_no_crash _ _ e WEscape sf_str_u0 Hu).
    + exact (dispatch_no_crash _ _ e WEscape sf_str_i0 Hi).
  - unfold visit_re_match. destruct (o_regex o s) as [e|] eqn:E; [|reflexivity].
    exact (dispatch_no_crash _ _ e WRegex sf_re0 (Hre s e E)).
  - unfold visit_obj_ref. destruct (mem_str cls (c_base_names c) && negb (str_eqb cls s_OBJECT)); reflexivity.
  - unfold visit_repeatable_expr. rewrite sf_ugroup0. destruct op; try reflexivity.
    + destruct hm; reflexivity.
    + rewrite andb_false_r. reflexivity.
  - unfold visit_assignment.
    destruct (mem_str a (s_attrs st) && match op with OpOpt => true | _ => false end); [reflexivity|].
    destruct (hm && match op with OpOpt | OpEq => true | _ => false end); reflexivity.
  - destruct br; [reflexivity|]. destruct bm; [|reflexivity]. destruct (c_boolmany_check c); reflexivity.
Qed.

Lemma run_events_no_crash c o user es : cfg_safe c = true -> oracle_wf o ->
  forall st, is_crash (run_events c o user st es) = false.
Proof.
  intros Hs Ho. induction es as [|e es IH]; intro st; [reflexivity|].
  cbn [run_events]. pose proof (step_no_crash c o user st e Hs Ho) as He.
  destruct (step c o user st e) as [st' r]. cbn [snd] in He.
  destruct r; [apply IH | reflexivity | discriminate].
Qed.

(* ---------------------------------------------------------------- rule references *)
Lemma last_def_name n rs r : last_def n rs = Some r -> In n (map r_name rs).
Proof.
  revert r. induction rs as [|r0 rs IH]; intros r H; [discriminate|].
  cbn [last_def] in H. cbn [map In].
  destruct (last_def n rs) as [r'|] eqn:E.
  - right. exact (IH r' eq_refl).
  - destruct (str_eqb (r_name r0) n) eqn:En; [|discriminate].
    left. apply str_eqb_eq. exact En.
Qed.

Lemma lookup_alias_name c o t n tg : lookup_rule c o t n = LAlias tg -> In n (map r_name (t_rules t)).
Proof.
  unfold lookup_rule. destruct (split_dot n) as [[ns nm]|].
  - destruct (qualified c o (t_stmts t) ns nm); [discriminate | | discriminate].
    destruct (dispatch (c_contains_clauses c) exc_KeyError WRuleRef); discriminate.
  - destruct (last_def n (t_rules t)) as [r|] eqn:E.
    + intros _. exact (last_def_name n (t_rules t) r E).
    + destruct (mem_str n (c_base_names c)); discriminate.
Qed.

Lemma propagate_no_crash e w : In n_TextXError (x_mro e) -> is_crash (propagate e w) = false.
Proof. intro H. unfold propagate. apply mem_str_In in H. rewrite H. reflexivity. Qed.

Lemma qualified_err_no_crash c o ss ns nm e : c_mmm_getitem c = true -> oracle_wf o ->
  qualified c o ss ns nm = QErr e -> is_crash e = false.
Proof.
  intros Hm [_ [_ Hext]]. unfold qualified. destruct (lang_of ns ss) as [l|].
  - destruct (o_ext o l nm) as [x| | |found] eqn:E; try discriminate.
    + intro H. injection H as <-. exact (propagate_no_crash x WRegistration (Hext l nm x E)).
    + rewrite Hm. destruct found; discriminate.
  - destruct (str_eqb ns s_base && mem_str nm (c_base_names c)); discriminate.
Qed.

Lemma lookup_err_no_crash c o t n e : c_mmm_getitem c = true -> handles (c_contains_clauses c) n_KeyError = true ->
  oracle_wf o -> lookup_rule c o t n = LErr e -> is_crash e = false.
Proof.
  intros Hm Hc Ho. unfold lookup_rule. destruct (split_dot n) as [[ns nm]|].
  - destruct (qualified c o (t_stmts t) ns nm) as [f| |e'] eqn:Eq; try discriminate.
    + destruct (dispatch_handles _ _ exc_KeyError WRuleRef Hc key_in_mro) as [-> | [cl ->]]; [discriminate|].
      intro H. injection H as <-. reflexivity.
    + intro H. injection H as <-. exact (qualified_err_no_crash c o _ ns nm e' Hm Ho Eq).
  - destruct (last_def n (t_rules t)) as [r|].
    + destruct (alias_of r); discriminate.
    + destruct (mem_str n (c_base_names c)); discriminate.
Qed.

(* With the alias guard, following a reference needs at most one step per rule of the grammar:
   the chain holds distinct rule names. *)
Lemma follow_no_crash c o t cl : c_alias_guard c = Some cl -> c_mmm_getitem c = true ->
  handles (c_contains_clauses c) n_KeyError = true -> oracle_wf o ->
  forall fuel chain n, NoDup chain -> incl chain (map r_name (t_rules t)) ->
    fuel + length chain > length (t_rules t) -> is_crash (follow c o t fuel chain n) = false.
Proof.
  intros Hg Hm Hc Ho. induction fuel as [|f IH]; intros chain n Hnd Hincl Hlen.
  - exfalso. pose proof (NoDup_incl_length Hnd Hincl) as Hl. rewrite map_length in Hl. lia.
  - cbn [follow]. destruct (lookup_rule c o t n) as [| |tg|e] eqn:El; try reflexivity.
    + rewrite Hg. destruct (mem_str n chain) eqn:Em; [reflexivity|].
      apply IH.
      * constructor; [|exact Hnd]. intro Hin. apply mem_str_In in Hin. congruence.
      * intros x [Hx|Hx]; [subst x; exact (lookup_alias_name c o t n tg El) | exact (Hincl x Hx)].
      * cbn [length]. lia.
    + exact (lookup_err_no_crash c o t n e Hm Hc Ho El).
Qed.

(* whatever the budget, the only crash rule-reference resolution can end in is the exhausted budget *)
Lemma follow_crash_is_recursion c o t cl : c_alias_guard c = Some cl -> c_mmm_getitem c = true ->
  handles (c_contains_clauses c) n_KeyError = true -> oracle_wf o ->
  forall fuel chain n x, follow c o t fuel chain n = Crash x -> x = n_RecursionError.
Proof.
  intros Hg Hm Hc Ho. induction fuel as [|f IH]; intros chain n x H.
  - cbn in H. injection H as <-. reflexivity.
  - cbn [follow] in H. destruct (lookup_rule c o t n) as [| |tg|e] eqn:El; try discriminate.
    + rewrite Hg in H. destruct (mem_str n chain); [discriminate | exact (IH _ _ _ H)].
    + pose proof (lookup_err_no_crash c o t n e Hm Hc Ho El) as Hn. rewrite H in Hn. discriminate.
Qed.

Lemma first_error_in l : first_error l = Ok \/ In (first_error l) l.
Proof.
  induction l as [|o l IH]; [left; reflexivity|].
  cbn [first_error]. destruct o; [destruct IH as [IH|IH]; [left; exact IH | right; right; exact IH] | right; left; reflexivity ..].
Qed.

Lemma first_error_no_crash l : (forall o, In o l -> is_crash o = false) -> is_crash (first_error l) = false.
Proof.
  intro H. destruct (first_error_in l) as [E|E]; [rewrite E; reflexivity | exact (H _ E)].
Qed.

Lemma resolve_rule_refs_no_crash c o t fuel : cfg_safe c = true -> oracle_wf o -> fuel > length (t_rules t) ->
  is_crash (resolve_rule_refs c o fuel t) = false.
Proof.
  intros Hs Ho Hf. destruct (cfg_safe_parts c Hs). destruct sf_alias0 as [cl Hg].
  unfold resolve_rule_refs. apply first_error_no_crash. intros x Hx.
  apply in_map_iff in Hx as [n [<- _]].
  apply (follow_no_crash c o t cl Hg sf_mmm0 sf_contains0 Ho); [constructor | intros x [] | cbn [length]; lia].
Qed.

Lemma resolve_rule_refs_crash_is_recursion c o t fuel x : cfg_safe c = true -> oracle_wf o ->
  resolve_rule_refs c o fuel t = Crash x -> x = n_RecursionError.
Proof.
  intros Hs Ho H. destruct (cfg_safe_parts c Hs). destruct sf_alias0 as [cl Hg].
  unfold resolve_rule_refs in H. destruct (first_error_in (map (follow c o t fuel []) (all_refs (t_rules t)))) as [E|E].
  - rewrite E in H. discriminate.
  - rewrite H in E. apply in_map_iff in E as [n [E _]].
    exact (follow_crash_is_recursion c o t cl Hg sf_mmm0 sf_contains0 Ho fuel [] n x E).
Qed.

(* the rule-kind fixpoint ends for every grammar (C03: Proofs/KindsProofs.kinds_correct) *)
Lemma rule_kinds_fixpoint_ok c t : rule_kinds_fixpoint c t = Ok.
Proof.
  unfold rule_kinds_fixpoint. destruct (KindsProofs.kinds_correct (to_kinds c t)) as [s [H _]]. rewrite H. reflexivity.
Qed.

Lemma determine_rule_types_no_crash c o t fuel : cfg_safe c = true -> determine_rule_types c o fuel t = Ok.
Proof.
  intro Hs. destruct (cfg_safe_parts c Hs).
  unfold determine_rule_types. rewrite sf_ruletype0, rule_kinds_fixpoint_ok. reflexivity.
Qed.

(* ---------------------------------------------------------------- class references *)
Lemma resolve_cls_name_no_crash c o t n : cfg_safe c = true -> oracle_wf o -> is_crash (resolve_cls_name c o t n) = false.
Proof.
  intros Hs Ho. destruct (cfg_safe_parts c Hs).
  pose proof (dispatch_no_crash _ _ exc_KeyError WClsRef sf_key0 key_in_mro) as Hh.
  unfold resolve_cls_name. destruct (split_dot n) as [[ns nm]|].
  - destruct (qualified c o (t_stmts t) ns nm) as [f| |e] eqn:Eq; [reflexivity | exact Hh |].
    exact (qualified_err_no_crash c o _ ns nm e sf_mmm0 Ho Eq).
  - destruct (last_def n (t_rules t)); [reflexivity|].
    destruct (mem_str n (c_base_names c)); [reflexivity | exact Hh].
Qed.

Lemma resolve_cls_refs_no_crash c o t : cfg_safe c = true -> oracle_wf o -> is_crash (resolve_cls_refs c o t) = false.
Proof.
  intros Hs Ho. unfold resolve_cls_refs, cls_errors. apply first_error_no_crash. intros x Hx.
  apply in_map_iff in Hx as [a [<- _]]. apply resolve_cls_name_no_crash; assumption.
Qed.

Lemma validate_user_no_crash c user rs : is_crash (validate_user_classes c user rs) = false.
Proof. unfold validate_user_classes. destruct (forallb _ user); reflexivity. Qed.

(* ---------------------------------------------------------------- the whole front-end *)
Lemma seq_out_no_crash a b : is_crash a = false -> is_crash b = false -> is_crash (seq_out a b) = false.
Proof. destruct a; cbn; intros; try assumption; try reflexivity. Qed.

Theorem front_total c o user fuel g :
  cfg_safe c = true -> oracle_wf o -> parse_wf g -> has_import g = false -> fuel > nrules g ->
  is_crash (front c o user fuel g) = false.
Proof.
  intros Hs Ho Hp Hi Hf. destruct g as [e|t]; cbn [front].
  - destruct (cfg_safe_parts c Hs). exact (dispatch_no_crash _ _ e WParse sf_nomatch0 Hp).
  - cbn [has_import] in Hi. cbn [nrules] in Hf.
    apply seq_out_no_crash; [unfold visit_stmts; rewrite Hi; reflexivity|].
    apply seq_out_no_crash; [apply run_events_no_crash; assumption|].
    apply seq_out_no_crash; [apply resolve_rule_refs_no_crash; assumption|].
    rewrite (determine_rule_types_no_crash c o t fuel Hs). cbn [seq_out].
    apply seq_out_no_crash; [apply resolve_cls_refs_no_crash; assumption | apply validate_user_no_crash].
Qed.

Corollary front_never_crashes c o user fuel g k :
  cfg_safe c = true -> oracle_wf o -> parse_wf g -> has_import g = false -> fuel > nrules g ->
  front c o user fuel g <> Crash k.
Proof.
  intros Hs Ho Hp Hi Hf E. pose proof (front_total c o user fuel g Hs Ho Hp Hi Hf) as H. rewrite E in H. discriminate.
Qed.

Lemma seq_out_crash a b x : seq_out a b = Crash x -> a = Crash x \/ (a = Ok /\ b = Crash x).
Proof. destruct a; cbn; intro H; [right; split; [reflexivity | exact H] | discriminate | left; exact H]. Qed.

(* For EVERY budget: the only exception other than a TextXError is RecursionError, and only when the budget
   does not exceed the number of rules. *)
Theorem front_crash_only_recursion c o user fuel g x :
  cfg_safe c = true -> oracle_wf o -> parse_wf g -> has_import g = false ->
  front c o user fuel g = Crash x -> x = n_RecursionError /\ fuel <= nrules g.
Proof.
  intros Hs Ho Hp Hi H. split.
  - destruct g as [e|t]; cbn [front] in H.
    + destruct (cfg_safe_parts c Hs). pose proof (dispatch_no_crash _ _ e WParse sf_nomatch0 Hp) as Hn.
      rewrite H in Hn. discriminate.
    + cbn [has_import] in Hi.
      apply seq_out_crash in H as [H|[_ H]]; [unfold visit_stmts in H; rewrite Hi in H; discriminate|].
      apply seq_out_crash in H as [H|[_ H]].
      { pose proof (run_events_no_crash c o user (events t) Hs Ho init_state) as Hn. rewrite H in Hn. discriminate. }
      apply seq_out_crash in H as [H|[_ H]]; [exact (resolve_rule_refs_crash_is_recursion c o t fuel x Hs Ho H)|].
      rewrite (determine_rule_types_no_crash c o t fuel Hs) in H. cbn [seq_out] in H.
      apply seq_out_crash in H as [H|[_ H]].
      { pose proof (resolve_cls_refs_no_crash c o t Hs Ho) as Hn. rewrite H in Hn. discriminate. }
      pose proof (validate_user_no_crash c user (t_rules t)) as Hn. rewrite H in Hn. discriminate.
  - destruct (le_lt_dec fuel (nrules g)) as [Hle|Hgt]; [exact Hle|].
    exfalso. exact (front_never_crashes c o user fuel g x Hs Ho Hp Hi Hgt H).
Qed.

(* the outcome does not depend on the recursion budget once it exceeds the number of rules *)
Lemma follow_fuel_irrelevant c o t cl : c_alias_guard c = Some cl ->
  forall f1 f2 chain n, NoDup chain -> incl chain (map r_name (t_rules t)) ->
    f1 + length chain > length (t_rules t) -> f2 + length chain > length (t_rules t) ->
    follow c o t f1 chain n = follow c o t f2 chain n.
Proof.
  intro Hg. induction f1 as [|f1 IH]; intros f2 chain n Hnd Hincl H1 H2.
  - exfalso. pose proof (NoDup_incl_length Hnd Hincl) as Hl. rewrite map_length in Hl. lia.
  - destruct f2 as [|f2].
    + exfalso. pose proof (NoDup_incl_length Hnd Hincl) as Hl. rewrite map_length in Hl. lia.
    + cbn [follow]. destruct (lookup_rule c o t n) as [| |tg|e] eqn:El; try reflexivity.
      rewrite Hg. destruct (mem_str n chain) eqn:Em; [reflexivity|].
      apply IH.
      * constructor; [|exact Hnd]. intro Hin. apply mem_str_In in Hin. congruence.
      * intros x [Hx|Hx]; [subst x; exact (lookup_alias_name c o t n tg El) | exact (Hincl x Hx)].
      * cbn [length]. lia.
      * cbn [length]. lia.
Qed.

Theorem front_fuel_irrelevant c o user g f1 f2 :
  cfg_safe c = true -> f1 > nrules g -> f2 > nrules g -> front c o user f1 g = front c o user f2 g.
Proof.
  intros Hs H1 H2. destruct g as [e|t]; [reflexivity|]. cbn [front nrules] in *.
  destruct (cfg_safe_parts c Hs). destruct sf_alias0 as [cl Hg].
  rewrite !(determine_rule_types_no_crash c o t _ Hs).
  f_equal. f_equal. f_equal. unfold resolve_rule_refs. f_equal.
  apply map_ext. intro n.
  apply (follow_fuel_irrelevant c o t cl Hg); [constructor | intros x [] | cbn [length]; lia | cbn [length]; lia].
Qed.

(* ---------------------------------------------------------------- the visiting order is irrelevant *)
(* _resolve_rule_refs / _resolve_cls_refs reach the references in an order (a depth-first walk over mutable
   nodes, with repeats) that the model does not transcribe.  What an order can change is only WHICH error of
   the phase is reported, never the class of the outcome. *)
Inductive oclass := ClOk | ClTextX | ClCrash.
Definition class_of (o : outcome) : oclass := match o with Ok => ClOk | TxErr _ _ => ClTextX | Crash _ => ClCrash end.

Lemma first_error_ok_iff l : first_error l = Ok <-> forall x, In x l -> x = Ok.
Proof.
  induction l as [|o l IH]; cbn [first_error].
  - split; [intros _ x [] | reflexivity].
  - destruct o.
    + rewrite IH. split; [intros H x [<-|Hx]; [reflexivity | exact (H x Hx)] | intros H x Hx; exact (H x (or_intror Hx))].
    + split; [discriminate | intro H; exact (H _ (or_introl eq_refl))].
    + split; [discriminate | intro H; exact (H _ (or_introl eq_refl))].
Qed.

Lemma class_of_first_error l : (forall x, In x l -> is_crash x = false) ->
  class_of (first_error l) = ClOk \/ class_of (first_error l) = ClTextX.
Proof.
  intro H. pose proof (first_error_no_crash l H) as Hn. destruct (first_error l); [left | right | discriminate]; reflexivity.
Qed.

Lemma first_error_class_same_set (f : list N -> outcome) l1 l2 :
  (forall n, is_crash (f n) = false) -> (forall n, In n l1 <-> In n l2) ->
  class_of (first_error (map f l1)) = class_of (first_error (map f l2)).
Proof.
  intros Hf Hset.
  assert (Hnc : forall l x, In x (map f l) -> is_crash x = false).
  { intros l x Hx. apply in_map_iff in Hx as [n [<- _]]. apply Hf. }
  assert (Hiff : first_error (map f l1) = Ok <-> first_error (map f l2) = Ok).
  { rewrite !first_error_ok_iff. split; intros H x Hx; apply in_map_iff in Hx as [n [<- Hn]];
      apply H; apply in_map_iff; exists n; (split; [reflexivity | apply Hset; exact Hn]). }
  destruct (first_error (map f l1)) eqn:E1; destruct (first_error (map f l2)) eqn:E2; try reflexivity.
  - destruct Hiff as [H _]. specialize (H eq_refl). discriminate.
  - pose proof (first_error_no_crash _ (Hnc l2)) as Hn. rewrite E2 in Hn. discriminate.
  - destruct Hiff as [_ H]. specialize (H eq_refl). discriminate.
  - pose proof (first_error_no_crash _ (Hnc l2)) as Hn. rewrite E2 in Hn. discriminate.
  - pose proof (first_error_no_crash _ (Hnc l1)) as Hn. rewrite E1 in Hn. discriminate.
  - pose proof (first_error_no_crash _ (Hnc l1)) as Hn. rewrite E1 in Hn. discriminate.
Qed.

(* the phase run over the references in the given order *)
Definition resolve_in_order (c : cfg) (o : oracles) (fuel : nat) (t : tree) (refs : list (list N)) : outcome :=
  first_error (map (follow c o t fuel []) refs).
Definition resolve_cls_in_order (c : cfg) (o : oracles) (t : tree) (types : list (list N)) : outcome :=
  first_error (map (resolve_cls_name c o t) types).

Theorem resolve_order_irrelevant c o fuel t refs : cfg_safe c = true -> oracle_wf o -> fuel > length (t_rules t) ->
  (forall n, In n refs <-> In n (all_refs (t_rules t))) ->
  class_of (resolve_in_order c o fuel t refs) = class_of (resolve_rule_refs c o fuel t).
Proof.
  intros Hs Ho Hf Hset. unfold resolve_in_order, resolve_rule_refs.
  apply first_error_class_same_set; [|exact Hset].
  intro n. destruct (cfg_safe_parts c Hs). destruct sf_alias0 as [cl Hg].
  apply (follow_no_crash c o t cl Hg sf_mmm0 sf_contains0 Ho); [constructor | intros x [] | cbn [length]; lia].
Qed.

Theorem resolve_cls_order_irrelevant c o t types : cfg_safe c = true -> oracle_wf o ->
  (forall n, In n types <-> In n (map snd (flat_map attrs_rule (effective (t_rules t))))) ->
  class_of (resolve_cls_in_order c o t types) = class_of (resolve_cls_refs c o t).
Proof.
  intros Hs Ho Hset. unfold resolve_cls_in_order, resolve_cls_refs, cls_errors.
  rewrite <- (map_map snd (resolve_cls_name c o t)).
  apply first_error_class_same_set; [|exact Hset].
  intro n. apply resolve_cls_name_no_crash; assumption.
Qed.

(* Without the guard a self-alias exhausts every recursion budget. *)
Lemma follow_self_alias_crashes c o t n : c_alias_guard c = None -> lookup_rule c o t n = LAlias n ->
  forall fuel chain, follow c o t fuel chain n = Crash n_RecursionError.
Proof.
  intros Hg Hl. induction fuel as [|f IH]; intro chain; [reflexivity|].
  cbn [follow]. rewrite Hl, Hg. apply IH.
Qed.

(* ---------------------------------------------------------------- Witnesses *)
Definition mk_exc (n : list N) (bases : list (list N)) : exc := {| x_name := n; x_mro := n :: bases |}.
Definition n_error : list N := [101;114;114;111;114]%N.                                             (* re.error *)
Definition n_OverflowError : list N := [79;118;101;114;102;108;111;119;69;114;114;111;114]%N.
Definition n_ArithmeticError : list N := [65;114;105;116;104;109;101;116;105;99;69;114;114;111;114]%N.
Definition n_ValueError : list N := [86;97;108;117;101;69;114;114;111;114]%N.
Definition n_RuntimeError : list N := [82;117;110;116;105;109;101;69;114;114;111;114]%N.
Definition exc_re_error := mk_exc n_error [n_Exception; n_BaseException].
Definition exc_overflow := mk_exc n_OverflowError [n_ArithmeticError; n_Exception; n_BaseException].
Definition exc_recursion := mk_exc n_RecursionError [n_RuntimeError; n_Exception; n_BaseException].
Definition exc_unicode := mk_exc n_UnicodeDecodeError [[85;110;105;99;111;100;101;69;114;114;111;114]%N; n_ValueError; n_Exception; n_BaseException].
Definition exc_nomatch := mk_exc n_NoMatch [n_Exception; n_BaseException].
Definition exc_registration := mk_exc n_TextXRegistrationError [n_TextXError; n_Exception; n_BaseException].

Definition all_ok : oracles := {| o_regex := fun _ => None; o_decode := fun _ => None; o_ext := fun _ _ => ExtMissing |}.
Definition bad_regex : oracles := {| o_regex := fun _ => Some exc_re_error; o_decode := fun _ => None; o_ext := fun _ _ => ExtMissing |}.
Definition overflow_regex : oracles := {| o_regex := fun _ => Some exc_overflow; o_decode := fun _ => None; o_ext := fun _ _ => ExtMissing |}.
Definition bad_escape : oracles := {| o_regex := fun _ => None; o_decode := fun _ => Some exc_unicode; o_ext := fun _ _ => ExtMissing |}.
Definition textx_lang : oracles := {| o_regex := fun _ => None; o_decode := fun _ => None; o_ext := fun _ _ => ExtBuiltin false |}.
Definition lang_found : oracles := {| o_regex := fun _ => None; o_decode := fun _ => None; o_ext := fun _ _ => ExtFound |}.
Definition lang_unregistered : oracles := {| o_regex := fun _ => None; o_decode := fun _ => None; o_ext := fun _ _ => ExtLangRaises exc_registration |}.

Lemma all_ok_wf : oracle_wf all_ok.
Proof. repeat split; intros; discriminate. Qed.
Lemma overflow_regex_wf : oracle_wf overflow_regex.
Proof.
  repeat split; intros; try discriminate.
  cbn in H. injection H as <-. right. right. left. reflexivity.
Qed.

Definition nA : list N := [65]%N.
Definition nB : list N := [66]%N.
Definition nC : list N := [67]%N.
Definition rule1 (n : list N) (ps : option (list (list N * option (list N)))) (e : expr) rep : rule :=
  {| r_name := n; r_params := ps; r_body := [[RX e rep false]] |}.
Definition gram (ss : list stmt) (rs : list rule) : ginput := GTree {| t_stmts := ss; t_rules := rs |}.

Definition g_regex := gram [] [rule1 nA None (EMatch false (SRe [40]%N)) None].                     (* A: /(/;            *)
Definition g_ws := gram [] [rule1 nA (Some [(s_ws, None)]) (EMatch false (SStr [97]%N)) None].     (* A[ws]: 'a';        *)
Definition g_ugroup := gram [] [rule1 nA None (ERef false nB) (Some (RHash, None));
                                rule1 nB None (EMatch false (SStr [120]%N)) None].                 (* A: B#; B: 'x';     *)
Definition g_self := gram [] [rule1 nA None (ERef false nA) None].                                 (* A: A;              *)
Definition g_cycle := gram [] [rule1 nA None (ERef false nB) None; rule1 nB None (ERef false nA) None]. (* A: B; B: A;   *)
Definition g_escape := gram [] [rule1 nA None (EMatch false (SStr [92;78;123;102;111;111;125]%N)) None]. (* A: '\N{foo}'; *)
Definition s_textx : list N := [116;101;120;116;120]%N.
Definition g_textx := gram [SReference s_textx None]
  [rule1 nA None (EAsg [97]%N OpEq (ARef (RObj (s_textx ++ [46;70;111;111])%N None false)) None) None]. (* reference textx  A: a=[textx.Foo]; *)
Definition g_import := gram [SImport] [rule1 nA None (EMatch false (SStr [97]%N)) None].           (* import foo  A: 'a'; *)

(* qualified references (rule references may be fully qualified names) *)
Definition s_lang : list N := [108]%N.                                                              (* l *)
Definition s_Thing : list N := [84]%N.                                                             (* T *)
Definition g_qualified_alias := gram [SReference s_lang None]
  [rule1 nA None (ERef false (s_lang ++ [46] ++ s_Thing)%N) None].                                 (* reference l  A: l.T;  *)
Definition g_unknown_ns := gram []
  [rule1 nA None (EAsg [120]%N OpEq (ARef (RRule [116;46;73]%N)) None) None].                       (* A: x=t.I;            *)
Definition g_boolmany := gram []
  [{| r_name := nA; r_params := None;
      r_body := [[RX (EAsg [99]%N OpOpt (ARef (RRule nA)) None) None false];
                 [RX (ERef false nA) None false; RX (EAsg [99]%N OpStar (ARef (RRule nA)) None) None false]] |}]. (* A: c?=A | A c*=A; *)
(* A: C B; B: B;   -- an undefined rule before an alias cycle *)
Definition t_undef_cycle : tree := {| t_stmts := [];
  t_rules := [{| r_name := nA; r_params := None; r_body := [[RX (ERef false nC) None false; RX (ERef false nB) None false]] |};
              rule1 nB None (ERef false nB) None] |}.
Definition g_plain := gram [] [rule1 nA None (EMatch false (SStr [97]%N)) None; rule1 nA None (EMatch false (SStr [98]%N)) None]. (* A: 'a'; A: 'b'; *)

(* A: B | C;  B: x=INT;  C: 'c'; *)
Definition t_kinds : tree := {| t_stmts := [];
  t_rules := [{| r_name := nA; r_params := None; r_body := [[RX (ERef false nB) None false]; [RX (ERef false nC) None false]] |};
              rule1 nB None (EAsg [120]%N OpEq (ARef (RRule [73;78;84]%N)) None) None;
              rule1 nC None (EMatch false (SStr [99]%N)) None] |}.

(* A: B; B: C; C: 'x';  -- two alias hops *)
Definition g_self_chain := gram [] [rule1 nA None (ERef false nB) None; rule1 nB None (ERef false nC) None;
                                    rule1 nC None (EMatch false (SStr [120]%N)) None].

Lemma pinned_self_alias_crashes : forall fuel, front pinned_cfg all_ok [] fuel g_self = Crash n_RecursionError.
Proof.
  intro fuel. unfold front, g_self, gram. cbn [t_stmts t_rules].
  replace (visit_stmts []) with Ok by reflexivity.
  replace (run_events pinned_cfg all_ok [] init_state _) with Ok by (vm_compute; reflexivity).
  cbn [seq_out]. unfold resolve_rule_refs. cbn [t_rules].
  replace (all_refs _) with [nA; nA] by (vm_compute; reflexivity).
  cbn [map first_error].
  rewrite (follow_self_alias_crashes pinned_cfg all_ok {| t_stmts := []; t_rules := [rule1 nA None (ERef false nA) None] |} nA eq_refl eq_refl fuel []).
  reflexivity.
Qed.

(* ---------------------------------------------------------------- the alias guard is conservative *)
(* The same source facts with other answers to: is a rule found in its own alias chain rejected / which except
   clauses does __contains__ have / is the alias target class taken from the rule. *)
Definition set_facts (c : cfg) (g : option txclass) (cc : list clause) (rb : bool) (rc : list clause) : cfg :=
  {| c_params := c_params c; c_param_cls := c_param_cls c; c_split_cls := c_split_cls c; c_ws_guard := c_ws_guard c;
     c_re_clauses := rc; c_str_clauses := c_str_clauses c; c_nomatch_clauses := c_nomatch_clauses c;
     c_keyerror_clauses := c_keyerror_clauses c; c_contains_clauses := cc;
     c_ugroup_guard := c_ugroup_guard c; c_alias_guard := g;
     c_mmm_getitem := c_mmm_getitem c; c_ruletype_by_class := rb; c_boolmany_check := c_boolmany_check c;
     c_user_redef_cls := c_user_redef_cls c; c_user_unused_cls := c_user_unused_cls c;
     c_base_names := c_base_names c |}.
Definition with_alias_guard (c : cfg) (g : option txclass) : cfg :=
  set_facts c g (c_contains_clauses c) (c_ruletype_by_class c) (c_re_clauses c).
Definition with_contains (c : cfg) (cc : list clause) : cfg :=
  set_facts c (c_alias_guard c) cc (c_ruletype_by_class c) (c_re_clauses c).
Definition with_ruletype_by_class (c : cfg) (b : bool) : cfg :=
  set_facts c (c_alias_guard c) (c_contains_clauses c) b (c_re_clauses c).
Definition with_re_clauses (c : cfg) (rc : list clause) : cfg :=
  set_facts c (c_alias_guard c) (c_contains_clauses c) (c_ruletype_by_class c) rc.

Lemma lookup_with_guard c g o t n : lookup_rule (with_alias_guard c g) o t n = lookup_rule c o t n.
Proof. reflexivity. Qed.

(* a set of alias rules closed under "target of" : the unguarded resolution never leaves it *)
Lemma follow_diverges c o t (S : list (list N)) : c_alias_guard c = None ->
  (forall m, In m S -> exists tg, lookup_rule c o t m = LAlias tg /\ In tg S) ->
  forall fuel chain m, In m S -> follow c o t fuel chain m = Crash n_RecursionError.
Proof.
  intros Hg Hclosed. induction fuel as [|f IH]; intros chain m Hm; [reflexivity|].
  cbn [follow]. destruct (Hclosed m Hm) as [tg [Hl Ht]]. rewrite Hl, Hg. apply IH. exact Ht.
Qed.

(* chain = the alias rules being followed, most recent first; each one's target is the next more recent
   one, the head's target is the name being looked up *)
Fixpoint chain_ok (c : cfg) (o : oracles) (t : tree) (chain : list (list N)) (cur : list N) : Prop :=
  match chain with
  | [] => True
  | x :: rest => lookup_rule c o t x = LAlias cur /\ chain_ok c o t rest x
  end.

Lemma chain_segment_closed c o t : forall p cur n rest,
  chain_ok c o t (p ++ n :: rest) cur ->
  forall m, In m (p ++ [n]) -> exists tg, lookup_rule c o t m = LAlias tg /\ (In tg (p ++ [n]) \/ tg = cur).
Proof.
  induction p as [|x p IH]; intros cur n rest Hok m Hm.
  - cbn in Hok, Hm. destruct Hok as [Hl _]. destruct Hm as [ <- | [] ]. exists cur. split; [exact Hl | right; reflexivity].
  - cbn [app chain_ok] in Hok. destruct Hok as [Hl Hrest]. cbn [app In] in Hm. destruct Hm as [ <- | Hm ].
    + exists cur. split; [exact Hl | right; reflexivity].
    + destruct (IH x n rest Hrest m Hm) as [tg [Ht [Hin | -> ]]].
      * exists tg. split; [exact Ht | left; right; exact Hin].
      * exists x. split; [exact Ht | left; left; reflexivity].
Qed.

Lemma follow_guard_conservative c o t cl : c_alias_guard c = None ->
  forall fuel chain n, chain_ok c o t chain n ->
    follow c o t fuel chain n = Crash n_RecursionError
    \/ follow c o t fuel chain n = follow (with_alias_guard c (Some cl)) o t fuel chain n.
Proof.
  intro Hg. induction fuel as [|f IH]; intros chain n Hok; [left; reflexivity|].
  cbn [follow]. rewrite lookup_with_guard. destruct (lookup_rule c o t n) as [| |tg|e] eqn:El; try (right; reflexivity).
  rewrite Hg. cbn [c_alias_guard with_alias_guard].
  destruct (mem_str n chain) eqn:Em.
  - (* the guard fires: n is in its own chain, so the rules from n to the head of the chain form a cycle *)
    left. apply mem_str_In in Em. apply in_split in Em as [p [rest ->]].
    apply (follow_diverges c o t (p ++ [n]) Hg).
    + intros m Hm. destruct (chain_segment_closed c o t p n n rest Hok m Hm) as [t' [Ht' [Hin | -> ]]].
      * exists t'. split; assumption.
      * exists n. split; [exact Ht' | apply in_or_app; right; left; reflexivity].
    + assert (Hn : In n (p ++ [n])) by (apply in_or_app; right; left; reflexivity).
      destruct (chain_segment_closed c o t p n n rest Hok n Hn) as [t' [Ht' Hin]].
      rewrite El in Ht'. injection Ht' as <-. destruct Hin as [Hin | -> ]; [exact Hin | apply in_or_app; right; left; reflexivity].
  - apply IH. cbn [chain_ok]. split; [exact El | exact Hok].
Qed.

Lemma first_error_conservative (la lb : list outcome) :
  Forall2 (fun a b => a = Crash n_RecursionError \/ a = b) la lb ->
  first_error la = Crash n_RecursionError \/ first_error la = first_error lb.
Proof.
  induction 1 as [|a b la lb [ -> | -> ] _ IH]; [right; reflexivity | left; reflexivity |].
  cbn [first_error]. destruct b; [exact IH | right; reflexivity ..].
Qed.

(* The repair changes the outcome of rule-reference resolution only where the unguarded code exhausts its
   recursion budget. *)
Theorem resolve_guard_conservative c cl o fuel t : c_alias_guard c = None ->
  resolve_rule_refs c o fuel t = Crash n_RecursionError
  \/ resolve_rule_refs c o fuel t = resolve_rule_refs (with_alias_guard c (Some cl)) o fuel t.
Proof.
  intro Hg. unfold resolve_rule_refs. apply first_error_conservative.
  induction (all_refs (t_rules t)) as [|n l IH]; [constructor|].
  cbn [map]. constructor; [|exact IH].
  apply (follow_guard_conservative c o t cl Hg fuel [] n). exact I.
Qed.

Theorem alias_repair_conservative c cl o fuel t : c_alias_guard c = Some cl ->
  resolve_rule_refs (with_alias_guard c None) o fuel t = Crash n_RecursionError
  \/ resolve_rule_refs (with_alias_guard c None) o fuel t = resolve_rule_refs c o fuel t.
Proof.
  intro H. pose proof (resolve_guard_conservative (with_alias_guard c None) cl o fuel t eq_refl) as P.
  assert (E : with_alias_guard (with_alias_guard c None) (Some cl) = c).
  { destruct c. cbn in H. subst. reflexivity. }
  rewrite E in P. exact P.
Qed.

Theorem unguarded_never_recovers c o t cl : c_alias_guard c = None ->
  forall fuel n, follow c o t fuel [] n <> Crash n_RecursionError ->
  forall fuel', fuel' >= fuel -> follow c o t fuel' [] n = follow (with_alias_guard c (Some cl)) o t fuel' [] n.
Proof.
  intros Hg.
  assert (mono : forall fuel chain n, follow c o t fuel chain n <> Crash n_RecursionError ->
                 forall fuel', fuel' >= fuel -> forall chain', follow c o t fuel' chain' n = follow c o t fuel chain n).
  { induction fuel as [|f IH]; intros chain n Hnc fuel' Hge chain'; [cbn in Hnc; congruence|].
    destruct fuel' as [|f']; [lia|]. cbn [follow] in *.
    destruct (lookup_rule c o t n) as [| |tg|e]; try reflexivity.
    rewrite Hg in *. apply IH; [exact Hnc | lia]. }
  intros fuel n Hnc fuel' Hge.
  destruct (follow_guard_conservative c o t cl Hg fuel' [] n I) as [Hc|He]; [|exact He].
  exfalso. apply Hnc. rewrite <- (mono fuel [] n Hnc fuel' Hge []). exact Hc.
Qed.
