(* C23 — proofs about the front-end model. *)
From TxV Require Import Core.Base Model.FrontDefs Model.Front.

Definition is_crash (o : outcome) : bool := match o with Crash _ => true | _ => false end.

(* ---------------------------------------------------------------- cfg_safe, unpacked *)
Lemma cfg_safe_parts c : cfg_safe c = true ->
  (exists cl, c_ws_guard c = Some cl) /\ handler_ok (c_re_handler c) = true /\ handler_ok (c_str_handler c) = true
  /\ handler_ok (c_nomatch_handler c) = true /\ handler_ok (c_keyerror_handler c) = true
  /\ c_ugroup_guard c = true /\ (exists cl, c_alias_guard c = Some cl) /\ c_mmm_getitem c = true
  /\ c_contains_catches c = true /\ c_ruletype_by_class c = true.
Proof.
  unfold cfg_safe. intro H.
  repeat (apply andb_true_iff in H; destruct H as [H ?]).
  repeat split; try assumption.
  - destruct (c_ws_guard c) as [cl|]; [exists cl; reflexivity | discriminate].
  - destruct (c_alias_guard c) as [cl|]; [exists cl; reflexivity | discriminate].
Qed.

Lemma handled_ok h w k1 k2 : handler_ok h = true -> is_crash (handled h w k1 k2) = false.
Proof.
  unfold handler_ok, handled. intro H. apply andb_true_iff in H as [H1 H2]. rewrite H1, H2. reflexivity.
Qed.

(* ---------------------------------------------------------------- first pass *)
Lemma check_param_no_crash c p : (exists cl, c_ws_guard c = Some cl) -> is_crash (check_param c p) = false.
Proof.
  intros [cl Hg]. destruct p as [n v]. unfold check_param.
  destruct (negb (mem_str n (c_params c))); [reflexivity|].
  destruct (str_eqb n s_split && negb (is_str v)); [reflexivity|].
  destruct (str_eqb n s_split && match v with PStr [] => true | _ => false end); [reflexivity|].
  destruct (str_eqb n s_ws && negb (is_str v)); [|reflexivity].
  rewrite Hg. reflexivity.
Qed.

Lemma check_params_no_crash c ps : (exists cl, c_ws_guard c = Some cl) -> is_crash (check_params c ps) = false.
Proof.
  intro Hg. induction ps as [|p ps IH]; [reflexivity|].
  cbn [check_params]. pose proof (check_param_no_crash c (norm_param p) Hg) as Hp.
  destruct (check_param c (norm_param p)); [exact IH | reflexivity | discriminate].
Qed.

Lemma step_no_crash c o attrs e : cfg_safe c = true -> is_crash (snd (step c o attrs e)) = false.
Proof.
  intro Hs. destruct (cfg_safe_parts c Hs) as (Hws & Hre & Hstr & _ & _ & Hug & _ & _ & _ & _).
  destruct e as [|ps|s|s|cls|op hm onr|a op hm|br bm]; cbn [step snd].
  - reflexivity.
  - apply check_params_no_crash; exact Hws.
  - unfold visit_str_match. destruct (o_decode o s); try reflexivity. apply handled_ok; exact Hstr.
  - unfold visit_re_match. destruct (o_regex o s); [reflexivity|]. apply handled_ok; exact Hre.
  - unfold visit_obj_ref. destruct (mem_str cls (c_base_names c) && negb (str_eqb cls s_OBJECT)); reflexivity.
  - unfold visit_repeatable_expr. rewrite Hug. destruct op; try reflexivity.
    + destruct hm; reflexivity.
    + rewrite andb_false_r. reflexivity.
  - unfold visit_assignment.
    destruct (mem_str a attrs && match op with OpOpt => true | _ => false end); [reflexivity|].
    destruct (hm && match op with OpOpt | OpEq => true | _ => false end); reflexivity.
  - destruct br; [reflexivity|]. destruct bm; [|reflexivity]. destruct (c_boolmany_check c); reflexivity.
Qed.

Lemma run_events_no_crash c o es : cfg_safe c = true -> forall attrs, is_crash (run_events c o attrs es) = false.
Proof.
  intro Hs. induction es as [|e es IH]; intro attrs; [reflexivity|].
  cbn [run_events]. pose proof (step_no_crash c o attrs e Hs) as He.
  destruct (step c o attrs e) as [attrs' r]. cbn [snd] in He.
  destruct r; [apply IH | reflexivity | discriminate].
Qed.

(* ---------------------------------------------------------------- rule references *)
Lemma last_def_name n rs r : last_def n rs = Some r -> In n (map r_name rs).
Proof.
  revert r. induction rs as [|r0 rs IH]; intros r H; [discriminate|].
  cbn [last_def] in H. cbn [map In].
  destruct (last_def n rs) as [r'|] eqn:E.
  - right. exact (IH r' eq_refl).
  - destruct (str_eqb (r_name r0) n) eqn:En; [|discriminate].
    left. apply str_eqb_eq. exact En.
Qed.

Lemma lookup_alias_name c o t n tg : lookup_rule c o t n = LAlias tg -> In n (map r_name (t_rules t)).
Proof.
  unfold lookup_rule. destruct (split_dot n) as [[ns nm]|].
  - destruct (qualified c o (t_stmts t) ns nm); [discriminate | destruct (c_contains_catches c); discriminate | discriminate].
  - destruct (last_def n (t_rules t)) as [r|] eqn:E.
    + intros _. exact (last_def_name n (t_rules t) r E).
    + destruct (mem_str n (c_base_names c)); discriminate.
Qed.

Lemma qualified_err_no_crash c o ss ns nm e : c_mmm_getitem c = true ->
  qualified c o ss ns nm = QErr e -> is_crash e = false.
Proof.
  intro Hm. unfold qualified. destruct (lang_of ns ss) as [l|].
  - destruct (o_ext o l nm) as [| | |found]; try discriminate.
    + intro H. injection H as <-. reflexivity.
    + rewrite Hm. destruct found; discriminate.
  - destruct (str_eqb ns s_base && mem_str nm (c_base_names c)); discriminate.
Qed.

Lemma lookup_err_no_crash c o t n e : c_mmm_getitem c = true -> c_contains_catches c = true ->
  lookup_rule c o t n = LErr e -> is_crash e = false.
Proof.
  intros Hm Hc. unfold lookup_rule. destruct (split_dot n) as [[ns nm]|].
  - destruct (qualified c o (t_stmts t) ns nm) as [f| |e'] eqn:Eq; try discriminate.
    + rewrite Hc. discriminate.
    + intro H. injection H as <-. exact (qualified_err_no_crash c o _ ns nm e' Hm Eq).
  - destruct (last_def n (t_rules t)) as [r|].
    + destruct (alias_of r); discriminate.
    + destruct (mem_str n (c_base_names c)); discriminate.
Qed.

(* With the alias guard, following a reference needs at most one step per rule of the grammar:
   the chain holds distinct rule names. *)
Lemma follow_no_crash c o t cl : c_alias_guard c = Some cl -> c_mmm_getitem c = true -> c_contains_catches c = true ->
  forall fuel chain n, NoDup chain -> incl chain (map r_name (t_rules t)) ->
    fuel + length chain > length (t_rules t) -> is_crash (follow c o t fuel chain n) = false.
Proof.
  intros Hg Hm Hc. induction fuel as [|f IH]; intros chain n Hnd Hincl Hlen.
  - exfalso. pose proof (NoDup_incl_length Hnd Hincl) as Hl. rewrite map_length in Hl. lia.
  - cbn [follow]. destruct (lookup_rule c o t n) as [| |tg|e] eqn:El; try reflexivity.
    + rewrite Hg. destruct (mem_str n chain) eqn:Em; [reflexivity|].
      apply IH.
      * constructor; [|exact Hnd]. intro Hin. apply mem_str_In in Hin. congruence.
      * intros x [Hx|Hx]; [subst x; exact (lookup_alias_name c o t n tg El) | exact (Hincl x Hx)].
      * cbn [length]. lia.
    + exact (lookup_err_no_crash c o t n e Hm Hc El).
Qed.

Lemma first_error_in l : first_error l = Ok \/ In (first_error l) l.
Proof.
  induction l as [|o l IH]; [left; reflexivity|].
  cbn [first_error]. destruct o; [destruct IH as [IH|IH]; [left; exact IH | right; right; exact IH] | right; left; reflexivity ..].
Qed.

Lemma first_error_no_crash l : (forall o, In o l -> is_crash o = false) -> is_crash (first_error l) = false.
Proof.
  intro H. destruct (first_error_in l) as [E|E]; [rewrite E; reflexivity | exact (H _ E)].
Qed.

Lemma resolve_rule_refs_no_crash c o t fuel : cfg_safe c = true -> fuel > length (t_rules t) ->
  is_crash (resolve_rule_refs c o fuel t) = false.
Proof.
  intros Hs Hf. destruct (cfg_safe_parts c Hs) as (_ & _ & _ & _ & _ & _ & [cl Hg] & Hm & Hcc & _).
  unfold resolve_rule_refs. apply first_error_no_crash. intros x Hx.
  apply in_map_iff in Hx as [n [<- _]].
  apply (follow_no_crash c o t cl Hg Hm Hcc); [constructor | intros x [] | cbn [length]; lia].
Qed.

Lemma determine_rule_types_no_crash c o t fuel : cfg_safe c = true -> determine_rule_types c o fuel t = Ok.
Proof.
  intro Hs. destruct (cfg_safe_parts c Hs) as (_ & _ & _ & _ & _ & _ & _ & _ & _ & Hr).
  unfold determine_rule_types. rewrite Hr. reflexivity.
Qed.

(* ---------------------------------------------------------------- class references *)
Lemma resolve_cls_name_no_crash c o t n : cfg_safe c = true -> is_crash (resolve_cls_name c o t n) = false.
Proof.
  intro Hs. destruct (cfg_safe_parts c Hs) as (_ & _ & _ & _ & Hk & _ & _ & Hm & _ & _).
  pose proof (handled_ok (c_keyerror_handler c) WClsRef KKey KKey Hk) as Hh.
  unfold resolve_cls_name. destruct (split_dot n) as [[ns nm]|].
  - destruct (qualified c o (t_stmts t) ns nm) as [f| |e] eqn:Eq; [reflexivity | exact Hh |].
    exact (qualified_err_no_crash c o _ ns nm e Hm Eq).
  - destruct (last_def n (t_rules t)); [reflexivity|].
    destruct (mem_str n (c_base_names c)); [reflexivity | exact Hh].
Qed.

Lemma resolve_cls_refs_no_crash c o t : cfg_safe c = true -> is_crash (resolve_cls_refs c o t) = false.
Proof.
  intro Hs. unfold resolve_cls_refs, cls_errors. apply first_error_no_crash. intros x Hx.
  apply in_map_iff in Hx as [a [<- _]]. apply resolve_cls_name_no_crash; exact Hs.
Qed.

(* ---------------------------------------------------------------- the whole front-end *)
Lemma seq_out_no_crash a b : is_crash a = false -> is_crash b = false -> is_crash (seq_out a b) = false.
Proof. destruct a; cbn; intros; try assumption; try reflexivity. Qed.

Theorem front_total c o fuel g :
  cfg_safe c = true -> has_import g = false -> fuel > nrules g -> is_crash (front c o fuel g) = false.
Proof.
  intros Hs Hi Hf. destruct g as [|t]; cbn [front].
  - destruct (cfg_safe_parts c Hs) as (_ & _ & _ & Hn & _). apply handled_ok; exact Hn.
  - cbn [has_import] in Hi. cbn [nrules] in Hf.
    apply seq_out_no_crash; [unfold visit_stmts; rewrite Hi; reflexivity|].
    apply seq_out_no_crash; [apply run_events_no_crash; exact Hs|].
    apply seq_out_no_crash; [apply resolve_rule_refs_no_crash; assumption|].
    rewrite (determine_rule_types_no_crash c o t fuel Hs). cbn [seq_out]. apply resolve_cls_refs_no_crash; exact Hs.
Qed.

Corollary front_never_crashes c o fuel g k :
  cfg_safe c = true -> has_import g = false -> fuel > nrules g -> front c o fuel g <> Crash k.
Proof.
  intros Hs Hi Hf E. pose proof (front_total c o fuel g Hs Hi Hf) as H. rewrite E in H. discriminate.
Qed.

(* the outcome does not depend on the recursion budget once it exceeds the number of rules *)
Lemma follow_fuel_irrelevant c o t cl : c_alias_guard c = Some cl ->
  forall f1 f2 chain n, NoDup chain -> incl chain (map r_name (t_rules t)) ->
    f1 + length chain > length (t_rules t) -> f2 + length chain > length (t_rules t) ->
    follow c o t f1 chain n = follow c o t f2 chain n.
Proof.
  intro Hg. induction f1 as [|f1 IH]; intros f2 chain n Hnd Hincl H1 H2.
  - exfalso. pose proof (NoDup_incl_length Hnd Hincl) as Hl. rewrite map_length in Hl. lia.
  - destruct f2 as [|f2].
    + exfalso. pose proof (NoDup_incl_length Hnd Hincl) as Hl. rewrite map_length in Hl. lia.
    + cbn [follow]. destruct (lookup_rule c o t n) as [| |tg|e] eqn:El; try reflexivity.
      rewrite Hg. destruct (mem_str n chain) eqn:Em; [reflexivity|].
      apply IH.
      * constructor; [|exact Hnd]. intro Hin. apply mem_str_In in Hin. congruence.
      * intros x [Hx|Hx]; [subst x; exact (lookup_alias_name c o t n tg El) | exact (Hincl x Hx)].
      * cbn [length]. lia.
      * cbn [length]. lia.
Qed.

Theorem front_fuel_irrelevant c o g f1 f2 :
  cfg_safe c = true -> f1 > nrules g -> f2 > nrules g -> front c o f1 g = front c o f2 g.
Proof.
  intros Hs H1 H2. destruct g as [|t]; [reflexivity|]. cbn [front nrules] in *.
  destruct (cfg_safe_parts c Hs) as (_ & _ & _ & _ & _ & _ & [cl Hg] & _).
  rewrite !(determine_rule_types_no_crash c o t _ Hs).
  f_equal. f_equal. f_equal. unfold resolve_rule_refs. f_equal.
  apply map_ext. intro n.
  apply (follow_fuel_irrelevant c o t cl Hg); [constructor | intros x [] | cbn [length]; lia | cbn [length]; lia].
Qed.

(* Without the guard a self-alias exhausts every recursion budget. *)
Lemma follow_self_alias_crashes c o t n : c_alias_guard c = None -> lookup_rule c o t n = LAlias n ->
  forall fuel chain, follow c o t fuel chain n = Crash KRecursion.
Proof.
  intros Hg Hl. induction fuel as [|f IH]; intro chain; [reflexivity|].
  cbn [follow]. rewrite Hl, Hg. apply IH.
Qed.

(* ---------------------------------------------------------------- Witnesses *)
Definition all_ok : oracles := {| o_regex := fun _ => true; o_decode := fun _ => DecOk; o_ext := fun _ _ => ExtMissing |}.
Definition bad_regex : oracles := {| o_regex := fun _ => false; o_decode := fun _ => DecOk; o_ext := fun _ _ => ExtMissing |}.
Definition bad_escape : oracles := {| o_regex := fun _ => true; o_decode := fun _ => DecUnicodeError; o_ext := fun _ _ => ExtMissing |}.
Definition textx_lang : oracles := {| o_regex := fun _ => true; o_decode := fun _ => DecOk; o_ext := fun _ _ => ExtBuiltin false |}.

Definition nA : list N := [65]%N.
Definition nB : list N := [66]%N.
Definition rule1 (n : list N) (ps : option (list (list N * option (list N)))) (e : expr) rep : rule :=
  {| r_name := n; r_params := ps; r_body := [[RX e rep false]] |}.
Definition gram (ss : list stmt) (rs : list rule) : ginput := GTree {| t_stmts := ss; t_rules := rs |}.

Definition g_regex := gram [] [rule1 nA None (EMatch false (SRe [40]%N)) None].                     (* A: /(/;            *)
Definition g_ws := gram [] [rule1 nA (Some [(s_ws, None)]) (EMatch false (SStr [97]%N)) None].     (* A[ws]: 'a';        *)
Definition g_ugroup := gram [] [rule1 nA None (ERef false nB) (Some (RHash, None));
                                rule1 nB None (EMatch false (SStr [120]%N)) None].                 (* A: B#; B: 'x';     *)
Definition g_self := gram [] [rule1 nA None (ERef false nA) None].                                 (* A: A;              *)
Definition g_cycle := gram [] [rule1 nA None (ERef false nB) None; rule1 nB None (ERef false nA) None]. (* A: B; B: A;   *)
Definition g_escape := gram [] [rule1 nA None (EMatch false (SStr [92;78;123;102;111;111;125]%N)) None]. (* A: '\N{foo}'; *)
Definition s_textx : list N := [116;101;120;116;120]%N.
Definition g_textx := gram [SReference s_textx None]
  [rule1 nA None (EAsg [97]%N OpEq (ARef (RObj (s_textx ++ [46;70;111;111])%N None false)) None) None]. (* reference textx  A: a=[textx.Foo]; *)
Definition g_import := gram [SImport] [rule1 nA None (EMatch false (SStr [97]%N)) None].           (* import foo  A: 'a'; *)


(* qualified references (rule references may be fully qualified names) *)
Definition s_lang : list N := [108]%N.                                                              (* l *)
Definition s_Thing : list N := [84]%N.                                                             (* T *)
Definition lang_found : oracles := {| o_regex := fun _ => true; o_decode := fun _ => DecOk; o_ext := fun _ _ => ExtFound |}.
Definition g_qualified_alias := gram [SReference s_lang None]
  [rule1 nA None (ERef false (s_lang ++ [46] ++ s_Thing)%N) None].                                 (* reference l  A: l.T;  *)
Definition g_unknown_ns := gram []
  [rule1 nA None (EAsg [120]%N OpEq (ARef (RRule [116;46;73]%N)) None) None].                       (* A: x=t.I;            *)
Definition g_boolmany := gram []
  [{| r_name := nA; r_params := None;
      r_body := [[RX (EAsg [99]%N OpOpt (ARef (RRule nA)) None) None false];
                 [RX (ERef false nA) None false; RX (EAsg [99]%N OpStar (ARef (RRule nA)) None) None false]] |}]. (* A: c?=A | A c*=A; *)

Lemma pinned_self_alias_crashes : forall fuel, front pinned_cfg all_ok fuel g_self = Crash KRecursion.
Proof.
  intro fuel. unfold front, g_self, gram. cbn [t_stmts t_rules].
  replace (visit_stmts []) with Ok by reflexivity.
  replace (run_events pinned_cfg all_ok [] _) with Ok by (vm_compute; reflexivity).
  cbn [seq_out]. unfold resolve_rule_refs. cbn [t_rules].
  replace (all_refs _) with [nA; nA] by (vm_compute; reflexivity).
  cbn [map first_error].
  rewrite (follow_self_alias_crashes pinned_cfg all_ok {| t_stmts := []; t_rules := [rule1 nA None (ERef false nA) None] |} nA eq_refl eq_refl fuel []).
  reflexivity.
Qed.

(* ---------------------------------------------------------------- the alias guard is conservative *)
(* The same source facts with another answer to "is a rule found in its own alias chain rejected". *)
Definition with_alias_guard (c : cfg) (g : option txclass) : cfg :=
  {| c_params := c_params c; c_param_cls := c_param_cls c; c_split_cls := c_split_cls c; c_ws_guard := c_ws_guard c;
     c_re_handler := c_re_handler c; c_str_handler := c_str_handler c; c_nomatch_handler := c_nomatch_handler c;
     c_keyerror_handler := c_keyerror_handler c; c_ugroup_guard := c_ugroup_guard c; c_alias_guard := g;
     c_mmm_getitem := c_mmm_getitem c; c_contains_catches := c_contains_catches c;
     c_ruletype_by_class := c_ruletype_by_class c; c_boolmany_check := c_boolmany_check c;
     c_base_names := c_base_names c |}.

(* ... with another answer to "does __contains__ catch KeyError" / "is the alias target class taken from the rule" *)
Definition with_contains (c : cfg) (b : bool) : cfg :=
  {| c_params := c_params c; c_param_cls := c_param_cls c; c_split_cls := c_split_cls c; c_ws_guard := c_ws_guard c;
     c_re_handler := c_re_handler c; c_str_handler := c_str_handler c; c_nomatch_handler := c_nomatch_handler c;
     c_keyerror_handler := c_keyerror_handler c; c_ugroup_guard := c_ugroup_guard c; c_alias_guard := c_alias_guard c;
     c_mmm_getitem := c_mmm_getitem c; c_contains_catches := b;
     c_ruletype_by_class := c_ruletype_by_class c; c_boolmany_check := c_boolmany_check c;
     c_base_names := c_base_names c |}.
Definition with_ruletype_by_class (c : cfg) (b : bool) : cfg :=
  {| c_params := c_params c; c_param_cls := c_param_cls c; c_split_cls := c_split_cls c; c_ws_guard := c_ws_guard c;
     c_re_handler := c_re_handler c; c_str_handler := c_str_handler c; c_nomatch_handler := c_nomatch_handler c;
     c_keyerror_handler := c_keyerror_handler c; c_ugroup_guard := c_ugroup_guard c; c_alias_guard := c_alias_guard c;
     c_mmm_getitem := c_mmm_getitem c; c_contains_catches := c_contains_catches c;
     c_ruletype_by_class := b; c_boolmany_check := c_boolmany_check c;
     c_base_names := c_base_names c |}.

Lemma lookup_with_guard c g o t n : lookup_rule (with_alias_guard c g) o t n = lookup_rule c o t n.
Proof. reflexivity. Qed.

(* a set of alias rules closed under "target of" : the unguarded resolution never leaves it *)
Lemma follow_diverges c o t (S : list (list N)) : c_alias_guard c = None ->
  (forall m, In m S -> exists tg, lookup_rule c o t m = LAlias tg /\ In tg S) ->
  forall fuel chain m, In m S -> follow c o t fuel chain m = Crash KRecursion.
Proof.
  intros Hg Hclosed. induction fuel as [|f IH]; intros chain m Hm; [reflexivity|].
  cbn [follow]. destruct (Hclosed m Hm) as [tg [Hl Ht]]. rewrite Hl, Hg. apply IH. exact Ht.
Qed.

(* chain = the alias rules being followed, most recent first; each one's target is the next more recent
   one, the head's target is the name being looked up *)
Fixpoint chain_ok (c : cfg) (o : oracles) (t : tree) (chain : list (list N)) (cur : list N) : Prop :=
  match chain with
  | [] => True
  | x :: rest => lookup_rule c o t x = LAlias cur /\ chain_ok c o t rest x
  end.

Lemma chain_segment_closed c o t : forall p cur n rest,
  chain_ok c o t (p ++ n :: rest) cur ->
  forall m, In m (p ++ [n]) -> exists tg, lookup_rule c o t m = LAlias tg /\ (In tg (p ++ [n]) \/ tg = cur).
Proof.
  induction p as [|x p IH]; intros cur n rest Hok m Hm.
  - cbn in Hok, Hm. destruct Hok as [Hl _]. destruct Hm as [ <- | [] ]. exists cur. split; [exact Hl | right; reflexivity].
  - cbn [app chain_ok] in Hok. destruct Hok as [Hl Hrest]. cbn [app In] in Hm. destruct Hm as [ <- | Hm ].
    + exists cur. split; [exact Hl | right; reflexivity].
    + destruct (IH x n rest Hrest m Hm) as [tg [Ht [Hin | -> ]]].
      * exists tg. split; [exact Ht | left; right; exact Hin].
      * exists x. split; [exact Ht | left; left; reflexivity].
Qed.

Lemma follow_guard_conservative c o t cl : c_alias_guard c = None ->
  forall fuel chain n, chain_ok c o t chain n ->
    follow c o t fuel chain n = Crash KRecursion
    \/ follow c o t fuel chain n = follow (with_alias_guard c (Some cl)) o t fuel chain n.
Proof.
  intro Hg. induction fuel as [|f IH]; intros chain n Hok; [left; reflexivity|].
  cbn [follow]. rewrite lookup_with_guard. destruct (lookup_rule c o t n) as [| |tg|e] eqn:El; try (right; reflexivity).
  rewrite Hg. cbn [c_alias_guard with_alias_guard].
  destruct (mem_str n chain) eqn:Em.
  - (* the guard fires: n is in its own chain, so the rules from n to the head of the chain form a cycle *)
    left. apply mem_str_In in Em. apply in_split in Em as [p [rest ->]].
    apply (follow_diverges c o t (p ++ [n]) Hg).
    + intros m Hm. destruct (chain_segment_closed c o t p n n rest Hok m Hm) as [t' [Ht' [Hin | -> ]]].
      * exists t'. split; assumption.
      * exists n. split; [exact Ht' | apply in_or_app; right; left; reflexivity].
    + assert (Hn : In n (p ++ [n])) by (apply in_or_app; right; left; reflexivity).
      destruct (chain_segment_closed c o t p n n rest Hok n Hn) as [t' [Ht' Hin]].
      rewrite El in Ht'. injection Ht' as <-. destruct Hin as [Hin | -> ]; [exact Hin | apply in_or_app; right; left; reflexivity].
  - apply IH. cbn [chain_ok]. split; [exact El | exact Hok].
Qed.

Lemma first_error_conservative (la lb : list outcome) :
  Forall2 (fun a b => a = Crash KRecursion \/ a = b) la lb ->
  first_error la = Crash KRecursion \/ first_error la = first_error lb.
Proof.
  induction 1 as [|a b la lb [ -> | -> ] _ IH]; [right; reflexivity | left; reflexivity |].
  cbn [first_error]. destruct b; [exact IH | right; reflexivity ..].
Qed.

(* The repair changes the outcome of rule-reference resolution only where the unguarded code exhausts its
   recursion budget. *)
Theorem resolve_guard_conservative c cl o fuel t : c_alias_guard c = None ->
  resolve_rule_refs c o fuel t = Crash KRecursion
  \/ resolve_rule_refs c o fuel t = resolve_rule_refs (with_alias_guard c (Some cl)) o fuel t.
Proof.
  intro Hg. unfold resolve_rule_refs. apply first_error_conservative.
  induction (all_refs (t_rules t)) as [|n l IH]; [constructor|].
  cbn [map]. constructor; [|exact IH].
  apply (follow_guard_conservative c o t cl Hg fuel [] n). exact I.
Qed.

Theorem alias_repair_conservative c cl o fuel t : c_alias_guard c = Some cl ->
  resolve_rule_refs (with_alias_guard c None) o fuel t = Crash KRecursion
  \/ resolve_rule_refs (with_alias_guard c None) o fuel t = resolve_rule_refs c o fuel t.
Proof.
  intro H. pose proof (resolve_guard_conservative (with_alias_guard c None) cl o fuel t eq_refl) as P.
  assert (E : with_alias_guard (with_alias_guard c None) (Some cl) = c).
  { destruct c. cbn in H. subst. reflexivity. }
  rewrite E in P. exact P.
Qed.

Theorem unguarded_never_recovers c o t cl : c_alias_guard c = None ->
  forall fuel n, follow c o t fuel [] n <> Crash KRecursion ->
  forall fuel', fuel' >= fuel -> follow c o t fuel' [] n = follow (with_alias_guard c (Some cl)) o t fuel' [] n.
Proof.
  intros Hg.
  assert (mono : forall fuel chain n, follow c o t fuel chain n <> Crash KRecursion ->
                 forall fuel', fuel' >= fuel -> forall chain', follow c o t fuel' chain' n = follow c o t fuel chain n).
  { induction fuel as [|f IH]; intros chain n Hnc fuel' Hge chain'; [cbn in Hnc; congruence|].
    destruct fuel' as [|f']; [lia|]. cbn [follow] in *.
    destruct (lookup_rule c o t n) as [| |tg|e]; try reflexivity.
    rewrite Hg in *. apply IH; [exact Hnc | lia]. }
  intros fuel n Hnc fuel' Hge.
  destruct (follow_guard_conservative c o t cl Hg fuel' [] n I) as [Hc|He]; [|exact He].
  exfalso. apply Hnc. rewrite <- (mono fuel [] n Hnc fuel' Hge []). exact Hc.
Qed.
