(* C22 - concrete witnesses (parser models dumped by tools/pegdump.py from the live textX). *)
From TxV Require Proofs.PegProofs.
From TxV Require Import Core.Base Model.PegSyntax Model.Peg Model.PegWsDefs Proofs.PegWs Proofs.PegWsSim.

Definition c_default : config := mkConfig true [9;10;13;32]%N.
Definition no_orc : nat -> nat -> option nat := fun _ _ => None.

(* Model: 'a' 'b'+;    "a b" -> "a  b" (non-vacuity of the invariance theorem) *)
Definition g_plain : grammar := (mkGrammar [mkNode KSeq [1;5] None false [77;111;100;101;108]%N true false None None;
  mkNode KSeq [2;3] None false [77;111;100;101;108]%N true false None None;
  mkNode (KStr [97]%N None) [] None false []%N false false None None;
  mkNode KPlus [4] None false []%N false false None None;
  mkNode (KStr [98]%N None) [] None false []%N false false None None;
  mkNode KEOF [] None false [69;79;70]%N false false None None] 0 None).

Lemma plain_nonvacuous :
  ins_wf g_plain c_default [32;9]%N = true /\
  shift_okb g_plain ([97;32] ++ [98])%N no_orc ([97;32] ++ [32;9] ++ [98])%N no_orc 2 2 = true /\
  accepts (run g_plain c_default no_orc false 50 ([97;32] ++ [98])%N) = true /\
  accepts (run g_plain c_default no_orc false 50 ([97;32] ++ [32;9] ++ [98])%N) = true.
Proof. vm_compute. repeat split. Qed.

(* Model: !A 'a' 'b'; A[noskipws]: 'a' ' ' ' ';     "a b" accepted, "a  b" rejected:
   outside ins_wf (a rule switches skipping off) the invariance fails although the space is
   inserted into a gap that the accepting parse skipped. *)
Definition g_mixed : grammar := (mkGrammar [mkNode KSeq [1;9] None false [77;111;100;101;108]%N true false None None;
  mkNode KSeq [2;7;8] None false [77;111;100;101;108]%N true false None None;
  mkNode KNot [3] None false []%N false false None None;
  mkNode KSeq [4;5;6] None false [65]%N true false None (Some false);
  mkNode (KStr [97]%N None) [] None false []%N false false None None;
  mkNode (KStr [32]%N None) [] None false []%N false false None None;
  mkNode (KStr [32]%N None) [] None false []%N false false None None;
  mkNode (KStr [97]%N None) [] None false []%N false false None None;
  mkNode (KStr [98]%N None) [] None false []%N false false None None;
  mkNode KEOF [] None false [69;79;70]%N false false None None] 0 None).

Lemma mixed_refuted :
  ins_wf g_mixed c_default [32]%N = false /\
  accepts (run g_mixed c_default no_orc false 50 ([97;32] ++ [98])%N) = true /\
  run g_mixed c_default no_orc false 50 ([97;32] ++ [32] ++ [98])%N = SyntaxErr 0.
Proof. vm_compute. repeat split. Qed.

(* Model: a=FLOAT b=ID | a=INT '.5' b=ID;    "1.5x" vs "1.5 x": both accepted, different trees.
   The grammar is in ins_wf; the shifted-oracle hypothesis fails (FLOAT matches at 0 only after
   the insertion): inserting into an EMPTY gap re-tokenises. *)
Definition g_adj : grammar := (mkGrammar [mkNode KSeq [1;12] None false [77;111;100;101;108]%N true false None None;
  mkNode KChoice [2;7] None false [77;111;100;101;108]%N true false None None;
  mkNode KSeq [3;5] None false []%N false false None None;
  mkNode KSeq [4] None false [95;95;97;115;103;110;95;112;108;97;105;110]%N true false None None;
  mkNode (KRegex 0) [] None false [70;76;79;65;84]%N true false None None;
  mkNode KSeq [6] None false [95;95;97;115;103;110;95;112;108;97;105;110]%N true false None None;
  mkNode (KRegex 1) [] None false [73;68]%N true false None None;
  mkNode KSeq [8;10;11] None false []%N false false None None;
  mkNode KSeq [9] None false [95;95;97;115;103;110;95;112;108;97;105;110]%N true false None None;
  mkNode (KRegex 2) [] None false [73;78;84]%N true false None None;
  mkNode (KStr [46;53]%N None) [] None false []%N false false None None;
  mkNode KSeq [6] None false [95;95;97;115;103;110;95;112;108;97;105;110]%N true false None None;
  mkNode KEOF [] None false [69;79;70]%N false false None None] 0 None).
Definition adj_orc := orc_of [((1,3),1);((2,0),1);((2,2),1)].
Definition adj_orc' := orc_of [((0,0),3);((0,1),2);((0,2),1);((1,4),1);((2,0),1);((2,2),1)].

Lemma adj_refuted :
  ins_wf g_adj c_default [32]%N = true /\
  shift_okb g_adj ([49;46;53] ++ [120])%N adj_orc ([49;46;53] ++ [32] ++ [120])%N adj_orc' 3 1 = false /\
  exists r r', run g_adj c_default adj_orc false 50 ([49;46;53] ++ [120])%N = Parsed r /\
               run g_adj c_default adj_orc' false 50 ([49;46;53] ++ [32] ++ [120])%N = Parsed r' /\
               r' <> shift_res 3 1 r.
Proof.
  split; [vm_compute; reflexivity|]. split; [vm_compute; reflexivity|].
  eexists. eexists. split; [vm_compute; reflexivity|]. split; [vm_compute; reflexivity|].
  vm_compute. discriminate.
Qed.

(* Model: 'a' 'b'+; Comment: /\/\/.*?$/;     "a b" -> "a // i\n b"  (a="a", w1=" ", c="// i", w2="\n", b=" b") *)
Definition g_cmt1 : grammar := (mkGrammar [mkNode KSeq [1;5] None false [77;111;100;101;108]%N true false None None;
  mkNode KSeq [2;3] None false [77;111;100;101;108]%N true false None None;
  mkNode (KStr [97]%N None) [] None false []%N false false None None;
  mkNode KPlus [4] None false []%N false false None None;
  mkNode (KStr [98]%N None) [] None false []%N false false None None;
  mkNode KEOF [] None false [69;79;70]%N false false None None;
  mkNode (KRegex 0) [] None false [67;111;109;109;101;110;116]%N true false None None] 0 (Some 6)).
Definition cmt1_orc := orc_of (@nil ((nat * nat) * nat)).
Definition cmt1_orc' := orc_of [((0,2),4)].

Lemma cmt1_nonvacuous :
  cmt_wf g_cmt1 c_default = true /\
  cmt_ins_okb g_cmt1 c_default cmt1_orc' [97]%N [32]%N [47;47;32;105]%N [10]%N = true /\
  shift_okb g_cmt1 ([97] ++ [32;98])%N cmt1_orc ([97] ++ ([32] ++ [47;47;32;105] ++ [10]) ++ [32;98])%N cmt1_orc' 1 6 = true /\
  accepts (run g_cmt1 c_default cmt1_orc false 50 ([97] ++ [32;98])%N) = true /\
  accepts (run g_cmt1 c_default cmt1_orc' false 50 ([97] ++ ([32] ++ [47;47;32;105] ++ [10]) ++ [32;98])%N) = true.
Proof. vm_compute. repeat split. Qed.

(* Model: 'a' b=B c=ID; B[ws=' ']: 'x' 'y'+; Comment: /\/\*(.|\n)*?\*\//;
   "a x y\n foo" accepted, "a x y/* i */\n foo" rejected: the end of the comment is recorded in
   comment_positions under ws=' ' (newline not skipped) and reused under the default set.  The Comment
   rule is a single regex and the inserted text is an exact Comment match: only the mode-constancy
   condition of cmt_wf fails. *)
Definition g_cmt2 : grammar := (mkGrammar [mkNode KSeq [1;10] None false [77;111;100;101;108]%N true false None None;
  mkNode KSeq [2;3;8] None false [77;111;100;101;108]%N true false None None;
  mkNode (KStr [97]%N None) [] None false []%N false false None None;
  mkNode KSeq [4] None false [95;95;97;115;103;110;95;112;108;97;105;110]%N true false None None;
  mkNode KSeq [5;6] None false [66]%N true false (Some [32]%N) None;
  mkNode (KStr [120]%N None) [] None false []%N false false None None;
  mkNode KPlus [7] None false []%N false false None None;
  mkNode (KStr [121]%N None) [] None false []%N false false None None;
  mkNode KSeq [9] None false [95;95;97;115;103;110;95;112;108;97;105;110]%N true false None None;
  mkNode (KRegex 0) [] None false [73;68]%N true false None None;
  mkNode KEOF [] None false [69;79;70]%N false false None None;
  mkNode (KRegex 1) [] None false [67;111;109;109;101;110;116]%N true false None None] 0 (Some 11)).
Definition cmt2_orc := orc_of [((0,0),1);((0,2),1);((0,4),1);((0,7),3);((0,8),2);((0,9),1)].
Definition cmt2_orc' := orc_of [((0,0),1);((0,2),1);((0,4),1);((0,8),1);((0,14),3);((0,15),2);((0,16),1);((1,5),7)].

Lemma cmt2_refuted :
  cmt_wf g_cmt2 c_default = false /\
  cmt_ins_okb g_cmt2 c_default cmt2_orc' [97;32;120;32;121]%N [] [47;42;32;105;32;42;47]%N [] = true /\
  accepts (run g_cmt2 c_default cmt2_orc false 60 ([97;32;120;32;121] ++ [10;32;102;111;111])%N) = true /\
  run g_cmt2 c_default cmt2_orc' false 60 ([97;32;120;32;121] ++ ([] ++ [47;42;32;105;32;42;47] ++ []) ++ [10;32;102;111;111])%N = SyntaxErr 12.
Proof. vm_compute. repeat split. Qed.

Lemma plain_memo_nonvacuous :
  PegProofs.ctx_constant g_plain = true /\ c_skipws c_default = true /\ subset_ws [32;9]%N (c_ws c_default) = true /\
  shift_okb g_plain ([97;32] ++ [98])%N no_orc ([97;32] ++ [32;9] ++ [98])%N no_orc 2 2 = true /\
  accepts (run g_plain c_default no_orc true 50 ([97;32] ++ [32;9] ++ [98])%N) = true.
Proof. vm_compute. repeat split. Qed.

From TxV Require Import Proofs.PegGap.
Lemma plain_tiled_nonvacuous :
  g_comments g_plain = None /\ top_eof g_plain = true /\
  accepts (run g_plain c_default no_orc false 50 [97;32;32;98;10;98]%N) = true /\
  all_ws g_plain c_default = c_ws c_default.
Proof. vm_compute. repeat split. Qed.

Lemma cmt1_any_fuel :
  not_aborted (run g_cmt1 c_default cmt1_orc false 20 ([97] ++ [32;98])%N) /\
  not_aborted (run g_cmt1 c_default cmt1_orc' false 50 ([97] ++ ([32] ++ [47;47;32;105] ++ [10]) ++ [32;98])%N).
Proof. vm_compute. split; exact I. Qed.
