(* C22 - concrete witnesses (parser models dumped by tools/pegdump.py from the live textX). *)
From TxV Require Import Core.Base Model.PegSyntax Model.Peg Model.PegWsDefs Proofs.PegWs Proofs.PegWsSim.

Definition c_default : config := mkConfig true [9;10;13;32]%N.
Definition no_orc : nat -> nat -> option nat := fun _ _ => None.

(* Model: 'a' 'b'+;    "a b" -> "a  b" (non-vacuity of the invariance theorem) *)
Definition g_plain : grammar := (mkGrammar [mkNode KSeq [1;5] None false [77;111;100;101;108]%N true false None None;
  mkNode KSeq [2;3] None false [77;111;100;101;108]%N true false None None;
  mkNode (KStr [97]%N None) [] None false []%N false false None None;
  mkNode KPlus [4] None false []%N false false None None;
  mkNode (KStr [98]%N None) [] None false []%N false false None None;
  mkNode KEOF [] None false [69;79;70]%N false false None None] 0 None).

Lemma plain_nonvacuous :
  ins_wf g_plain c_default [32;9]%N = true /\
  shift_okb g_plain ([97;32] ++ [98])%N no_orc ([97;32] ++ [32;9] ++ [98])%N no_orc 2 2 = true /\
  accepts (run g_plain c_default no_orc false 50 ([97;32] ++ [98])%N) = true /\
  accepts (run g_plain c_default no_orc false 50 ([97;32] ++ [32;9] ++ [98])%N) = true.
Proof. vm_compute. repeat split. Qed.

(* Model: !A 'a' 'b'; A[noskipws]: 'a' ' ' ' ';     "a b" accepted, "a  b" rejected:
   outside ins_wf (a rule switches skipping off) the invariance fails although the space is
   inserted into a gap that the accepting parse skipped. *)
Definition g_mixed : grammar := (mkGrammar [mkNode KSeq [1;9] None false [77;111;100;101;108]%N true false None None;
  mkNode KSeq [2;7;8] None false [77;111;100;101;108]%N true false None None;
  mkNode KNot [3] None false []%N false false None None;
  mkNode KSeq [4;5;6] None false [65]%N true false None (Some false);
  mkNode (KStr [97]%N None) [] None false []%N false false None None;
  mkNode (KStr [32]%N None) [] None false []%N false false None None;
  mkNode (KStr [32]%N None) [] None false []%N false false None None;
  mkNode (KStr [97]%N None) [] None false []%N false false None None;
  mkNode (KStr [98]%N None) [] None false []%N false false None None;
  mkNode KEOF [] None false [69;79;70]%N false false None None] 0 None).

Lemma mixed_refuted :
  ins_wf g_mixed c_default [32]%N = false /\
  accepts (run g_mixed c_default no_orc false 50 ([97;32] ++ [98])%N) = true /\
  run g_mixed c_default no_orc false 50 ([97;32] ++ [32] ++ [98])%N = SyntaxErr 0.
Proof. vm_compute. repeat split. Qed.

(* Model: a=FLOAT b=ID | a=INT '.5' b=ID;    "1.5x" vs "1.5 x": both accepted, different trees.
   The grammar is in ins_wf; the shifted-oracle hypothesis fails (FLOAT matches at 0 only after
   the insertion): inserting into an EMPTY gap re-tokenises. *)
Definition g_adj : grammar := (mkGrammar [mkNode KSeq [1;12] None false [77;111;100;101;108]%N true false None None;
  mkNode KChoice [2;7] None false [77;111;100;101;108]%N true false None None;
  mkNode KSeq [3;5] None false []%N false false None None;
  mkNode KSeq [4] None false [95;95;97;115;103;110;95;112;108;97;105;110]%N true false None None;
  mkNode (KRegex 0) [] None false [70;76;79;65;84]%N true false None None;
  mkNode KSeq [6] None false [95;95;97;115;103;110;95;112;108;97;105;110]%N true false None None;
  mkNode (KRegex 1) [] None false [73;68]%N true false None None;
  mkNode KSeq [8;10;11] None false []%N false false None None;
  mkNode KSeq [9] None false [95;95;97;115;103;110;95;112;108;97;105;110]%N true false None None;
  mkNode (KRegex 2) [] None false [73;78;84]%N true false None None;
  mkNode (KStr [46;53]%N None) [] None false []%N false false None None;
  mkNode KSeq [6] None false [95;95;97;115;103;110;95;112;108;97;105;110]%N true false None None;
  mkNode KEOF [] None false [69;79;70]%N false false None None] 0 None).
Definition adj_orc := orc_of [((1,3),1);((2,0),1);((2,2),1)].
Definition adj_orc' := orc_of [((0,0),3);((0,1),2);((0,2),1);((1,4),1);((2,0),1);((2,2),1)].

Lemma adj_refuted :
  ins_wf g_adj c_default [32]%N = true /\
  shift_okb g_adj ([49;46;53] ++ [120])%N adj_orc ([49;46;53] ++ [32] ++ [120])%N adj_orc' 3 1 = false /\
  exists r r', run g_adj c_default adj_orc false 50 ([49;46;53] ++ [120])%N = Parsed r /\
               run g_adj c_default adj_orc' false 50 ([49;46;53] ++ [32] ++ [120])%N = Parsed r' /\
               r' <> shift_res 3 1 r.
Proof.
  split; [vm_compute; reflexivity|]. split; [vm_compute; reflexivity|].
  eexists. eexists. split; [vm_compute; reflexivity|]. split; [vm_compute; reflexivity|].
  vm_compute. discriminate.
Qed.
