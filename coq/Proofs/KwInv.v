(* C21, parse level: in every parse result no terminal of a keyword regex is immediately followed
   by a word character (instance of the terminal invariant of Proofs/PegInv.v). *)
From TxV Require Import Core.Base Model.PegSyntax Model.Peg Model.KwDefs Gen.SrcKw Model.Kw
     Proofs.PegCongr Proofs.PegInv Proofs.KwProofs.

Section KwInv.
Variable wordc : N -> bool.
Variable digitc : N -> bool.
Variable lower : N -> N.
(* which nodes are keyword regexes: node id -> (literal, ignore_case) *)
Variable kwt : nat -> option (list N * bool).

Definition kw_pt (input : list N) (nid p len : nat) : bool :=
  match kwt nid with
  | Some _ => negb (word_at wordc input (p + len))
  | None => true
  end.

(* the designated nodes are RegExMatch nodes whose oracle is the keyword regex of a keyword-like literal *)
Definition kw_oracle_spec (g : grammar) (input : list N) (orc : nat -> nat -> option nat) : Prop :=
  forall nid t ic, kwt nid = Some (t, ic) ->
    exists nd o, get_node g nid = Some nd /\ n_kind nd = KRegex o /\
                 kw_like wordc digitc t = true /\
                 forall p, orc o p = kw_match wordc lower ic t input p.

Lemma kw_term_ok g input orc :
  (forall a b, lower a = lower b -> wordc a = wordc b) ->
  kw_oracle_spec g input orc ->
  forall nid nd psq s r s',
    get_node g nid = Some nd -> term_parse input orc nid (n_kind nd) psq s = Ok r s' ->
    res_okb (kw_pt input) r = true.
Proof.
  intros Hwl Hspec nid nd psq s r s' Hn. unfold term_parse. cbv zeta.
  assert (Hnone : forall k, n_kind nd = k -> (forall o, k <> KRegex o) -> kwt nid = None).
  { intros k Hk Hnot. destruct (kwt nid) as [[t ic]|] eqn:Ek; [|reflexivity].
    destruct (Hspec nid t ic Ek) as [nd' [o [Hn' [Hk' _]]]]. rewrite Hn in Hn'. injection Hn' as <-.
    exfalso. apply (Hnot o). congruence. }
  destruct (n_kind nd) as [| | | | | | | | | |t oid|o] eqn:Ek; try discriminate.
  - destruct (Nat.eqb (length input) (pos s)); [|unfold nm_raise; discriminate].
    intro H. injection H as <- _. cbn [res_okb tree_okb]. unfold kw_pt.
    rewrite (Hnone KEOF eq_refl); [reflexivity | discriminate].
  - destruct (match oid with Some o => _ | None => _ end); [|unfold nm_raise; discriminate].
    intro H. injection H as <- _. cbn [res_okb tree_okb]. unfold kw_pt.
    rewrite (Hnone (KStr t oid) eq_refl); [reflexivity | discriminate].
  - destruct (orc o (pos s)) as [len|] eqn:Eo; [|unfold nm_raise; discriminate].
    destruct (Nat.eqb len 0); intro H; injection H as <- _; [reflexivity|].
    cbn [res_okb tree_okb]. unfold kw_pt. destruct (kwt nid) as [[t ic]|] eqn:Ekw; [|reflexivity].
    destruct (Hspec nid t ic Ekw) as [nd' [o' [Hn' [Hk' [Hkw Ho]]]]].
    rewrite Hn in Hn'. injection Hn' as <-. rewrite Ek in Hk'. injection Hk' as <-.
    rewrite Ho in Eo. rewrite (kw_match_char wordc digitc lower ic t input (pos s)) in Eo;
      [|intros _; exact Hwl | exact Hkw].
    destruct (lit_prefix lower ic t (skipn (pos s) input) && negb (word_at wordc input (pos s + length t)))%bool eqn:E;
      [|discriminate].
    injection Eo as <-. apply andb_true_iff in E. exact (proj2 E).
Qed.

Theorem kw_boundary_parse g cfg orc memo fuel input r :
  (forall a b, lower a = lower b -> wordc a = wordc b) ->
  kw_oracle_spec g input orc ->
  run g cfg orc memo fuel input = Parsed r ->
  forall nid p len, In (nid, p, len) (res_terminals r) -> kwt nid <> None ->
                    word_at wordc input (p + len) = false.
Proof.
  intros Hwl Hspec Hrun nid p len Hin Hk.
  pose proof (run_ok (kw_pt input) g input orc memo (kw_term_ok g input orc Hwl Hspec) cfg fuel r Hrun) as Hok.
  pose proof (res_okb_In (kw_pt input) r Hok nid p len Hin) as Hp.
  unfold kw_pt in Hp. destruct (kwt nid); [apply negb_true_iff, Hp | congruence].
Qed.

End KwInv.
