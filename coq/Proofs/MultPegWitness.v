(* C02 — a dumped parser model (tools/pegdump.py + tools/mmdump.py on `Model: (a=INT | b=INT) a+=INT[/,?/];`, input
   `1 2 , 3`) as non-vacuity witness of the link theorem. *)
From TxV Require Import Core.Base Model.MultBase Gen.SrcMult Model.Mult.
From TxV Require Model.Build.
From TxV Require Import Model.PegSyntax Model.Peg Model.MultPeg.

Definition wit_g : grammar :=
  (mkGrammar [mkNode KSeq [1;8] None false [77;111;100;101;108]%N true false None None;
  mkNode KSeq [2;6] None false [77;111;100;101;108]%N true false None None;
  mkNode KChoice [3;5] None false []%N false false None None;
  mkNode KSeq [4] None false [95;95;97;115;103;110;95;112;108;97;105;110]%N true false None None;
  mkNode (KRegex 0) [] None false [73;78;84]%N true false None None;
  mkNode KSeq [4] None false [95;95;97;115;103;110;95;112;108;97;105;110]%N true false None None;
  mkNode KPlus [4] (Some 7) false [95;95;97;115;103;110;95;111;110;101;111;114;109;111;114;101]%N true false None None;
  mkNode (KRegex 1) [] None false [115;101;112]%N false false None None;
  mkNode KEOF [] None false [69;79;70]%N false false None None] 0 None).
Definition wit_mm : list Build.ninfo :=
  [Build.IOther;
  Build.IRule Build.RCommon [77;111;100;101;108]%N [Build.mkAttr [97]%N Build.MPlus true false [73;78;84]%N false;Build.mkAttr [98]%N Build.M1 true false [73;78;84]%N false];
  Build.IOther;
  Build.IAsgn [97]%N Build.OpPlain;
  Build.ITerm [73;78;84]%N 0;
  Build.IAsgn [98]%N Build.OpPlain;
  Build.IAsgn [97]%N Build.OpList;
  Build.ITerm [115;101;112]%N 0;
  Build.ITerm [69;79;70]%N 0].
Definition wit_cfg : config := (mkConfig true [9;10;13;32]%N).
Definition wit_tbl := [((0,0),1);((0,2),1);((0,6),1);((1,0),0);((1,1),0);((1,2),0);((1,3),0);((1,4),1);((1,5),0);((1,6),0);((1,7),0)].
Definition wit_input : list N := [49;32;50;32;44;32;51]%N.
Definition wit_nid : nat := 1.

Definition wit_attr (s : list N) : nat := match s with [97%N] => 0 | [98%N] => 1 | _ => 9 end.
(* the converted value of a child is kept abstract in the theorem; here: its position in the input *)
Definition wit_conv (t : tree) : sval := match t with T _ p _ _ => SInt (Z.of_nat p) | NT _ _ => SNone end.
Definition wit_body : Mult.body := BSeq [BAlt [BAsg 0 OpPlain; BAsg 1 OpPlain]; BAsg 0 OpPlus].

Lemma wit_link :
  den wit_g wit_mm wit_attr true wit_body wit_nid = true
  /\ grammar_ok wit_body = true
  /\ exists r s', parse wit_g wit_input (orc_of wit_tbl) false 50 wit_nid true (init_st wit_cfg) = Peg.Ok r s'
     /\ map (node_ev src_sep_mode) (top_nodes wit_g wit_mm wit_attr wit_conv r)
        = [Ev 0 OpPlain [SInt 0]; Ev 0 OpPlus [SInt 2; SInt 6]].
Proof.
  split; [vm_compute; reflexivity|]. split; [vm_compute; reflexivity|].
  eexists. eexists. split; vm_compute; reflexivity.
Qed.

(* ---------------------------------------------------------------- end to end on the witness: memoized run, full builder *)
From TxV Require Model.MultBuild Proofs.PegProofs Proofs.PegMemo Proofs.MultEndProofs.
Definition wit_attrs : list Build.attr :=
  [Build.mkAttr [97]%N Build.MPlus true false [73;78;84]%N false; Build.mkAttr [98]%N Build.M1 true false [73;78;84]%N false].
Definition wit_grp : nat -> nat -> option (nat * nat) := fun _ _ => None.
Definition first_tree (r : res) : tree := match r with RTree (NT _ (t :: _)) => t | _ => T 0 0 0 false end.

Lemma wit_end :
  PegProofs.ctx_constant wit_g = true
  /\ MultBuild.asg_table_okb wit_g wit_mm = true
  /\ MultEndProofs.top_okb wit_g wit_nid = true
  /\ MultBuild.mult_agreesb wit_attr wit_body wit_attrs = true
  /\ PegMemo.not_aborted (run wit_g wit_cfg (orc_of wit_tbl) false 50 wit_input)
  /\ exists r p e vals,
       run wit_g wit_cfg (orc_of wit_tbl) true 50 wit_input = Parsed r
       /\ Build.asg_placed wit_mm false (first_tree r) = true
       /\ Build.build wit_g wit_mm wit_input wit_grp true false r = Build.BOk (Build.VObj [77;111;100;101;108]%N p e vals)
       /\ Build.get_val [97]%N vals
          = Some (Build.VList [Build.VTerm [73;78;84]%N [49]%N; Build.VTerm [73;78;84]%N [50]%N; Build.VTerm [73;78;84]%N [51]%N])
       /\ Build.get_val [98]%N vals = Some (Build.VDefault [73;78;84]%N).
Proof.
  split; [vm_compute; reflexivity|]. split; [vm_compute; reflexivity|]. split; [vm_compute; reflexivity|].
  split; [vm_compute; reflexivity|]. split; [vm_compute; exact I|].
  eexists. eexists. eexists. eexists. split; [vm_compute; reflexivity|].
  split; [vm_compute; reflexivity|]. split; [vm_compute; reflexivity|]. split; vm_compute; reflexivity.
Qed.
