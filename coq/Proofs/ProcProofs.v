(* Proofs about Model/Proc.v *)
From TxV Require Import Core.Base Model.Proc.

Scheme value_mind := Induction for value Sort Prop
  with fields_mind := Induction for fields Sort Prop
  with values_mind := Induction for values Sort Prop.
Combined Scheme tree_mutind from value_mind, fields_mind, values_mind.

Section WalkProofs.
  Variable reg : nat -> bool.
  Variable proc : nat -> value -> option value.

  Notation walk := (walk reg proc).
  Notation walk_fields := (walk_fields reg proc).
  Notation walk_values := (walk_values reg proc).
  Notation result := (result reg proc).
  Notation after := (after reg proc).
  Notation after_fields := (after_fields reg proc).
  Notation after_values := (after_values reg proc).
  Notation visits := (visits reg proc).
  Notation visits_fields := (visits_fields reg proc).
  Notation visits_values := (visits_values reg proc).
  Notation events := (events reg).
  Notation schedule := (schedule reg proc).
  Notation settle := (settle reg proc).

  Definition ret (d : dcl) (v : value) : option value :=
    if d_match d then None else result d (after d v).

  (* unfolding equations (the mutual fixpoints do not refold nicely under cbn) *)
  Lemma walk_fields_one n cont d v rest log :
    walk_fields (FOne n cont d v rest) log =
    if cont then
      match v with
      | VNone => let '(log2, rest') := walk_fields rest log in (log2, FOne n cont d VNone rest')
      | _ => let '(log1, v', r) := walk d v log in
             let '(log2, rest') := walk_fields rest log1 in
             (log2, FOne n cont d (match r with Some x => x | None => v' end) rest')
      end
    else let '(log2, rest') := walk_fields rest log in (log2, FOne n cont d v rest').
  Proof. reflexivity. Qed.

  Lemma walk_fields_many n cont d vs rest log :
    walk_fields (FMany n cont d vs rest) log =
    if cont then
      let '(log1, vs') := walk_values d vs log in
      let '(log2, rest') := walk_fields rest log1 in (log2, FMany n cont d vs' rest')
    else let '(log2, rest') := walk_fields rest log in (log2, FMany n cont d vs rest').
  Proof. reflexivity. Qed.

  Lemma walk_values_cons d v vs0 log :
    walk_values d (VsCons v vs0) log =
    match v with
    | VNone => let '(log2, vs') := walk_values d vs0 log in (log2, VsCons VNone vs')
    | _ => let '(log1, v', r) := walk d v log in
           let '(log2, vs') := walk_values d vs0 log1 in
           (log2, VsCons (match r with Some x => x | None => v' end) vs')
    end.
  Proof. reflexivity. Qed.

  Lemma visits_fields_one n cont d v rest :
    visits_fields (FOne n cont d v rest) =
    (if cont then match v with VNone => [] | _ => visits d v end else []) ++ visits_fields rest.
  Proof. reflexivity. Qed.

  Lemma visits_fields_many n cont d vs rest :
    visits_fields (FMany n cont d vs rest) =
    (if cont then visits_values d vs else []) ++ visits_fields rest.
  Proof. reflexivity. Qed.

  Lemma visits_values_cons d v vs0 :
    visits_values d (VsCons v vs0) =
    (match v with VNone => [] | _ => visits d v end) ++ visits_values d vs0.
  Proof. reflexivity. Qed.

  Lemma after_fields_one n cont d v rest :
    after_fields (FOne n cont d v rest) =
    FOne n cont d (if cont then settle d v else v) (after_fields rest).
  Proof. reflexivity. Qed.

  Lemma after_fields_many n cont d vs rest :
    after_fields (FMany n cont d vs rest) =
    FMany n cont d (if cont then after_values d vs else vs) (after_fields rest).
  Proof. reflexivity. Qed.

  Lemma after_values_cons d v vs0 :
    after_values d (VsCons v vs0) = VsCons (settle d v) (after_values d vs0).
  Proof. reflexivity. Qed.

  Lemma settle_not_none d v :
    is_none v = false ->
    settle d v = match ret d v with Some x => x | None => after d v end.
  Proof.
    intro Hn. unfold Proc.settle, ret.
    destruct v as [|a|id c fs]; [discriminate| |];
      destruct (d_match d) eqn:Em; try reflexivity.
    - cbn. rewrite Em. reflexivity.
    - cbn. rewrite Em. reflexivity.
  Qed.

  (* ---------------------------------------------------------------- main lemma *)
  Lemma walk_spec_all :
    (forall v d log, walk d v log = (log ++ flat_map events (visits d v), after d v, ret d v)) /\
    (forall fs log, walk_fields fs log = (log ++ flat_map events (visits_fields fs), after_fields fs)) /\
    (forall vs d log, walk_values d vs log = (log ++ flat_map events (visits_values d vs), after_values d vs)).
  Proof.
    apply tree_mutind.
    - (* VNone *)
      intros d log. unfold ret. cbn [Proc.walk Proc.visits Proc.after].
      destruct (d_match d) eqn:Em.
      + cbn [flat_map]. rewrite app_nil_r. reflexivity.
      + cbn [flat_map Proc.events]. unfold Proc.result.
        destruct (reg (d_nm d)); cbn [app]; rewrite ?app_nil_r; reflexivity.
    - (* VAtom *)
      intros a d log. unfold ret. cbn [Proc.walk Proc.visits Proc.after].
      destruct (d_match d) eqn:Em.
      + cbn [flat_map]. rewrite app_nil_r. reflexivity.
      + cbn [flat_map Proc.events]. unfold Proc.result.
        destruct (reg (d_nm d)); cbn [app]; rewrite ?app_nil_r; reflexivity.
    - (* VObj *)
      intros id c fs IHfs d log. unfold ret. cbn [Proc.walk Proc.visits Proc.after].
      destruct (d_match d) eqn:Em.
      + cbn [flat_map]. rewrite app_nil_r. reflexivity.
      + rewrite IHfs. rewrite flat_map_app. cbn [flat_map Proc.events]. unfold Proc.result.
        destruct (own_called reg c d) eqn:Eo; destruct (reg (d_nm d)) eqn:Er;
          cbn [app]; rewrite ?app_nil_r, <- ?app_assoc; cbn [app]; reflexivity.
    - (* FNil *)
      intros log. cbn. rewrite app_nil_r. reflexivity.
    - (* FOne *)
      intros n cont d v IHv rest IHrest log.
      rewrite walk_fields_one, visits_fields_one, after_fields_one.
      destruct cont.
      + destruct (is_none v) eqn:Hn.
        * destruct v; try discriminate. rewrite IHrest. reflexivity.
        * rewrite (settle_not_none d v Hn).
          destruct v as [|a|id c fs]; [discriminate| |];
            rewrite IHv, IHrest, flat_map_app, app_assoc; reflexivity.
      + rewrite IHrest. reflexivity.
    - (* FMany *)
      intros n cont d vs IHvs rest IHrest log.
      rewrite walk_fields_many, visits_fields_many, after_fields_many.
      destruct cont.
      + rewrite IHvs, IHrest. rewrite flat_map_app, app_assoc. reflexivity.
      + rewrite IHrest. reflexivity.
    - (* VsNil *)
      intros d log. cbn. rewrite app_nil_r. reflexivity.
    - (* VsCons *)
      intros v IHv vs IHvs d log.
      rewrite walk_values_cons, visits_values_cons, after_values_cons.
      destruct (is_none v) eqn:Hn.
      + destruct v; try discriminate. rewrite IHvs. reflexivity.
      + rewrite (settle_not_none d v Hn).
        destruct v as [|a|id c fs]; [discriminate| |];
          rewrite IHv, IHvs, flat_map_app, app_assoc; reflexivity.
  Qed.

  Lemma walk_spec d v log :
    walk d v log = (log ++ schedule d v, after d v, ret d v).
  Proof. apply walk_spec_all. Qed.

  Lemma walk_fields_spec fs log :
    walk_fields fs log = (log ++ flat_map events (visits_fields fs), after_fields fs).
  Proof. apply walk_spec_all. Qed.

  Lemma walk_values_spec d vs log :
    walk_values d vs log = (log ++ flat_map events (visits_values d vs), after_values d vs).
  Proof. apply walk_spec_all. Qed.

  Lemma walk_root_spec d v :
    walk_root reg proc d v = (schedule d v, after d v).
  Proof. unfold walk_root. rewrite walk_spec. reflexivity. Qed.
End WalkProofs.
