(* Proofs about Model/Proc.v *)
From TxV Require Import Core.Base Model.Proc Gen.SrcProc.

Scheme value_mind := Induction for value Sort Prop
  with fields_mind := Induction for fields Sort Prop
  with values_mind := Induction for values Sort Prop.
Combined Scheme tree_mutind from value_mind, fields_mind, values_mind.

Section WalkProofs.
  Variable reg : nat -> bool.
  Variable proc : nat -> value -> option value.
  Variable truthy : value -> bool.

  (* the walk instantiated by the standard facts; `walk_src_*` below transfers everything to
     the facts translated from the source *)
  Notation walk := (walk std_facts reg proc truthy).
  Notation walk_fields := (walk_fields std_facts reg proc truthy).
  Notation walk_values := (walk_values std_facts reg proc truthy).
  Notation result := (result reg proc).
  Notation after := (after reg proc).
  Notation after_fields := (after_fields reg proc).
  Notation after_values := (after_values reg proc).
  Notation visits := (visits reg proc).
  Notation visits_fields := (visits_fields reg proc).
  Notation visits_values := (visits_values reg proc).
  Notation events := (events reg).
  Notation schedule := (schedule reg proc).
  Notation settle := (settle reg proc).

  Definition ret (d : dcl) (v : value) : option value :=
    if d_match d then None else result d (after d v).

  (* unfolding equations (the mutual fixpoints do not refold nicely under cbn) *)
  Lemma walk_obj d id c fs log :
    walk d (VObj id c fs) log =
    if d_match d then (log, VObj id c fs, None)
    else
      let '(log1, fs') := walk_fields fs log in
      if own_called reg c d
      then if reg (d_nm d)
           then ((log1 ++ [(c_nm c, VObj id c fs')]) ++ [(d_nm d, VObj id c fs')], VObj id c fs',
                 match proc (c_nm c) (VObj id c fs') with Some r => Some r | None => proc (d_nm d) (VObj id c fs') end)
           else (log1 ++ [(c_nm c, VObj id c fs')], VObj id c fs',
                 match proc (c_nm c) (VObj id c fs') with Some r => Some r | None => None end)
      else if reg (d_nm d)
           then (log1 ++ [(d_nm d, VObj id c fs')], VObj id c fs', proc (d_nm d) (VObj id c fs'))
           else (log1, VObj id c fs', None).
  Proof. reflexivity. Qed.

  Lemma walk_nonobj d v log :
    vid v = None ->
    walk d v log =
    if d_match d then (log, v, None)
    else if reg (d_nm d) then (log ++ [(d_nm d, v)], v, proc (d_nm d) v) else (log, v, None).
  Proof. destruct v; [reflexivity | reflexivity | discriminate]. Qed.

  Lemma walk_fields_one n cont d v rest log :
    walk_fields (FOne n cont d v rest) log =
    if cont && negb (is_none v) then
      let '(log1, v', r) := walk d v log in
      let '(log2, rest') := walk_fields rest log1 in
      (log2, FOne n cont d (match r with Some x => x | None => v' end) rest')
    else let '(log2, rest') := walk_fields rest log in (log2, FOne n cont d v rest').
  Proof. reflexivity. Qed.

  Lemma walk_fields_many n cont d vs rest log :
    walk_fields (FMany n cont d vs rest) log =
    if cont && true then
      let '(log1, vs') := walk_values d vs log in
      let '(log2, rest') := walk_fields rest log1 in (log2, FMany n cont d vs' rest')
    else let '(log2, rest') := walk_fields rest log in (log2, FMany n cont d vs rest').
  Proof. reflexivity. Qed.

  Lemma walk_values_cons d v vs0 log :
    walk_values d (VsCons v vs0) log =
    if negb (is_none v) then
      let '(log1, v', r) := walk d v log in
      let '(log2, vs') := walk_values d vs0 log1 in
      (log2, VsCons (match r with Some x => x | None => v' end) vs')
    else let '(log2, vs') := walk_values d vs0 log in (log2, VsCons v vs').
  Proof. reflexivity. Qed.

  Lemma visits_fields_one n cont d v rest :
    visits_fields (FOne n cont d v rest) =
    (if cont then match v with VNone => [] | _ => visits d v end else []) ++ visits_fields rest.
  Proof. reflexivity. Qed.

  Lemma visits_fields_many n cont d vs rest :
    visits_fields (FMany n cont d vs rest) =
    (if cont then visits_values d vs else []) ++ visits_fields rest.
  Proof. reflexivity. Qed.

  Lemma visits_values_cons d v vs0 :
    visits_values d (VsCons v vs0) =
    (match v with VNone => [] | _ => visits d v end) ++ visits_values d vs0.
  Proof. reflexivity. Qed.

  Lemma after_fields_one n cont d v rest :
    after_fields (FOne n cont d v rest) =
    FOne n cont d (if cont then settle d v else v) (after_fields rest).
  Proof. reflexivity. Qed.

  Lemma after_fields_many n cont d vs rest :
    after_fields (FMany n cont d vs rest) =
    FMany n cont d (if cont then after_values d vs else vs) (after_fields rest).
  Proof. reflexivity. Qed.

  Lemma after_values_cons d v vs0 :
    after_values d (VsCons v vs0) = VsCons (settle d v) (after_values d vs0).
  Proof. reflexivity. Qed.

  Lemma settle_not_none d v :
    is_none v = false ->
    settle d v = match ret d v with Some x => x | None => after d v end.
  Proof.
    intro Hn. unfold Proc.settle, ret.
    destruct v as [|a|id c fs]; [discriminate| |];
      destruct (d_match d) eqn:Em; try reflexivity.
    - cbn. rewrite Em. reflexivity.
    - cbn. rewrite Em. reflexivity.
  Qed.

  (* ---------------------------------------------------------------- main lemma *)
  Lemma walk_spec_all :
    (forall v d log, walk d v log = (log ++ flat_map events (visits d v), after d v, ret d v)) /\
    (forall fs log, walk_fields fs log = (log ++ flat_map events (visits_fields fs), after_fields fs)) /\
    (forall vs d log, walk_values d vs log = (log ++ flat_map events (visits_values d vs), after_values d vs)).
  Proof.
    apply tree_mutind.
    - (* VNone *)
      intros d log. rewrite walk_nonobj by reflexivity. unfold ret. cbn [Proc.visits Proc.after].
      destruct (d_match d) eqn:Em.
      + cbn [flat_map]. rewrite app_nil_r. reflexivity.
      + cbn [flat_map Proc.events]. unfold Proc.result.
        destruct (reg (d_nm d)); cbn [app]; rewrite ?app_nil_r; reflexivity.
    - (* VAtom *)
      intros a d log. rewrite walk_nonobj by reflexivity. unfold ret. cbn [Proc.visits Proc.after].
      destruct (d_match d) eqn:Em.
      + cbn [flat_map]. rewrite app_nil_r. reflexivity.
      + cbn [flat_map Proc.events]. unfold Proc.result.
        destruct (reg (d_nm d)); cbn [app]; rewrite ?app_nil_r; reflexivity.
    - (* VObj *)
      intros id c fs IHfs d log. rewrite walk_obj. unfold ret.
      change (visits d (VObj id c fs)) with
        (if d_match d then [] else visits_fields fs ++ [(d, VObj id c (after_fields fs))]).
      change (after d (VObj id c fs)) with
        (if d_match d then VObj id c fs else VObj id c (after_fields fs)).
      destruct (d_match d) eqn:Em.
      + cbn [flat_map]. rewrite app_nil_r. reflexivity.
      + rewrite IHfs. rewrite flat_map_app. cbn [flat_map Proc.events]. unfold Proc.result.
        destruct (own_called reg c d) eqn:Eo; destruct (reg (d_nm d)) eqn:Er;
          cbn [app]; rewrite ?app_nil_r, <- ?app_assoc; cbn [app]; reflexivity.
    - (* FNil *)
      intros log. cbn. rewrite app_nil_r. reflexivity.
    - (* FOne *)
      intros n cont d v IHv rest IHrest log.
      rewrite walk_fields_one, visits_fields_one, after_fields_one.
      destruct cont; cbn [andb].
      + destruct (is_none v) eqn:Hn; cbn [negb].
        * destruct v; try discriminate. rewrite IHrest. reflexivity.
        * rewrite (settle_not_none d v Hn).
          destruct v as [|a|id c fs]; [discriminate| |];
            rewrite IHv, IHrest, flat_map_app, app_assoc; reflexivity.
      + rewrite IHrest. reflexivity.
    - (* FMany *)
      intros n cont d vs IHvs rest IHrest log.
      rewrite walk_fields_many, visits_fields_many, after_fields_many.
      destruct cont; cbn [andb].
      + rewrite IHvs, IHrest. rewrite flat_map_app, app_assoc. reflexivity.
      + rewrite IHrest. reflexivity.
    - (* VsNil *)
      intros d log. cbn. rewrite app_nil_r. reflexivity.
    - (* VsCons *)
      intros v IHv vs IHvs d log.
      rewrite walk_values_cons, visits_values_cons, after_values_cons.
      destruct (is_none v) eqn:Hn; cbn [negb].
      + destruct v; try discriminate. rewrite IHvs. reflexivity.
      + rewrite (settle_not_none d v Hn).
        destruct v as [|a|id c fs]; [discriminate| |];
          rewrite IHv, IHvs, flat_map_app, app_assoc; reflexivity.
  Qed.

  Lemma walk_spec d v log :
    walk d v log = (log ++ schedule d v, after d v, ret d v).
  Proof. apply walk_spec_all. Qed.

  Lemma walk_fields_spec fs log :
    walk_fields fs log = (log ++ flat_map events (visits_fields fs), after_fields fs).
  Proof. apply walk_spec_all. Qed.

  Lemma walk_values_spec d vs log :
    walk_values d vs log = (log ++ flat_map events (visits_values d vs), after_values d vs).
  Proof. apply walk_spec_all. Qed.

  Lemma walk_root_spec d v :
    walk_root std_facts reg proc truthy d v = (schedule d v, after d v).
  Proof. unfold walk_root. rewrite walk_spec. reflexivity. Qed.
End WalkProofs.

(* ------------------------------------------------------------------ the translated facts *)
Lemma rtest_eqb_eq a b : rtest_eqb a b = true -> a = b.
Proof. destruct a, b; (reflexivity || discriminate). Qed.
Lemma wstep_eqb_eq a b : wstep_eqb a b = true -> a = b.
Proof. destruct a, b; (reflexivity || discriminate). Qed.
Lemma wsteps_eqb_eq a : forall b, wsteps_eqb a b = true -> a = b.
Proof.
  induction a as [|x a IH]; intros [|y b] H; try discriminate; [reflexivity|].
  cbn in H. apply andb_true_iff in H. destruct H as [H1 H2].
  apply wstep_eqb_eq in H1. apply IH in H2. congruence.
Qed.
Lemma retpol_eqb_eq a b : retpol_eqb a b = true -> a = b.
Proof. destruct a, b; (reflexivity || discriminate). Qed.

(* the decidable check on the facts pins them completely *)
Lemma facts_ok_std F : facts_ok F = true -> F = std_facts.
Proof.
  destruct F as [f1 f2 f3 f4 f5 f6 f7 f8 f9 f10]. unfold facts_ok. cbn [wf_match_skip wf_only_cont
    wf_attr_test wf_elem_test wf_repl_single wf_repl_list wf_order wf_own_fqn wf_own_name wf_ret].
  intro H.
  apply andb_prop in H; destruct H as [H H10]. apply andb_prop in H; destruct H as [H H9].
  apply andb_prop in H; destruct H as [H H8]. apply andb_prop in H; destruct H as [H H7].
  apply andb_prop in H; destruct H as [H H6]. apply andb_prop in H; destruct H as [H H5].
  apply andb_prop in H; destruct H as [H H4]. apply andb_prop in H; destruct H as [H H3].
  apply andb_prop in H; destruct H as [H1 H2].
  apply rtest_eqb_eq in H3. apply rtest_eqb_eq in H4. apply rtest_eqb_eq in H5. apply rtest_eqb_eq in H6.
  apply wsteps_eqb_eq in H7. apply retpol_eqb_eq in H10.
  destruct f1; [|discriminate H1]. destruct f2; [|discriminate H2].
  destruct f8; [|discriminate H8]. destruct f9; [|discriminate H9].
  subst. reflexivity.
Qed.

Lemma src_facts_ok : facts_ok src_facts = true.
Proof. vm_compute. reflexivity. Qed.

Lemma src_facts_std : src_facts = std_facts.
Proof. apply facts_ok_std, src_facts_ok. Qed.

Lemma walk_src_spec reg proc truthy d v log :
  Proc.walk src_facts reg proc truthy d v log =
  (log ++ schedule reg proc d v, after reg proc d v,
   if d_match d then None else result reg proc d (after reg proc d v)).
Proof. rewrite src_facts_std. apply walk_spec. Qed.

Lemma walk_root_src_spec reg proc truthy d v :
  walk_root src_facts reg proc truthy d v = (schedule reg proc d v, after reg proc d v).
Proof. rewrite src_facts_std. apply walk_root_spec. Qed.

Lemma walk_fields_src_spec reg proc truthy fs log :
  Proc.walk_fields src_facts reg proc truthy fs log =
  (log ++ flat_map (events reg) (visits_fields reg proc fs), after_fields reg proc fs).
Proof. rewrite src_facts_std. apply walk_fields_spec. Qed.

(* ================================================================== corollaries *)
Section Corollaries.
  Variable reg : nat -> bool.
  Variable proc : nat -> value -> option value.

  Notation after := (after reg proc).
  Notation after_fields := (after_fields reg proc).
  Notation after_values := (after_values reg proc).
  Notation visits := (visits reg proc).
  Notation visits_fields := (visits_fields reg proc).
  Notation visits_values := (visits_values reg proc).
  Notation events := (events reg).
  Notation schedule := (schedule reg proc).
  Notation settle := (settle reg proc).
  Notation result := (result reg proc).

  (* the calls made for a node of the ORIGINAL tree *)
  Definition node_events (x : dcl * value) : list (nat * value) :=
    events (fst x, after (fst x) (snd x)).

  Lemma nodes_one n cont d v rest :
    nodes_fields (FOne n cont d v rest) =
    (if cont then match v with VNone => [] | _ => nodes d v end else []) ++ nodes_fields rest.
  Proof. reflexivity. Qed.
  Lemma nodes_many n cont d vs rest :
    nodes_fields (FMany n cont d vs rest) =
    (if cont then nodes_values d vs else []) ++ nodes_fields rest.
  Proof. reflexivity. Qed.
  Lemma nodes_cons d v vs0 :
    nodes_values d (VsCons v vs0) = (match v with VNone => [] | _ => nodes d v end) ++ nodes_values d vs0.
  Proof. reflexivity. Qed.

  Lemma nodes_obj d id c fs :
    nodes d (VObj id c fs) = if d_match d then [] else nodes_fields fs ++ [(d, VObj id c fs)].
  Proof. reflexivity. Qed.
  Lemma visits_obj d id c fs :
    visits d (VObj id c fs) =
    if d_match d then [] else visits_fields fs ++ [(d, VObj id c (after_fields fs))].
  Proof. reflexivity. Qed.
  Lemma after_obj d id c fs :
    after d (VObj id c fs) = if d_match d then VObj id c fs else VObj id c (after_fields fs).
  Proof. reflexivity. Qed.

  Definition vmap (x : dcl * value) : dcl * value := (fst x, after (fst x) (snd x)).

  Lemma visits_nodes_all :
    (forall v d, visits d v = map vmap (nodes d v)) /\
    (forall fs, visits_fields fs = map vmap (nodes_fields fs)) /\
    (forall vs d, visits_values d vs = map vmap (nodes_values d vs)).
  Proof.
    apply tree_mutind.
    - intros d. cbn. destruct (d_match d) eqn:Em; [reflexivity|]. unfold vmap. cbn. rewrite Em. reflexivity.
    - intros a d. cbn. destruct (d_match d) eqn:Em; [reflexivity|]. unfold vmap. cbn. rewrite Em. reflexivity.
    - intros id c fs IH d. rewrite visits_obj, nodes_obj. destruct (d_match d) eqn:Em; [reflexivity|].
      rewrite map_app, IH. cbn [map].
      change (vmap (d, VObj id c fs)) with (d, after d (VObj id c fs)).
      rewrite after_obj, Em. reflexivity.
    - reflexivity.
    - intros n cont d v IHv rest IHrest.
      rewrite visits_fields_one, nodes_one, map_app, IHrest.
      destruct cont; [|reflexivity]. destruct v; [reflexivity| |]; rewrite IHv; reflexivity.
    - intros n cont d vs IHvs rest IHrest.
      rewrite visits_fields_many, nodes_many, map_app, IHrest.
      destruct cont; [|reflexivity]. rewrite IHvs. reflexivity.
    - reflexivity.
    - intros v IHv vs IHvs d.
      rewrite visits_values_cons, nodes_cons, map_app, IHvs.
      destruct v; [reflexivity| |]; rewrite IHv; reflexivity.
  Qed.

  Lemma flat_map_map {A B C} (f : A -> B) (g : B -> list C) l :
    flat_map g (map f l) = flat_map (fun x => g (f x)) l.
  Proof. induction l as [|x l IH]; cbn; [reflexivity|]. rewrite IH. reflexivity. Qed.

  Lemma schedule_nodes d v : schedule d v = flat_map node_events (nodes d v).
  Proof.
    unfold Proc.schedule. rewrite (proj1 visits_nodes_all). rewrite flat_map_map. reflexivity.
  Qed.

  Lemma schedule_fields fs :
    flat_map events (visits_fields fs) = flat_map node_events (nodes_fields fs).
  Proof. rewrite (proj1 (proj2 visits_nodes_all)). rewrite flat_map_map. reflexivity. Qed.

  (* nodes never have a match-rule declared class *)
  Lemma nodes_nonmatch_all :
    (forall v d x, In x (nodes d v) -> d_match (fst x) = false) /\
    (forall fs x, In x (nodes_fields fs) -> d_match (fst x) = false) /\
    (forall vs d x, In x (nodes_values d vs) -> d_match (fst x) = false).
  Proof.
    apply tree_mutind.
    - intros d x. cbn. destruct (d_match d) eqn:Em; cbn; [tauto|]. intros [<-|[]]. exact Em.
    - intros a d x. cbn. destruct (d_match d) eqn:Em; cbn; [tauto|]. intros [<-|[]]. exact Em.
    - intros id c fs IH d x. rewrite nodes_obj. destruct (d_match d) eqn:Em; [intros []|].
      rewrite in_app_iff. intros [H|[<-|[]]]; [apply IH; exact H | exact Em].
    - intros x [].
    - intros n cont d v IHv rest IHrest x. rewrite nodes_one, in_app_iff. intros [H|H]; [|apply IHrest; exact H].
      destruct cont; [|destruct H]. destruct v; [destruct H| |]; apply (IHv d); exact H.
    - intros n cont d vs IHvs rest IHrest x. rewrite nodes_many, in_app_iff. intros [H|H]; [|apply IHrest; exact H].
      destruct cont; [|destruct H]. apply (IHvs d); exact H.
    - intros d x [].
    - intros v IHv vs IHvs d x. rewrite nodes_cons, in_app_iff. intros [H|H]; [|apply (IHvs d); exact H].
      destruct v; [destruct H| |]; apply (IHv d); exact H.
  Qed.

  Lemma vid_after d v : vid (after d v) = vid v.
  Proof. destruct v; cbn; destruct (d_match d); reflexivity. Qed.

  Lemma node_events_id x e : In e (node_events x) -> ev_id e = vid (snd x).
  Proof.
    destruct x as [d v]. unfold node_events, Proc.events, ev_id. cbn [fst snd].
    rewrite in_app_iff. intros [H|H].
    - destruct (after d v) eqn:Ea; try destruct H.
      destruct (own_called reg c d); [|destruct H]. destruct H as [<-|[]]. cbn [snd].
      rewrite <- Ea. apply vid_after.
    - destruct (reg (d_nm d)); [|destruct H]. destruct H as [<-|[]]. cbn [snd]. apply vid_after.
  Qed.

  (* ------------------------------------------------------------- counting *)
  Lemma calls_on_app p i l1 l2 : calls_on p i (l1 ++ l2) = calls_on p i l1 + calls_on p i l2.
  Proof. unfold calls_on. rewrite filter_app, app_length. reflexivity. Qed.

  Lemma calls_on_none p i l :
    (forall e, In e l -> ev_id e <> Some i) -> calls_on p i l = 0.
  Proof.
    unfold calls_on. induction l as [|e l IH]; intro H; [reflexivity|].
    cbn [filter]. unfold is_call at 1.
    destruct (ev_id e) as [j|] eqn:Ej.
    - destruct (Nat.eqb j i) eqn:Eji.
      + apply Nat.eqb_eq in Eji. subst j. exfalso. apply (H e); [left; reflexivity | exact Ej].
      + rewrite andb_false_r. apply IH. intros e' He'. apply H. right. exact He'.
    - rewrite andb_false_r. apply IH. intros e' He'. apply H. right. exact He'.
  Qed.

  Lemma ids_of_app l1 l2 : ids_of (l1 ++ l2) = ids_of l1 ++ ids_of l2.
  Proof.
    induction l1 as [|[d v] l1 IH]; [reflexivity|]. cbn [app ids_of].
    destruct (vid v); rewrite IH; reflexivity.
  Qed.

  Lemma ids_of_In l x i : In x l -> vid (snd x) = Some i -> In i (ids_of l).
  Proof.
    induction l as [|[d v] l IH]; [intros []|]. intros [<-|H] Hi; cbn [ids_of snd] in *.
    - rewrite Hi. left. reflexivity.
    - destruct (vid v); [right|]; apply IH; assumption.
  Qed.

  Lemma calls_outside p i l :
    ~ In i (ids_of l) -> calls_on p i (flat_map node_events l) = 0.
  Proof.
    intro Hn. apply calls_on_none. intros e He Hid.
    apply in_flat_map in He. destruct He as [x [Hx He]].
    apply node_events_id in He. rewrite He in Hid. apply Hn. eapply ids_of_In; eassumption.
  Qed.

  (* calls on one node *)
  Definition b2n (b : bool) : nat := if b then 1 else 0.

  Lemma calls_node p d id c fs :
    calls_on p id (node_events (d, VObj id c fs)) =
    b2n (own_called reg c d && Nat.eqb (c_nm c) p) + b2n (reg (d_nm d) && Nat.eqb (d_nm d) p).
  Proof.
    unfold node_events, Proc.events. cbn [fst snd].
    assert (Ha : exists fs', after d (VObj id c fs) = VObj id c fs').
    { rewrite after_obj. destruct (d_match d); eexists; reflexivity. }
    destruct Ha as [fs' ->]. rewrite calls_on_app. f_equal.
    - destruct (own_called reg c d); [|reflexivity]. unfold calls_on, is_call, ev_id. cbn.
      rewrite Nat.eqb_refl, andb_true_r. destruct (Nat.eqb (c_nm c) p); reflexivity.
    - destruct (reg (d_nm d)); [|reflexivity]. unfold calls_on, is_call, ev_id. cbn.
      rewrite Nat.eqb_refl, andb_true_r. destruct (Nat.eqb (d_nm d) p); reflexivity.
  Qed.

  Lemma calls_count d v d' id c fs p :
    NoDup (ids_of (nodes d v)) -> In (d', VObj id c fs) (nodes d v) ->
    calls_on p id (schedule d v) =
    b2n (own_called reg c d' && Nat.eqb (c_nm c) p) + b2n (reg (d_nm d') && Nat.eqb (d_nm d') p).
  Proof.
    intros Hnd Hin. rewrite schedule_nodes.
    apply in_split in Hin. destruct Hin as [l1 [l2 E]]. rewrite E in *.
    rewrite ids_of_app in Hnd. cbn [ids_of vid] in Hnd.
    apply NoDup_remove_2 in Hnd. rewrite in_app_iff in Hnd.
    rewrite flat_map_app. cbn [flat_map]. rewrite !calls_on_app.
    rewrite (calls_outside p id l1) by tauto.
    rewrite (calls_outside p id l2) by tauto.
    rewrite calls_node. lia.
  Qed.

  (* exactly once for the object's own rule *)
  Lemma once_own d v d' id c fs :
    NoDup (ids_of (nodes d v)) -> In (d', VObj id c fs) (nodes d v) -> reg (c_nm c) = true ->
    calls_on (c_nm c) id (schedule d v) = 1.
  Proof.
    intros Hnd Hin Hr. rewrite (calls_count d v d' id c fs) by assumption.
    unfold own_called. rewrite Hr, Nat.eqb_refl, !andb_true_r.
    destruct (Nat.eqb (c_nm c) (d_nm d')) eqn:En.
    - apply Nat.eqb_eq in En. rewrite <- En, Hr, Nat.eqb_refl, andb_false_r. reflexivity.
    - rewrite andb_true_r. rewrite Nat.eqb_sym, En, andb_false_r.
      destruct (fqn_eqb c (d_cls d')) eqn:Ef; [|reflexivity].
      exfalso. unfold fqn_eqb in Ef. apply andb_true_iff in Ef. destruct Ef as [_ Ef].
      unfold d_nm in En. rewrite Ef in En. discriminate.
  Qed.

  (* exactly once for the declared rule of the slot *)
  Lemma once_declared d v d' id c fs :
    NoDup (ids_of (nodes d v)) -> In (d', VObj id c fs) (nodes d v) -> reg (d_nm d') = true ->
    calls_on (d_nm d') id (schedule d v) = 1.
  Proof.
    intros Hnd Hin Hr. rewrite (calls_count d v d' id c fs) by assumption.
    rewrite Hr, Nat.eqb_refl. cbn [andb b2n].
    unfold own_called. destruct (Nat.eqb (c_nm c) (d_nm d')) eqn:En.
    - cbn. rewrite andb_false_r. reflexivity.
    - rewrite andb_false_r. reflexivity.
  Qed.

  (* ------------------------------------------------------------- sub-schedules are contiguous *)
  Lemma nodes_split_all :
    (forall v d x, In x (nodes d v) -> exists n1 n2, nodes d v = n1 ++ nodes (fst x) (snd x) ++ n2) /\
    (forall fs x, In x (nodes_fields fs) -> exists n1 n2, nodes_fields fs = n1 ++ nodes (fst x) (snd x) ++ n2) /\
    (forall vs d x, In x (nodes_values d vs) -> exists n1 n2, nodes_values d vs = n1 ++ nodes (fst x) (snd x) ++ n2).
  Proof.
    apply tree_mutind.
    - intros d x. cbn. destruct (d_match d) eqn:Em; cbn; [tauto|]. intros [<-|[]].
      exists [], []. cbn. rewrite Em. reflexivity.
    - intros a d x. cbn. destruct (d_match d) eqn:Em; cbn; [tauto|]. intros [<-|[]].
      exists [], []. cbn. rewrite Em. reflexivity.
    - intros id c fs IH d x. rewrite nodes_obj. destruct (d_match d) eqn:Em; [intros []|].
      rewrite in_app_iff. intros [H|[<-|[]]].
      + destruct (IH x H) as [n1 [n2 E]]. exists n1, (n2 ++ [(d, VObj id c fs)]).
        rewrite E, <- !app_assoc. reflexivity.
      + exists [], []. cbn [fst snd]. rewrite nodes_obj, Em, app_nil_r. reflexivity.
    - intros x [].
    - intros n cont d v IHv rest IHrest x. rewrite nodes_one, in_app_iff. intros [H|H].
      + destruct cont; [|destruct H].
        assert (Hv : In x (nodes d v)) by (destruct v; [destruct H| |]; exact H).
        destruct (IHv d x Hv) as [n1 [n2 E]].
        exists n1, (n2 ++ nodes_fields rest).
        destruct v; [destruct H| |]; rewrite E, <- !app_assoc; reflexivity.
      + destruct (IHrest x H) as [n1 [n2 E]].
        exists ((if cont then match v with VNone => [] | _ => nodes d v end else []) ++ n1), n2.
        rewrite E, <- !app_assoc. reflexivity.
    - intros n cont d vs IHvs rest IHrest x. rewrite nodes_many, in_app_iff. intros [H|H].
      + destruct cont; [|destruct H]. destruct (IHvs d x H) as [n1 [n2 E]].
        exists n1, (n2 ++ nodes_fields rest). rewrite E, <- !app_assoc. reflexivity.
      + destruct (IHrest x H) as [n1 [n2 E]].
        exists ((if cont then nodes_values d vs else []) ++ n1), n2.
        rewrite E, <- !app_assoc. reflexivity.
    - intros d x [].
    - intros v IHv vs IHvs d x. rewrite nodes_cons, in_app_iff. intros [H|H].
      + assert (Hv : In x (nodes d v)) by (destruct v; [destruct H| |]; exact H).
        destruct (IHv d x Hv) as [n1 [n2 E]].
        exists n1, (n2 ++ nodes_values d vs).
        destruct v; [destruct H| |]; rewrite E, <- !app_assoc; reflexivity.
      + destruct (IHvs d x H) as [n1 [n2 E]].
        exists ((match v with VNone => [] | _ => nodes d v end) ++ n1), n2.
        rewrite E, <- !app_assoc. reflexivity.
  Qed.

  Lemma NoDup_app_disjoint {A} (l1 l2 : list A) x : NoDup (l1 ++ l2) -> In x l1 -> ~ In x l2.
  Proof.
    induction l1 as [|a l1 IH]; [intros _ []|]. cbn [app]. intros Hnd [<-|Hx] H2.
    - apply NoDup_cons_iff in Hnd. destruct Hnd as [Hn _]. apply Hn. apply in_or_app. right. exact H2.
    - apply NoDup_cons_iff in Hnd. destruct Hnd as [_ Hnd]. exact (IH Hnd Hx H2).
  Qed.

  Lemma NoDup_app_l {A} (l1 l2 : list A) : NoDup (l1 ++ l2) -> NoDup l1.
  Proof.
    induction l1 as [|a l1 IH]; [constructor|]. cbn [app]. intro H. apply NoDup_cons_iff in H.
    destruct H as [Hn H]. constructor; [|apply IH; exact H]. intro Ha. apply Hn. apply in_or_app. left. exact Ha.
  Qed.

  Lemma NoDup_app_r {A} (l1 l2 : list A) : NoDup (l1 ++ l2) -> NoDup l2.
  Proof.
    induction l1 as [|a l1 IH]; [tauto|]. cbn [app]. intro H. apply NoDup_cons_iff in H. apply IH, H.
  Qed.

  Lemma events_ids_in l e i : In e (flat_map node_events l) -> ev_id e = Some i -> In i (ids_of l).
  Proof.
    intros He Hid. apply in_flat_map in He. destruct He as [x [Hx He]].
    apply node_events_id in He. rewrite He in Hid. eapply ids_of_In; eassumption.
  Qed.

  (* children first, then the container; contiguous *)
  Lemma subtree_contiguous d v d' id c fs :
    NoDup (ids_of (nodes d v)) -> In (d', VObj id c fs) (nodes d v) ->
    exists l1 l2,
      schedule d v = l1 ++ (flat_map node_events (nodes_fields fs) ++ node_events (d', VObj id c fs)) ++ l2 /\
      (forall e i, In e (flat_map node_events (nodes_fields fs)) -> ev_id e = Some i ->
                   In i (below (VObj id c fs))) /\
      (forall e, In e (node_events (d', VObj id c fs)) -> ev_id e = Some id) /\
      (forall e i, In e (l1 ++ l2) -> ev_id e = Some i -> i <> id /\ ~ In i (below (VObj id c fs))) /\
      ~ In id (below (VObj id c fs)).
  Proof.
    intros Hnd Hin.
    assert (Hm : d_match d' = false) by (apply (proj1 nodes_nonmatch_all v d _ Hin)).
    destruct (proj1 nodes_split_all v d _ Hin) as [n1 [n2 E]]. cbn [fst snd] in E.
    assert (En : nodes d' (VObj id c fs) = nodes_fields fs ++ [(d', VObj id c fs)]).
    { rewrite nodes_obj, Hm. reflexivity. }
    rewrite En in E.
    exists (flat_map node_events n1), (flat_map node_events n2).
    rewrite schedule_nodes, E, !flat_map_app. cbn [flat_map]. rewrite app_nil_r.
    rewrite E, !ids_of_app in Hnd. cbn [ids_of vid] in Hnd.
    split; [reflexivity|]. split; [|split; [|split]].
    - intros e i He Hi. cbn [below]. eapply events_ids_in; eassumption.
    - intros e He. apply node_events_id in He. exact He.
    - intros e i He Hi. rewrite in_app_iff in He. cbn [below].
      destruct He as [He|He].
      + pose proof (events_ids_in _ _ _ He Hi) as Hi1.
        pose proof (NoDup_app_disjoint _ _ i Hnd Hi1) as Hd.
        rewrite !in_app_iff in Hd. cbn [In] in Hd. split; [intros ->|]; tauto.
      + pose proof (events_ids_in _ _ _ He Hi) as Hi2.
        apply NoDup_app_r in Hnd.
        assert (Hd : ~ In i (ids_of (nodes_fields fs) ++ [id])).
        { intro Hx. exact (NoDup_app_disjoint _ _ i Hnd Hx Hi2). }
        rewrite in_app_iff in Hd. cbn [In] in Hd. split; [intros ->|]; tauto.
    - cbn [below]. apply NoDup_app_r in Hnd. apply NoDup_app_l in Hnd.
      intro Hx. apply NoDup_remove_2 in Hnd. rewrite app_nil_r in Hnd. exact (Hnd Hx).
  Qed.

  (* own-rule call immediately followed by the declared-rule call *)
  Lemma own_then_declared d v d' id c fs :
    In (d', VObj id c fs) (nodes d v) ->
    own_called reg c d' = true -> reg (d_nm d') = true ->
    exists l1 l2, schedule d v =
      l1 ++ [(c_nm c, after d' (VObj id c fs)); (d_nm d', after d' (VObj id c fs))] ++ l2.
  Proof.
    intros Hin Ho Hr. rewrite schedule_nodes.
    apply in_split in Hin. destruct Hin as [n1 [n2 E]]. rewrite E, flat_map_app. cbn [flat_map].
    exists (flat_map node_events n1), (flat_map node_events n2).
    f_equal. f_equal. unfold node_events, Proc.events. cbn [fst snd].
    assert (Ha : exists fs', after d' (VObj id c fs) = VObj id c fs').
    { rewrite after_obj. destruct (d_match d'); eexists; reflexivity. }
    destruct Ha as [fs' ->]. rewrite Ho, Hr. reflexivity.
  Qed.

  (* ------------------------------------------------------------- replacement *)
  Lemma result_own_dominates d id c fs r :
    own_called reg c d = true -> proc (c_nm c) (VObj id c fs) = Some r ->
    result d (VObj id c fs) = Some r.
  Proof. intros Ho Hp. unfold Proc.result. rewrite Ho, Hp. reflexivity. Qed.

  Lemma result_declared d id c fs :
    own_called reg c d = false \/ proc (c_nm c) (VObj id c fs) = None ->
    result d (VObj id c fs) = if reg (d_nm d) then proc (d_nm d) (VObj id c fs) else None.
  Proof.
    intros H. unfold Proc.result. destruct (own_called reg c d); [|reflexivity].
    destruct H as [H|H]; [discriminate|]. rewrite H. reflexivity.
  Qed.

  Lemma after_values_list d vs :
    values_to_list (after_values d vs) = map (settle d) (values_to_list vs).
  Proof.
    induction vs as [|v vs IH]; [reflexivity|]. rewrite after_values_cons. cbn [values_to_list map].
    rewrite IH. reflexivity.
  Qed.

  Lemma settle_cases d v :
    settle d v =
    if is_none v then VNone
    else if d_match d then v
    else match result d (after d v) with Some r => r | None => after d v end.
  Proof. destruct v; reflexivity. Qed.
End Corollaries.

(* ================================================================== phases of a load *)
Section Phases.
  Definition nolink (x : lev) : bool := negb (is_link_or_init x).

  Lemma procs_last_app t1 t2 :
    procs_last t1 = true -> procs_last t2 = true ->
    (existsb is_proc t1 = false \/ forallb nolink t2 = true) ->
    procs_last (t1 ++ t2) = true.
  Proof.
    induction t1 as [|e t1 IH]; intros H1 H2 H; [exact H2|].
    cbn [app procs_last] in *. apply andb_true_iff in H1. destruct H1 as [He H1].
    apply andb_true_iff. split.
    - destruct (is_proc e) eqn:Ep; [|reflexivity].
      destruct H as [H|H]; [cbn [existsb] in H; rewrite Ep in H; discriminate|].
      fold nolink in *. rewrite forallb_app, He, H. reflexivity.
    - apply IH; [exact H1 | exact H2 |].
      destruct H as [H|H]; [left|right; exact H].
      cbn [existsb] in H. apply orb_false_iff in H. apply H.
  Qed.

  Lemma procs_last_nolink t : forallb nolink t = true -> procs_last t = true.
  Proof.
    induction t as [|e t IH]; [reflexivity|]. cbn [forallb procs_last]. intro H.
    apply andb_true_iff in H. destruct H as [_ H]. rewrite (IH H), andb_true_r.
    destruct (is_proc e); [exact H | reflexivity].
  Qed.

  Lemma procs_last_noproc t : existsb is_proc t = false -> procs_last t = true.
  Proof.
    induction t as [|e t IH]; [reflexivity|]. cbn [existsb procs_last]. intro H.
    apply orb_false_iff in H. destruct H as [He H]. rewrite He, (IH H). reflexivity.
  Qed.

  (* trace of one phase *)
  Definition phase_trace (p : phase) (models : list nat) : list lev :=
    match p with
    | PResolveLoop => map LResolve models
    | PRaiseUnresolved => []
    | PForEach body => flat_map (fun m => flat_map (run_step m) body) models
    end.

  Lemma body_nolink body m :
    existsb step_is_init body = false -> forallb nolink (flat_map (run_step m) body) = true.
  Proof.
    induction body as [|s body IH]; [reflexivity|]. cbn [existsb flat_map]. intro H.
    apply orb_false_iff in H. destruct H as [Hs H]. rewrite forallb_app, (IH H), andb_true_r.
    destruct s; [discriminate| |]; reflexivity.
  Qed.

  Lemma body_noproc body m :
    existsb step_is_proc body = false -> existsb is_proc (flat_map (run_step m) body) = false.
  Proof.
    induction body as [|s body IH]; [reflexivity|]. cbn [existsb flat_map]. intro H.
    apply orb_false_iff in H. destruct H as [Hs H]. rewrite existsb_app, (IH H), orb_false_r.
    destruct s; [| |discriminate]; reflexivity.
  Qed.

  Lemma phase_nolink p models : phase_has_link p = false -> forallb nolink (phase_trace p models) = true.
  Proof.
    destruct p as [| |body]; cbn [phase_has_link phase_trace]; intro H; [discriminate|reflexivity|].
    induction models as [|m models IH]; [reflexivity|]. cbn [flat_map].
    rewrite forallb_app, IH, (body_nolink body m H). reflexivity.
  Qed.

  Lemma phase_noproc p models : phase_has_proc p = false -> existsb is_proc (phase_trace p models) = false.
  Proof.
    destruct p as [| |body]; cbn [phase_has_proc phase_trace]; intro H.
    - induction models as [|m models IH]; [reflexivity|]. cbn. exact IH.
    - reflexivity.
    - induction models as [|m models IH]; [reflexivity|]. cbn [flat_map].
      rewrite existsb_app, IH, (body_noproc body m H). reflexivity.
  Qed.

  (* a body without init steps: per model, processor events only follow non-link events *)
  Lemma phase_procs_last p models : phase_has_link p = false -> procs_last (phase_trace p models) = true.
  Proof. intro H. apply procs_last_nolink, phase_nolink, H. Qed.

  Lemma run_phases_nolink ps models u :
    forallb (fun q => negb (phase_has_link q)) ps = true -> forallb nolink (run_phases ps models u) = true.
  Proof.
    induction ps as [|p ps IH]; [reflexivity|]. cbn [forallb]. intro H.
    apply andb_true_iff in H. destruct H as [Hp H]. apply negb_true_iff in Hp.
    destruct p as [| |body]; cbn [run_phases].
    - discriminate.
    - destruct u; [reflexivity | apply IH, H].
    - rewrite forallb_app, (IH H), andb_true_r. exact (phase_nolink (PForEach body) models Hp).
  Qed.

  Lemma run_phases_cons p ps models u :
    run_phases (p :: ps) models u =
    match p with
    | PRaiseUnresolved => if u then [LRaise] else run_phases ps models u
    | _ => phase_trace p models ++ run_phases ps models u
    end.
  Proof. destruct p; reflexivity. Qed.

  Lemma order_of_phases ps models u :
    no_link_after_proc ps = true -> procs_last (run_phases ps models u) = true.
  Proof.
    induction ps as [|p ps IH]; [reflexivity|]. cbn [no_link_after_proc]. intro H.
    apply andb_true_iff in H. destruct H as [Hp H]. specialize (IH H).
    rewrite run_phases_cons.
    destruct (phase_has_proc p) eqn:Ep.
    - cbn [forallb] in Hp. apply andb_true_iff in Hp. destruct Hp as [Hl Hrest].
      apply negb_true_iff in Hl.
      destruct p as [| |body]; [discriminate|discriminate|].
      apply procs_last_app; [apply phase_procs_last, Hl | exact IH | right].
      apply run_phases_nolink, Hrest.
    - destruct p as [| |body].
      + apply procs_last_app; [apply procs_last_noproc, phase_noproc, Ep | exact IH | left; apply phase_noproc, Ep].
      + destruct u; [reflexivity | exact IH].
      + apply procs_last_app; [apply procs_last_noproc, phase_noproc, Ep | exact IH | left; apply phase_noproc, Ep].
  Qed.

  Lemma no_procs_when_unresolved ps models :
    guarded ps = true -> existsb is_proc (run_phases ps models true) = false.
  Proof.
    induction ps as [|p ps IH]; [reflexivity|]. intro H. rewrite run_phases_cons.
    destruct p as [| |body]; cbn [guarded] in H.
    - apply andb_true_iff in H. destruct H as [_ H]. rewrite existsb_app, (IH H), orb_false_r.
      apply (phase_noproc PResolveLoop). reflexivity.
    - reflexivity.
    - apply andb_true_iff in H. destruct H as [Hp H]. apply negb_true_iff in Hp.
      rewrite existsb_app, (IH H), orb_false_r. apply (phase_noproc (PForEach body)), Hp.
  Qed.

  (* splitting form of procs_last *)
  Lemma procs_last_split tr :
    procs_last tr = true ->
    forall l1 e l2, tr = l1 ++ e :: l2 -> is_proc e = true ->
    forall x, In x l2 -> is_link_or_init x = false.
  Proof.
    induction tr as [|a tr IH]; intros H l1 e l2 E Ep x Hx.
    - destruct l1; discriminate.
    - cbn [procs_last] in H. apply andb_true_iff in H. destruct H as [Ha H].
      destruct l1 as [|b l1]; cbn [app] in E; inversion E; subst.
      + rewrite Ep in Ha. rewrite forallb_forall in Ha. specialize (Ha x Hx).
        apply negb_true_iff in Ha. exact Ha.
      + eapply IH; [exact H | reflexivity | exact Ep | exact Hx].
  Qed.

  (* every model gets its processors exactly once *)
  Definition count_lev (f : lev -> bool) (tr : list lev) : nat := length (filter f tr).

  Lemma count_lev_app f t1 t2 : count_lev f (t1 ++ t2) = count_lev f t1 + count_lev f t2.
  Proof. unfold count_lev. rewrite filter_app, app_length. reflexivity. Qed.

  Lemma count_body m k body :
    count_lev (lev_is_proc_of m) (flat_map (run_step k) body) =
    if Nat.eqb k m then length (filter step_is_proc body) else 0.
  Proof.
    induction body as [|s body IH]; [destruct (Nat.eqb k m); reflexivity|].
    cbn [flat_map]. rewrite count_lev_app, IH.
    destruct s; cbn; destruct (Nat.eqb k m); reflexivity.
  Qed.

  Lemma count_phase m p models :
    count_lev (lev_is_proc_of m) (phase_trace p models) = count_occ Nat.eq_dec models m * nprocs_phase p.
  Proof.
    destruct p as [| |body]; cbn [phase_trace nprocs_phase].
    - rewrite Nat.mul_0_r. induction models as [|k models IH]; [reflexivity|]. exact IH.
    - rewrite Nat.mul_0_r. reflexivity.
    - induction models as [|k models IH]; [reflexivity|].
      cbn [flat_map count_occ]. rewrite count_lev_app, IH, count_body.
      destruct (Nat.eq_dec k m) as [->|Hn].
      + rewrite Nat.eqb_refl. lia.
      + apply Nat.eqb_neq in Hn. rewrite Hn. lia.
  Qed.

  Lemma count_run m ps models :
    count_lev (lev_is_proc_of m) (run_phases ps models false) = count_occ Nat.eq_dec models m * nprocs ps.
  Proof.
    induction ps as [|p ps IH]; [cbn; lia|].
    rewrite run_phases_cons. unfold nprocs. cbn [fold_right]. fold (nprocs ps).
    destruct p as [| |body].
    - rewrite count_lev_app, IH, count_phase. lia.
    - rewrite IH. cbn [nprocs_phase]. lia.
    - rewrite count_lev_app, IH, count_phase. lia.
  Qed.

  Lemma processors_once_per_model m ps models :
    nprocs ps = 1 -> NoDup models -> In m models ->
    count_lev (lev_is_proc_of m) (run_phases ps models false) = 1.
  Proof.
    intros Hn Hnd Hin. rewrite count_run, Hn, Nat.mul_1_r.
    apply NoDup_count_occ' ; assumption.
  Qed.

  Lemma icount_body m k body :
    count_lev (lev_is_init_of m) (flat_map (run_step k) body) =
    if Nat.eqb k m then length (filter step_is_init body) else 0.
  Proof.
    induction body as [|s body IH]; [destruct (Nat.eqb k m); reflexivity|].
    cbn [flat_map]. rewrite count_lev_app, IH.
    destruct s; cbn; destruct (Nat.eqb k m); reflexivity.
  Qed.

  Lemma icount_phase m p models :
    count_lev (lev_is_init_of m) (phase_trace p models) = count_occ Nat.eq_dec models m * ninits_phase p.
  Proof.
    destruct p as [| |body]; cbn [phase_trace ninits_phase].
    - rewrite Nat.mul_0_r. induction models as [|k models IH]; [reflexivity|]. exact IH.
    - rewrite Nat.mul_0_r. reflexivity.
    - induction models as [|k models IH]; [reflexivity|].
      cbn [flat_map count_occ]. rewrite count_lev_app, IH, icount_body.
      destruct (Nat.eq_dec k m) as [->|Hn].
      + rewrite Nat.eqb_refl. lia.
      + apply Nat.eqb_neq in Hn. rewrite Hn. lia.
  Qed.

  Lemma icount_run m ps models :
    count_lev (lev_is_init_of m) (run_phases ps models false) = count_occ Nat.eq_dec models m * ninits ps.
  Proof.
    induction ps as [|p ps IH]; [cbn; lia|].
    rewrite run_phases_cons. unfold ninits. cbn [fold_right]. fold (ninits ps).
    destruct p as [| |body].
    - rewrite count_lev_app, IH, icount_phase. lia.
    - rewrite IH. cbn [ninits_phase]. lia.
    - rewrite count_lev_app, IH, icount_phase. lia.
  Qed.

  Lemma init_once_per_model m ps models :
    ninits ps = 1 -> NoDup models -> In m models ->
    count_lev (lev_is_init_of m) (run_phases ps models false) = 1.
  Proof.
    intros Hn Hnd Hin. rewrite icount_run, Hn, Nat.mul_1_r.
    apply NoDup_count_occ' ; assumption.
  Qed.
End Phases.

(* ================================================================== statements as used by Props/C13.v *)
Section Final.
  Variable reg : nat -> bool.
  Variable proc : nat -> value -> option value.
  Variable truthy : value -> bool.

  (* the calls made / the tree left by the walk instantiated with the facts of the source *)
  Definition log_of (d : dcl) (v : value) : list (nat * value) := fst (walk_root src_facts reg proc truthy d v).
  Definition model_after (d : dcl) (v : value) : value := snd (walk_root src_facts reg proc truthy d v).

  Lemma log_of_schedule d v : log_of d v = schedule reg proc d v.
  Proof. unfold log_of. rewrite walk_root_src_spec. reflexivity. Qed.

  Lemma final_once_own d v d' id c fs :
    NoDup (ids_of (nodes d v)) -> In (d', VObj id c fs) (nodes d v) -> reg (c_nm c) = true ->
    calls_on (c_nm c) id (log_of d v) = 1.
  Proof. intros. rewrite log_of_schedule. eapply once_own; eassumption. Qed.

  Lemma final_calls_count d v d' id c fs p :
    NoDup (ids_of (nodes d v)) -> In (d', VObj id c fs) (nodes d v) ->
    calls_on p id (log_of d v) =
    b2n (own_called reg c d' && Nat.eqb (c_nm c) p) + b2n (reg (d_nm d') && Nat.eqb (d_nm d') p).
  Proof. intros. rewrite log_of_schedule. eapply calls_count; eassumption. Qed.

  Lemma final_declared d v d' id c fs :
    NoDup (ids_of (nodes d v)) -> In (d', VObj id c fs) (nodes d v) -> reg (d_nm d') = true ->
    calls_on (d_nm d') id (log_of d v) = 1 /\
    (c_nm c <> d_nm d' -> reg (c_nm c) = true ->
     exists l1 l2, log_of d v =
       l1 ++ [(c_nm c, after reg proc d' (VObj id c fs)); (d_nm d', after reg proc d' (VObj id c fs))] ++ l2).
  Proof.
    intros Hnd Hin Hr. rewrite log_of_schedule. split.
    - eapply once_declared; eassumption.
    - intros Hne Hrc. apply own_then_declared; [exact Hin | | exact Hr].
      unfold own_called. rewrite Hrc, andb_true_r.
      apply Nat.eqb_neq in Hne. rewrite Hne. cbn [negb]. rewrite andb_true_r.
      destruct (fqn_eqb c (d_cls d')) eqn:Ef; [|reflexivity].
      exfalso. unfold fqn_eqb in Ef. apply andb_true_iff in Ef. destruct Ef as [_ Ef].
      unfold d_nm in Hne. rewrite Ef in Hne. discriminate.
  Qed.

  Lemma final_atoms d v d' a :
    In (d', VAtom a) (nodes d v) -> reg (d_nm d') = true ->
    exists l1 l2, log_of d v = l1 ++ [(d_nm d', VAtom a)] ++ l2.
  Proof.
    intros Hin Hr. rewrite log_of_schedule, schedule_nodes.
    apply in_split in Hin. destruct Hin as [n1 [n2 E]]. rewrite E, flat_map_app. cbn [flat_map].
    exists (flat_map (node_events reg proc) n1), (flat_map (node_events reg proc) n2).
    f_equal. f_equal. unfold node_events, Proc.events. cbn [fst snd].
    assert (Ha : after reg proc d' (VAtom a) = VAtom a) by (cbn; destruct (d_match d'); reflexivity).
    rewrite Ha, Hr. reflexivity.
  Qed.

  Lemma final_children_first d v d' id c fs :
    NoDup (ids_of (nodes d v)) -> In (d', VObj id c fs) (nodes d v) ->
    exists l1 sub own l2,
      log_of d v = l1 ++ (sub ++ own) ++ l2 /\
      sub = flat_map (events reg) (visits_fields reg proc fs) /\
      own = events reg (d', after reg proc d' (VObj id c fs)) /\
      (forall e i, In e sub -> ev_id e = Some i -> In i (below (VObj id c fs))) /\
      (forall e, In e own -> ev_id e = Some id) /\
      (forall e i, In e (l1 ++ l2) -> ev_id e = Some i -> i <> id /\ ~ In i (below (VObj id c fs))) /\
      ~ In id (below (VObj id c fs)).
  Proof.
    intros Hnd Hin. rewrite log_of_schedule.
    destruct (subtree_contiguous reg proc d v d' id c fs Hnd Hin) as [l1 [l2 [E [H1 [H2 [H3 H4]]]]]].
    exists l1, (flat_map (node_events reg proc) (nodes_fields fs)), (node_events reg proc (d', VObj id c fs)), l2.
    split; [exact E|]. split; [symmetry; apply schedule_fields|]. split; [reflexivity|].
    split; [exact H1|]. split; [exact H2|]. split; [exact H3 | exact H4].
  Qed.

  (* all objects below an object are nodes of the tree: `below` really lists the contained objects *)

  Lemma final_model d v : model_after d v = after reg proc d v.
  Proof. unfold model_after. rewrite walk_root_src_spec. reflexivity. Qed.

  Lemma final_slot_one n d v rest log :
    snd (Proc.walk_fields src_facts reg proc truthy (FOne n true d v rest) log) =
    FOne n true d (settle reg proc d v) (after_fields reg proc rest).
  Proof. rewrite walk_fields_src_spec. reflexivity. Qed.

  Lemma final_slot_many n d vs rest log :
    exists vs', snd (Proc.walk_fields src_facts reg proc truthy (FMany n true d vs rest) log) =
                FMany n true d vs' (after_fields reg proc rest) /\
                values_to_list vs' = map (settle reg proc d) (values_to_list vs).
  Proof.
    rewrite walk_fields_src_spec. exists (after_values reg proc d vs). split; [reflexivity|].
    apply after_values_list.
  Qed.

  Lemma final_noncont_untouched n d v rest log :
    snd (Proc.walk_fields src_facts reg proc truthy (FOne n false d v rest) log) = FOne n false d v (after_fields reg proc rest).
  Proof. rewrite walk_fields_src_spec. reflexivity. Qed.
End Final.

(* ================================================================== match-rule processors *)
Scheme ptree_mind := Induction for ptree Sort Prop
  with ptrees_mind := Induction for ptrees Sort Prop.
Combined Scheme ptree_mutind from ptree_mind, ptrees_mind.

Section MatchProofs.
  Variable mreg : nat -> bool.
  Variable mproc : nat -> list N -> list N.
  Notation pmatch := (pmatch mreg mproc).
  Notation pmatch_join := (pmatch_join mreg mproc).
  Notation mval := (mval mreg mproc).
  Notation mvals := (mvals mreg mproc).
  Notation mevents_kids := (mevents_kids mreg mproc).

  Lemma pmatch_node r ks log :
    pmatch (PNode r ks) log =
    let '(log1, res) := match ks with PCons k PNil => pmatch k log | _ => pmatch_join ks log end in
    mcall mreg mproc r res log1.
  Proof. reflexivity. Qed.

  Lemma pmatch_join_cons k ks log :
    pmatch_join (PCons k ks) log =
    let '(log1, a) := pmatch k log in let '(log2, b) := pmatch_join ks log1 in (log2, a ++ b).
  Proof. reflexivity. Qed.

  Lemma mcall_spec r s log :
    mcall mreg mproc r s log = (log ++ (if mreg r then [(r, s)] else []), mapp mreg mproc r s).
  Proof. unfold mcall, mapp. destruct (mreg r); [reflexivity | rewrite app_nil_r; reflexivity]. Qed.

  Lemma pmatch_spec_all :
    (forall t log, pmatch t log = (log ++ Proc.mevents mreg mproc t, mval t)) /\
    (forall ks log, pmatch_join ks log = (log ++ mevents_kids ks, mvals ks)).
  Proof.
    apply ptree_mutind.
    - intros r s log. cbn [Proc.pmatch Proc.mevents Proc.mval]. apply mcall_spec.
    - intros r ks IH log. rewrite pmatch_node.
      assert (E : match ks with PCons k PNil => pmatch k log | _ => pmatch_join ks log end
                  = (log ++ mevents_kids ks, mvals ks)).
      { destruct ks as [|k [|k2 ks2]]; try apply IH.
        (* single child: the join of one result is the result *)
        specialize (IH log). rewrite pmatch_join_cons in IH.
        destruct (pmatch k log) as [l1 a].
        change (pmatch_join PNil l1) with (l1, @nil N) in IH. cbv iota beta in IH.
        rewrite app_nil_r in IH. exact IH. }
      rewrite E. rewrite mcall_spec. cbn [Proc.mevents Proc.mval]. rewrite app_assoc. reflexivity.
    - intros log. cbn. rewrite app_nil_r. reflexivity.
    - intros k IHk ks IHks log. rewrite pmatch_join_cons, IHk, IHks.
      cbn [Proc.mevents_kids Proc.mvals]. rewrite app_assoc. reflexivity.
  Qed.

  Lemma pmatch_spec t log : pmatch t log = (log ++ Proc.mevents mreg mproc t, mval t).
  Proof. apply pmatch_spec_all. Qed.

  Lemma pmatch_forest_spec ts log :
    pmatch_forest mreg mproc ts log = log ++ flat_map (Proc.mevents mreg mproc) ts.
  Proof.
    revert log. induction ts as [|t ts IH]; intro log; cbn [pmatch_forest flat_map].
    - rewrite app_nil_r. reflexivity.
    - rewrite pmatch_spec. cbn [fst]. rewrite IH, app_assoc. reflexivity.
  Qed.

  (* innermost first, left to right: the calls of a registered node come after all calls of
     its children, which come in child order; its argument is the concatenation of the
     children's results *)
  Lemma mevents_node r ks :
    mreg r = true ->
    Proc.mevents mreg mproc (PNode r ks) = mevents_kids ks ++ [(r, mvals ks)].
  Proof. intro H. cbn [Proc.mevents]. rewrite H. reflexivity. Qed.

  Lemma mevents_kids_cons k ks :
    mevents_kids (PCons k ks) = Proc.mevents mreg mproc k ++ mevents_kids ks.
  Proof. reflexivity. Qed.
End MatchProofs.
